"""Bootstrap for the checker: any failure to even start is an ANALYSIS-ERROR (exit 2), never a traceback
that could be mistaken for a violation (exit 1)."""
import os
import sys

HERE = os.path.dirname(os.path.dirname(os.path.abspath(__file__)))
# the script directory (bin/) is sys.path[0]; it holds nothing importable.  Put /verif first.
sys.path.insert(0, HERE)
try:
    from pv.driver import main
except SystemExit:
    raise
except BaseException:   # noqa
    import traceback
    print('ANALYSIS-ERROR the checker failed to start:\n' + traceback.format_exc())
    sys.exit(2)
try:
    rc = main()
except SystemExit as e:
    rc = e.code if isinstance(e.code, int) else 2
except BaseException:   # noqa
    import traceback
    print('ANALYSIS-ERROR internal error in the driver:\n' + traceback.format_exc())
    rc = 2
sys.stdout.flush()
sys.exit(rc)
