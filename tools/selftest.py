#!/venv/bin/python
"""Run the self-validation corpus for some or all properties and print every variant that is not handled as
expected.  usage: tools/selftest.py [PROP ...]"""
import sys, time
from pathlib import Path
sys.path.insert(0, str(Path(__file__).resolve().parent.parent))
from pv.props import PROPS
from pv.selfval import run_selfval
props = sys.argv[1:] or sorted(PROPS)
bad = 0
for p in props:
    t = time.time()
    spec = PROPS[p]
    rules = list(spec['rules']) + list(spec.get('thorough_rules', []))
    sv = run_selfval(p, rules, True)
    print(f'{p}: {sv["summary"]}  ({time.time()-t:.1f}s)')
    for row in sv['variants']:
        if not (row['verdict'].startswith('fired') or row['verdict'].startswith('silent')):
            print('    ', row['id'], '|', row['verdict'], '|', row['fired'][:2], row['errors'][:2])
    bad += len(sv['broken'])
print('broken:', bad)
