#!/venv/bin/python
"""Freeze the documented command-line interface of `penman` (option strings, action, type, nargs, default, dest, group) into spec/cli.json.
Generated from the pinned tree and compared by hand with docs/command-line.rst / `penman --help`; R102 checks the current parser against it."""
import ast, json
from pathlib import Path
src = Path('/repo/penman/__main__.py').read_text()
tree = ast.parse(src)
main = next(n for n in tree.body if isinstance(n, ast.FunctionDef) and n.name == 'main')
groups = {}
opts = []
for n in ast.walk(main):
    if isinstance(n, ast.Assign) and isinstance(n.value, ast.Call) and isinstance(n.value.func, ast.Attribute) \
            and n.value.func.attr in ('add_argument_group', 'add_mutually_exclusive_group'):
        groups[n.targets[0].id] = n.value.func.attr
for n in ast.walk(main):
    if isinstance(n, ast.Call) and isinstance(n.func, ast.Attribute) and n.func.attr == 'add_argument':
        flags = [a.value for a in n.args if isinstance(a, ast.Constant)]
        kw = {}
        for k in n.keywords:
            if k.arg in ('help', 'metavar'):
                continue
            kw[k.arg] = ast.unparse(k.value)
        recv = ast.unparse(n.func.value)
        opts.append({'flags': flags, 'kwargs': kw, 'exclusive': groups.get(recv) == 'add_mutually_exclusive_group'})
tables = {}
for n in tree.body:
    if isinstance(n, ast.Assign) and isinstance(n.targets[0], ast.Name) and n.targets[0].id in ('REARRANGE_KEYS', 'RECONFIGURE_KEYS'):
        tables[n.targets[0].id] = ast.literal_eval(n.value)
Path('/verif/spec/cli.json').write_text(json.dumps({'_source': 'penman/__main__.py main() at the pinned commit, checked against docs/command-line.rst',
                                                     'arguments': opts, 'key_tables': tables}, indent=1) + '\n')
for o in opts:
    print(o)
