#!/venv/bin/python
"""Run every claimed property's quick check against the behaviour-preserving refactorings in /verif/refactors:
any VIOLATION is a false alarm; ANALYSIS-ERROR means the checker failed closed.  usage: tools/rftest.py [NAME...]"""
import os, shutil, subprocess, sys, tempfile
from concurrent.futures import ThreadPoolExecutor
from pathlib import Path
VERIF = Path(__file__).resolve().parent.parent
sys.path.insert(0, str(VERIF))
from pv.props import PROPS


def run(d):
    tmp = Path(tempfile.mkdtemp(prefix='pvrf-'))
    try:
        shutil.copytree('/repo/penman', tmp / 'penman')
        r = subprocess.run(['git', 'apply', '--unsafe-paths', f'--directory={tmp}', str(d / 'patch.diff')], cwd='/', capture_output=True, text=True)
        if r.returncode:
            return d.name, {'_apply': (99, r.stderr[:100])}
        out = {}
        for p in sorted(PROPS):
            r = subprocess.run([str(VERIF / 'bin/vcheck'), p, '--repo', str(tmp), '--no-write', '--no-selfcheck'], capture_output=True, text=True)
            if r.returncode:
                lines = [l for l in r.stdout.splitlines() if l.startswith(('VIOLATION', '  rule', '  key', '  why', 'ANALYSIS-ERROR'))]
                out[p] = (r.returncode, '\n        '.join(l[:230] for l in lines[:8]))
        return d.name, out
    finally:
        shutil.rmtree(tmp, ignore_errors=True)


names = sys.argv[1:]
ds = sorted(p for p in (VERIF / 'refactors').iterdir() if (p / 'patch.diff').exists() and (not names or any(p.name.startswith(n) for n in names)))
fa = err = 0
with ThreadPoolExecutor(max_workers=8) as ex:
    for name, out in ex.map(run, ds):
        f = [p for p, (rc, _) in out.items() if rc == 1]
        e = [p for p, (rc, _) in out.items() if rc not in (0, 1)]
        fa += bool(f); err += bool(e)
        print(f'{name:16s} false_alarm={",".join(f) or "-"} analysis_error={",".join(e) or "-"}')
        for p, (rc, txt) in out.items():
            print(f'     [{p} rc={rc}] {txt}')
print(f'refactorings: {len(ds)}  with false alarm: {fa}  with analysis error: {err}')
