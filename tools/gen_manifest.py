#!/venv/bin/python
"""Generate /verif/MANIFEST.json from pv/props.py (single source of truth) and validate it."""
import json, sys
from pathlib import Path
VERIF = Path(__file__).resolve().parent.parent
sys.path.insert(0, str(VERIF))
from pv.props import PROPS, NOT_APPLICABLE  # noqa

BASE = 'cd /repo && /venv/bin/python -m pytest -ra -q -p no:cacheprovider --timeout=900'
all_ids = [json.loads(l)['id'] for l in (VERIF / 'properties.jsonl').read_text().splitlines() if l.strip()]
checks = []
for pid in sorted(PROPS):
    s = PROPS[pid]
    checks.append({
        'property_id': pid,
        'quick_cmd': f'bin/vcheck {pid} --tier quick',
        'thorough_cmd': f'bin/vcheck {pid} --tier thorough',
        'evidence_file': f'/verif/evidence/{pid}.json',
        'replay_cmd_template': 'bin/vcheck --replay {path}',
        'engine': 'pv',
        'level_claimed': {'category': s['level'], 'text': s['level_text'], 'design_ref': s.get('design_ref', 'DESIGN.md section 5')},
        'level_note': 'Trusted base / assumptions: ' + '; '.join(s.get('trusted_base', [])) + '. Not decided: ' + s.get('not_decided', ''),
        'technique': 'static analysis: ' + s['technique'],
    })
na = []
for pid in all_ids:
    if pid not in PROPS:
        na.append({'property_id': pid, 'reason': NOT_APPLICABLE.get(pid, 'static check not built yet in this round (see DESIGN.md section 10)')})
man = {
    'version': 1,
    'setup_cmd': 'true',
    'hooks': {'guard': 'PENMAN_VERIF', 'enable': 'none needed: the checks read source text only; no hook exists in /repo',
              'baseline_off_cmd': BASE, 'source_commits': [], 'add_only': True},
    'engines': [{'name': 'pv', 'path': 'pv/', 'serves_properties': sorted(PROPS),
                 'kind_free_text': 'repo-specific static analysis in pure stdlib Python: ast source model, call graph, '
                                   'statement CFGs with dataflow, structural types, points-to/mutation effects, '
                                   'regex-to-automata language decisions, parser-skeleton vs reference recogniser'}],
    'checks': checks,
    'not_applicable': na,
    'notes': 'Every check is static: it parses /repo (or $VERIF_REPO) on each run and never imports or executes penman. '
             'exit 0 held / 1 VIOLATION / 2 ANALYSIS-ERROR (checker cannot decide; never a pass). Known findings: known_findings.json.',
}
(VERIF / 'MANIFEST.json').write_text(json.dumps(man, indent=1) + '\n')
try:
    import jsonschema
    jsonschema.validate(man, json.load(open('/root/.vp/MANIFEST.schema.json')))
    print('MANIFEST.json valid;', len(checks), 'checks,', len(na), 'not applicable')
except ImportError:
    print('MANIFEST.json written (jsonschema not importable here);', len(checks), 'checks')
