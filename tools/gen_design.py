#!/venv/bin/python
"""Regenerate the generated parts of DESIGN.md (the table in section 0 and section 11 'As built') from pv/props.py,
the rule registry and seeded/MATRIX.md.  Sections 1-10 (the design written before the code) are left as they are."""
import sys, re, json
sys.path.insert(0, '/verif')
from pv import rules  # noqa
from pv.core import RULE_TITLES
from pv.props import PROPS

d = open('/verif/DESIGN.md').read()
allp = [json.loads(l)['id'] for l in open('/verif/properties.jsonl')]
found = {'C02': 'F1', 'C03': 'F5 F17', 'C04': 'F11', 'C05': 'F15', 'C07': 'F10', 'C08': 'F6', 'C09': 'F2', 'C10': 'F7', 'C11': 'F12',
         'C12': 'F9 F12 F16 F4', 'C14': 'F9 F1 F16', 'C16': 'F3', 'C17': 'F14', 'C19': 'F8 F10', 'C20': 'F13 F3'}
a = d.index('| id  | rules as built')
b = d.index('(This table was regenerated after the build')
rows = ['| id  | rules as built (titles in §11.3) | category | defects found on the pinned tree by these rules |', '|-----|-----|-----|-----|']
for pid in allp:
    if pid in PROPS:
        rows.append(f"| {pid} | {' '.join(PROPS[pid]['rules'])} | {PROPS[pid]['level']} | {found.get(pid, '—')} |")
    else:
        rows.append(f"| {pid} | **not applicable** (see §5, §9) | — | — |")
d = d[:a] + '\n'.join(rows) + '\n\n' + d[b:]

titles = '\n'.join(f'| {r} | {RULE_TITLES[r]} | {" ".join(p for p in allp if p in PROPS and r in PROPS[p]["rules"])} |'
                   for r in sorted(RULE_TITLES, key=lambda x: (int(re.sub(r"\D", "", x) or 0), x)) if any(r in PROPS[p]['rules'] for p in PROPS))
matrix = open('/verif/seeded/MATRIX.md').read().split('\n', 5)[5]
n_seeds = sum(1 for l in matrix.splitlines() if l.startswith('| ') and not l.startswith('| seed') and not l.startswith('|---'))
sec = open('/verif/tools/design_asbuilt.md').read().replace('@TITLES@', titles).replace('@MATRIX@', matrix).replace('@NSEEDS@', str(n_seeds)).replace('@NRF@', str(sum(1 for x in __import__('pathlib').Path('/verif/refactors').iterdir() if (x / 'patch.diff').exists())))
marker = '\n---------------------------------------------------------------------------------------------\n\n## 11. As built'
if marker in d:
    d = d[:d.index(marker)]
d = d.rstrip('\n') + '\n' + sec
open('/verif/DESIGN.md', 'w').write(d)
print('DESIGN.md regenerated:', len(d.splitlines()), 'lines')
