#!/venv/bin/python
"""Freeze the documented call signatures (parameter names, order, defaults) of penman's public callables into spec/signatures.json.
Run once on the pinned tree (the values were checked against docs/api/*.rst and the docstrings); R89 compares the current source with it."""
import ast, json, sys
from pathlib import Path
REPO = Path('/repo/penman')
MODULES = ['__init__', 'codec', 'layout', 'transform', 'graph', 'tree', 'model', 'constant', 'surface', '_format', '_parse', '_lexer', 'epigraph']
out = {}
for m in MODULES:
    src = (REPO / f'{m}.py').read_text()
    tree = ast.parse(src)

    def sig(fn):
        a = fn.args
        pos = a.posonlyargs + a.args
        d = [None] * (len(pos) - len(a.defaults)) + list(a.defaults)
        ps = []
        for p, dv in zip(pos, d):
            ps.append([p.arg, ast.unparse(dv) if dv is not None else '<required>'])
        for p, dv in zip(a.kwonlyargs, a.kw_defaults):
            ps.append([p.arg, ast.unparse(dv) if dv is not None else '<required-kw>'])
        return ps
    for n in tree.body:
        if isinstance(n, ast.FunctionDef) and (not n.name.startswith('_') or m in ('codec', '_format', '_parse', '_lexer')):
            out[f'penman.{m}:{n.name}'] = sig(n)
        elif isinstance(n, ast.ClassDef) and not n.name.startswith('_'):
            for f in n.body:
                if isinstance(f, ast.FunctionDef) and (not f.name.startswith('_') or f.name in ('__init__',)):
                    if any(isinstance(d, ast.Attribute) and d.attr == 'setter' for d in f.decorator_list):
                        continue
                    out[f'penman.{m}:{n.name}.{f.name}'] = sig(f)
Path('/verif/spec/signatures.json').write_text(json.dumps({'_source': 'penman at the pinned commit; parameter names, order and default expressions of the public callables', 'signatures': out}, indent=1) + '\n')
print(len(out), 'signatures')
