#!/venv/bin/python
"""DEVELOPMENT AID: undefined-name lint of the checker's own sources (symbol tables; no third-party linter is installed)."""
import symtable, builtins, glob, sys
allowed = set(dir(builtins)) | {'__name__', '__file__', '__doc__', '__class__'}
bad = 0
for path in glob.glob('/verif/pv/*.py') + glob.glob('/verif/pv/rules/*.py') + glob.glob('/verif/tools/*.py') + glob.glob('/verif/tools/dev/*.py'):
    src = open(path).read()
    try:
        top = symtable.symtable(src, path, 'exec')
    except SyntaxError as e:
        print('SYNTAX', path, e); bad += 1; continue
    mod = {s.get_name() for s in top.get_symbols() if s.is_assigned() or s.is_imported() or s.is_namespace()}
    stack = list(top.get_children()); tabs = []
    while stack:
        t = stack.pop(); tabs.append(t); stack.extend(t.get_children())
    for t in tabs:
        for s in t.get_symbols():
            if s.is_declared_global() and s.is_assigned():
                mod.add(s.get_name())
    for t in tabs:
        for s in t.get_symbols():
            if s.is_referenced() and (s.is_declared_global() or not (s.is_local() or s.is_free())) and s.get_name() not in mod and s.get_name() not in allowed:
                print(path.split('/verif/')[1], t.get_name(), s.get_name()); bad += 1
print('undefined names:', bad)
sys.exit(1 if bad else 0)
