#!/venv/bin/python
"""DEVELOPMENT AID: run all rules once (tools/dev/allrules.py) against every seeded change and/or refactoring.
usage: tools/dev/fastcorpus.py seeds|refactors [NAME-PREFIX...]
seeds: prints which properties would exit 1 (caught) / 2; refactors: any exit 1 is a false alarm."""
import json, os, shutil, subprocess, sys, tempfile
from concurrent.futures import ThreadPoolExecutor
from pathlib import Path
VERIF = Path(__file__).resolve().parent.parent.parent
kind = sys.argv[1]
names = sys.argv[2:]
base = VERIF / ('seeded' if kind == 'seeds' else 'refactors')


def run(d):
    tmp = Path(tempfile.mkdtemp(prefix='pvfast-'))
    try:
        shutil.copytree('/repo/penman', tmp / 'penman', ignore=shutil.ignore_patterns('__pycache__'))
        r = subprocess.run(['git', 'apply', '--unsafe-paths', f'--directory={tmp}', str(d / 'patch.diff')], cwd='/', capture_output=True, text=True)
        if r.returncode:
            return d.name, None, r.stderr[:100]
        r = subprocess.run(['/venv/bin/python', str(VERIF / 'tools/dev/allrules.py'), '--repo', str(tmp)], capture_output=True, text=True, timeout=900)
        try:
            return d.name, json.loads(r.stdout), ''
        except Exception:
            return d.name, None, (r.stdout + r.stderr)[-300:]
    except subprocess.TimeoutExpired:
        return d.name, None, 'timeout'
    finally:
        shutil.rmtree(tmp, ignore_errors=True)


ds = sorted(p for p in base.iterdir() if (p / 'patch.diff').exists() and (not names or any(p.name.startswith(n) for n in names)))
bad = 0
with ThreadPoolExecutor(max_workers=14) as ex:
    for name, out, err in ex.map(run, ds):
        if out is None or 'fatal' in (out or {}):
            print(f'{name:14s} BROKEN {err or out}')
            bad += 1
            continue
        v = sorted(p for p, rc in out['props'].items() if rc == 1)
        e = sorted(p for p, rc in out['props'].items() if rc == 2)
        vr = sorted(r for r, x in out['rules'].items() if x['violations'])
        er = sorted(r for r, x in out['rules'].items() if x.get('error'))
        if kind == 'seeds':
            own = name[:3]
            meta = json.loads((base / name / 'meta.json').read_text()) if (base / name / 'meta.json').exists() else {}
            own = meta.get('property', own)
            st = 'own' if own in v else ('other' if v else ('undecided' if e else 'MISSED'))
            if st != 'own':
                bad += 1
            print(f'{name:14s} {st:9s} rules={",".join(vr) or "-"} undecided={",".join(er) or "-"}')
        else:
            st = 'FALSE-ALARM' if v else ('exit2' if e else 'ok')
            if v:
                bad += 1
            print(f'{name:16s} {st:11s} violations={",".join(vr) or "-"} undecided={",".join(er) or "-"}')
            for r_ in vr:
                for x in out['rules'][r_]['violations'][:2]:
                    print(f'        {r_} {x["where"]} {x["key"][:100]} | {x["msg"][:160]}')
print(f'{kind}: {len(ds)}  not-own/false-alarm: {bad}')
