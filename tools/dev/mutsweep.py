#!/venv/bin/python
"""DEVELOPMENT AID, NOT A CHECK: systematic mutant sweep used to measure the static checks.

 1. generate first-order mutants of /repo/penman/*.py (comparison / boolean / constant / call / statement operators,
    located on the AST, applied as a text splice so every mutant is a one-construct edit);
 2. keep the mutants that still import and pass the pinned 93-test suite (survivors: what a reviewer relying on
    the tests would not notice);
 3. run the behaviour battery (tools/dev/mut_battery.py - runtime, triage only) to sort survivors into
    "observable behaviour changed in category Cxx" and "no difference observed";
 4. run every armed rule (tools/dev/allrules.py - the static checks) on each survivor;
 5. report: behaviour-changing survivors no check notices (candidates for new rules), survivors flagged although the
    battery sees no difference (candidates for false alarms, or battery blind spots - to be read by hand).

Everything happens in scratch copies under $TMPDIR/mutsweep-*, removed afterwards; /repo is never written.
usage: tools/dev/mutsweep.py gen|test|battery|rules|report [--out DIR] [--only file.py] [--jobs N]
"""
import ast, json, os, shutil, subprocess, sys, tempfile, hashlib
from concurrent.futures import ThreadPoolExecutor
from pathlib import Path

VERIF = Path(__file__).resolve().parent.parent.parent
REPO = Path('/repo')
PY = '/venv/bin/python'
ARGS = sys.argv[1:]
OUT = Path(ARGS[ARGS.index('--out') + 1]) if '--out' in ARGS else Path('/tmp/mutsweep')
JOBS = int(ARGS[ARGS.index('--jobs') + 1]) if '--jobs' in ARGS else 15
ONLY = ARGS[ARGS.index('--only') + 1] if '--only' in ARGS else None

CMP = {ast.Eq: [ast.NotEq], ast.NotEq: [ast.Eq], ast.Lt: [ast.LtE, ast.Gt], ast.LtE: [ast.Lt], ast.Gt: [ast.GtE, ast.Lt], ast.GtE: [ast.Gt],
       ast.In: [ast.NotIn], ast.NotIn: [ast.In], ast.Is: [ast.IsNot], ast.IsNot: [ast.Is]}
METH = {'lstrip': ['rstrip', 'strip'], 'rstrip': ['lstrip', 'strip'], 'strip': ['lstrip', 'rstrip'], 'startswith': ['endswith'], 'endswith': ['startswith'],
        'index': ['rindex'], 'rindex': ['index'], 'find': ['rfind'], 'rfind': ['find'], 'partition': ['rpartition'], 'rpartition': ['partition'], 'split': ['rsplit'],
        'extend': ['append'], 'update': ['setdefault'], 'match': ['search', 'fullmatch'], 'fullmatch': ['match'], 'search': ['match'], 'union': ['intersection'],
        'difference': ['union'], 'get': ['pop'], 'setdefault': ['get'], 'lower': ['upper'], 'items': ['keys'], 'isdigit': ['isalpha'], 'isalpha': ['isalnum']}
FUNC = {'min': ['max'], 'max': ['min'], 'any': ['all'], 'all': ['any'], 'sorted': ['list', 'reversed'], 'reversed': ['iter'], 'set': ['list'], 'int': ['float'], 'bool': ['str'],
        'len': ['id'], 'isinstance': ['issubclass']}
UNWRAP = {'list', 'dict', 'set', 'tuple', 'sorted', 'reversed', 'deepcopy', 'copy', 'str', 'bool', 'iter', 'cast', 'enumerate'}


def seg(src_lines, node):
    return ast.get_source_segment(''.join(src_lines), node)


class Gen:
    def __init__(self, path: Path):
        self.path = path
        self.src = path.read_text()
        self.tree = ast.parse(self.src)
        self.lines = self.src.splitlines(True)
        self.offs = [0]
        for l in self.lines:
            self.offs.append(self.offs[-1] + len(l.encode('utf-8')))
        self.bsrc = self.src.encode('utf-8')
        self.out = []
        self.func = {}
        for f in ast.walk(self.tree):
            if isinstance(f, (ast.FunctionDef, ast.AsyncFunctionDef, ast.ClassDef)):
                for n in ast.walk(f):
                    if hasattr(n, 'lineno'):
                        self.func.setdefault(id(n), []).append(f.name)
        self.docstrings = set()
        for n in ast.walk(self.tree):
            if isinstance(n, (ast.FunctionDef, ast.ClassDef, ast.Module, ast.AsyncFunctionDef)) and n.body and isinstance(n.body[0], ast.Expr) \
                    and isinstance(n.body[0].value, ast.Constant) and isinstance(n.body[0].value.value, str):
                self.docstrings.add(id(n.body[0].value))
                self.docstrings.add(id(n.body[0]))

    def span(self, node):
        a = self.offs[node.lineno - 1] + node.col_offset
        b = self.offs[node.end_lineno - 1] + node.end_col_offset
        return a, b

    def text(self, node):
        a, b = self.span(node)
        return self.bsrc[a:b].decode('utf-8')

    def emit(self, node, new_text, op, a=None, b=None):
        if a is None:
            a, b = self.span(node)
        old = self.bsrc[a:b].decode('utf-8')
        if old == new_text:
            return
        new_src = (self.bsrc[:a] + new_text.encode('utf-8') + self.bsrc[b:]).decode('utf-8')
        try:
            ast.parse(new_src)
        except SyntaxError:
            return
        fn = '.'.join(dict.fromkeys(self.func.get(id(node), []))) or '<module>'
        self.out.append({'file': self.path.name, 'line': node.lineno, 'func': fn, 'op': op, 'old': old[:120], 'new': new_text[:120], 'a': a, 'b': b, 'text': new_text})

    def indent_of(self, node):
        return ' ' * node.col_offset

    def run(self):
        pm = {}
        for p in ast.walk(self.tree):
            for c in ast.iter_child_nodes(p):
                pm[id(c)] = p
        for n in ast.walk(self.tree):
            if id(n) in self.docstrings:
                continue
            par = pm.get(id(n))
            if isinstance(n, ast.Compare):
                for i, op in enumerate(n.ops):
                    for alt in CMP.get(type(op), []):
                        m = ast.Compare(left=n.left, ops=n.ops[:i] + [alt()] + n.ops[i + 1:], comparators=n.comparators)
                        self.emit(n, '(' + ast.unparse(m) + ')', f'cmp:{type(op).__name__}->{alt.__name__}')
            elif isinstance(n, ast.BoolOp):
                alt = ast.Or() if isinstance(n.op, ast.And) else ast.And()
                self.emit(n, '(' + ast.unparse(ast.BoolOp(op=alt, values=n.values)) + ')', 'bool:and<->or')
                for i in range(len(n.values)):
                    rest = n.values[:i] + n.values[i + 1:]
                    m = rest[0] if len(rest) == 1 else ast.BoolOp(op=n.op, values=rest)
                    self.emit(n, '(' + ast.unparse(m) + ')', f'bool:drop-operand-{i}')
            elif isinstance(n, ast.UnaryOp) and isinstance(n.op, ast.Not):
                self.emit(n, '(' + ast.unparse(n.operand) + ')', 'not:removed')
            elif isinstance(n, ast.UnaryOp) and isinstance(n.op, ast.USub) and not isinstance(n.operand, ast.Constant):
                self.emit(n, '(' + ast.unparse(n.operand) + ')', 'neg:removed')
            if isinstance(n, (ast.If, ast.While, ast.IfExp)):
                t = n.test
                self.emit(t, 'not (' + self.text(t) + ')', 'test:negated')
                if not isinstance(n, ast.While):
                    self.emit(t, 'True', 'test:True')
                self.emit(t, 'False', 'test:False')
            if isinstance(n, ast.comprehension):
                for t in n.ifs:
                    self.emit(t, 'not (' + self.text(t) + ')', 'filter:negated')
                    self.emit(t, 'True', 'filter:True')
            if isinstance(n, ast.Assert):
                pass
            if isinstance(n, ast.Constant) and not isinstance(par, ast.JoinedStr):
                v = n.value
                if isinstance(par, ast.Expr):
                    continue
                if v is True or v is False:
                    self.emit(n, repr(not v), 'const:bool')
                elif isinstance(v, int):
                    for w in {v + 1, v - 1} | ({0} if v not in (0, 1, -1) else set()):
                        self.emit(n, f'({w})' if w < 0 else repr(w), f'const:int->{w}')
                elif isinstance(v, str) and not isinstance(par, (ast.FormattedValue,)):
                    if v:
                        self.emit(n, "''", 'const:str->empty')
                        if len(v) <= 40:
                            self.emit(n, repr(v[1:]), 'const:str-drop-first')
                            self.emit(n, repr(v[:-1]), 'const:str-drop-last')
                            if len(v) >= 3:
                                self.emit(n, repr(v[:len(v) // 2] + v[len(v) // 2 + 1:]), 'const:str-drop-mid')
                        self.emit(n, repr(v + 'X'), 'const:str-append')
                    else:
                        self.emit(n, "'X'", 'const:str-empty->X')
                elif v is None and isinstance(par, (ast.Return, ast.keyword, ast.Call)):
                    pass
            if isinstance(n, ast.BinOp):
                alt = {ast.Add: ast.Sub, ast.Sub: ast.Add, ast.Mult: ast.FloorDiv, ast.FloorDiv: ast.Mult, ast.Mod: None, ast.BitOr: ast.BitAnd, ast.BitAnd: ast.BitOr}.get(type(n.op))
                if alt:
                    self.emit(n, '(' + ast.unparse(ast.BinOp(left=n.left, op=alt(), right=n.right)) + ')', f'binop:{type(n.op).__name__}->{alt.__name__}')
                if isinstance(n.op, ast.Add):
                    self.emit(n, '(' + self.text(n.left) + ')', 'binop:left-only')
                    self.emit(n, '(' + self.text(n.right) + ')', 'binop:right-only')
            if isinstance(n, ast.AugAssign):
                alt = {ast.Add: ast.Sub, ast.Sub: ast.Add, ast.BitOr: ast.BitAnd}.get(type(n.op))
                if alt:
                    self.emit(n, ast.unparse(ast.AugAssign(target=n.target, op=alt(), value=n.value)), 'augassign:op')
                self.emit(n, 'pass', 'stmt:augassign-deleted')
                self.emit(n, ast.unparse(ast.Assign(targets=[n.target], value=n.value, lineno=0)), 'augassign:assign')
            if isinstance(n, ast.Expr) and isinstance(n.value, ast.Call):
                self.emit(n, 'pass', 'stmt:call-deleted')
            if isinstance(n, ast.Continue):
                self.emit(n, 'break', 'stmt:continue->break')
                self.emit(n, 'pass', 'stmt:continue->pass')
            if isinstance(n, ast.Break):
                self.emit(n, 'continue', 'stmt:break->continue')
                self.emit(n, 'pass', 'stmt:break->pass')
            if isinstance(n, ast.Raise):
                self.emit(n, 'pass', 'stmt:raise-deleted')
            if isinstance(n, ast.Return) and n.value is not None and not (isinstance(n.value, ast.Constant) and n.value.value is None):
                self.emit(n, 'return None', 'return:None')
            if isinstance(n, ast.Assign) and len(n.targets) == 1:
                t = n.targets[0]
                if isinstance(t, (ast.Subscript, ast.Attribute)):
                    self.emit(n, 'pass', 'stmt:store-deleted')
                if isinstance(t, ast.Tuple) and isinstance(n.value, ast.Tuple) and len(t.elts) == 2 == len(n.value.elts):
                    self.emit(n.value, ast.unparse(ast.Tuple(elts=n.value.elts[::-1], ctx=ast.Load())), 'assign:swap-pair')
                if isinstance(t, ast.Name):
                    # re-binding of an existing local deleted (first bindings would only raise NameError)
                    self.emit(n, 'pass', 'stmt:assign-deleted')
            if isinstance(n, ast.Subscript) and isinstance(n.ctx, ast.Load):
                s = n.slice
                if isinstance(s, ast.Slice):
                    if s.lower is not None:
                        self.emit(n, self.text(n.value) + '[' + ast.unparse(ast.Slice(lower=None, upper=s.upper, step=s.step)) + ']', 'slice:drop-lower')
                    if s.upper is not None:
                        self.emit(n, self.text(n.value) + '[' + ast.unparse(ast.Slice(lower=s.lower, upper=None, step=s.step)) + ']', 'slice:drop-upper')
                    if s.step is not None:
                        self.emit(n, self.text(n.value) + '[' + ast.unparse(ast.Slice(lower=s.lower, upper=s.upper, step=None)) + ']', 'slice:drop-step')
            if isinstance(n, ast.Call):
                f = n.func
                if isinstance(f, ast.Attribute):
                    for alt in METH.get(f.attr, []):
                        a, b = self.span(f)
                        self.emit(f, self.text(f.value) + '.' + alt, f'method:{f.attr}->{alt}')
                    if f.attr in ('copy', 'deepcopy') and len(n.args) <= 1:
                        self.emit(n, '(' + (self.text(n.args[0]) if n.args else self.text(f.value)) + ')', f'call:{f.attr}-removed')
                    if f.attr == 'pop' and not n.args:
                        self.emit(n, self.text(f) + '(0)', 'call:pop->pop(0)')
                    if f.attr == 'pop' and len(n.args) == 1 and isinstance(n.args[0], ast.Constant) and n.args[0].value == 0:
                        self.emit(n, self.text(f) + '()', 'call:pop(0)->pop')
                    if f.attr == 'append' and len(n.args) == 1:
                        self.emit(n, self.text(f.value) + '.insert(0, ' + self.text(n.args[0]) + ')', 'call:append->insert0')
                    if f.attr == 'insert' and len(n.args) == 2:
                        self.emit(n, self.text(f.value) + '.append(' + self.text(n.args[1]) + ')', 'call:insert->append')
                    if f.attr in ('get', 'pop', 'setdefault') and len(n.args) == 2:
                        self.emit(n, self.text(f) + '(' + self.text(n.args[0]) + ')', 'call:drop-default')
                    if f.attr in ('strip', 'lstrip', 'rstrip', 'lower', 'upper', 'reverse', 'sort') and not n.args and isinstance(par, ast.Expr) is False:
                        self.emit(n, '(' + self.text(f.value) + ')', f'call:{f.attr}-removed')
                    if f.attr in ('lstrip', 'rstrip', 'strip', 'split', 'rsplit') and n.args:
                        self.emit(n, self.text(f) + '()', f'call:{f.attr}-noarg')
                    if f.attr in ('split', 'rsplit', 'replace') and len(n.args) >= 2:
                        self.emit(n, self.text(f) + '(' + ', '.join(self.text(a) for a in n.args[:-1]) + ')', f'call:{f.attr}-drop-count')
                if isinstance(f, ast.Name):
                    for alt in FUNC.get(f.id, []):
                        self.emit(f, alt, f'func:{f.id}->{alt}')
                    if f.id in UNWRAP and len(n.args) >= 1 and not n.keywords:
                        self.emit(n, '(' + self.text(n.args[-1]) + ')', f'call:{f.id}-unwrapped')
                    if f.id in ('sorted', 'min', 'max') and n.keywords:
                        self.emit(n, f.id + '(' + ', '.join(self.text(a) for a in n.args) + ')', f'call:{f.id}-drop-key')
                    if f.id == 'enumerate' and len(n.args) == 2:
                        self.emit(n, 'enumerate(' + self.text(n.args[0]) + ')', 'call:enumerate-drop-start')
                if isinstance(f, ast.Attribute) and f.attr == 'deepcopy' or (isinstance(f, ast.Name) and f.id == 'deepcopy'):
                    pass
                # drop one keyword argument / swap first two positional arguments
                for i, k in enumerate(n.keywords):
                    if k.arg is None:
                        continue
                    m = ast.Call(func=n.func, args=n.args, keywords=n.keywords[:i] + n.keywords[i + 1:])
                    self.emit(n, ast.unparse(m), f'call:drop-kw-{k.arg}')
                if len(n.args) >= 2 and not any(isinstance(a, ast.Starred) for a in n.args[:2]) and ast.dump(n.args[0]) != ast.dump(n.args[1]):
                    m = ast.Call(func=n.func, args=[n.args[1], n.args[0]] + n.args[2:], keywords=n.keywords)
                    self.emit(n, ast.unparse(m), 'call:swap-args')
            if isinstance(n, (ast.For, ast.comprehension)) and isinstance(n.iter, ast.Call) and isinstance(n.iter.func, ast.Name) and n.iter.func.id == 'reversed':
                pass
            if isinstance(n, ast.If) and n.orelse and not (len(n.orelse) == 1 and isinstance(n.orelse[0], ast.If)):
                pass
            if isinstance(n, ast.Try):
                for h in n.handlers:
                    if h.type is not None and isinstance(h.type, ast.Name):
                        self.emit(h.type, 'Exception', 'except:widened')
            if isinstance(n, ast.Starred):
                pass
            if isinstance(n, ast.Tuple) and isinstance(getattr(n, 'ctx', None), ast.Load) and len(n.elts) == 2 and not isinstance(par, (ast.Subscript,)) \
                    and all(isinstance(e, (ast.Name, ast.Attribute, ast.Subscript)) for e in n.elts) and ast.dump(n.elts[0]) != ast.dump(n.elts[1]):
                self.emit(n, '(' + self.text(n.elts[1]) + ', ' + self.text(n.elts[0]) + ')', 'tuple:swap')
            if isinstance(n, ast.Name) and isinstance(n.ctx, ast.Load) and n.id in ('source', 'target') and isinstance(par, (ast.Tuple, ast.Compare, ast.Call, ast.Subscript)):
                self.emit(n, 'target' if n.id == 'source' else 'source', 'name:source<->target')
        return self.out


def gen():
    OUT.mkdir(parents=True, exist_ok=True)
    allm = []
    files = sorted(p for p in (REPO / 'penman').rglob('*.py') if p.name not in ('__about__.py',) and 'interface' not in p.name)
    for p in files:
        if ONLY and p.name != ONLY:
            continue
        g = Gen(p)
        for m in g.run():
            m['file'] = str(p.relative_to(REPO))
            allm.append(m)
    seen = set()
    uniq = []
    for m in allm:
        k = (m['file'], m['a'], m['b'], m['text'])
        if k in seen:
            continue
        seen.add(k)
        m['id'] = 'm%05d' % len(uniq)
        uniq.append(m)
    (OUT / 'mutants.jsonl').write_text('\n'.join(json.dumps(m) for m in uniq) + '\n')
    from collections import Counter
    print(len(uniq), 'mutants;', Counter(m['file'] for m in uniq).most_common())


def load(name='mutants.jsonl'):
    return [json.loads(l) for l in (OUT / name).read_text().splitlines() if l.strip()]


def materialise(m, full=False):
    """scratch copy with the mutant applied; returns dir (caller removes)."""
    tmp = Path(tempfile.mkdtemp(prefix='mutsweep-'))
    shutil.copytree(REPO / 'penman', tmp / 'penman', ignore=shutil.ignore_patterns('__pycache__'))
    if full:
        shutil.copytree(REPO / 'tests', tmp / 'tests', ignore=shutil.ignore_patterns('__pycache__'))
        for f in ('pyproject.toml', 'conftest.py', 'setup.cfg', 'pytest.ini', 'tox.ini'):
            if (REPO / f).exists():
                shutil.copy(REPO / f, tmp / f)
    p = tmp / m['file']
    b = (REPO / m['file']).read_bytes()
    p.write_bytes(b[:m['a']] + m['text'].encode('utf-8') + b[m['b']:])
    return tmp


def run_tests(m):
    tmp = materialise(m, full=True)
    try:
        env = dict(os.environ, PYTHONPATH=str(tmp), PYTHONDONTWRITEBYTECODE='1', PYTHONHASHSEED='0')
        try:
            r = subprocess.run([PY, '-m', 'pytest', '-x', '-q', '-p', 'no:cacheprovider', '--timeout=20'], cwd=tmp, env=env, capture_output=True, text=True, timeout=120)
            ok = r.returncode == 0
            tail = r.stdout.strip().splitlines()[-1:] if r.stdout.strip() else []
        except subprocess.TimeoutExpired:
            ok, tail = False, ['timeout']
        return m['id'], ok, tail
    finally:
        shutil.rmtree(tmp, ignore_errors=True)


def test():
    ms = load()
    done = {}
    f = OUT / 'tested.jsonl'
    if f.exists():
        for l in f.read_text().splitlines():
            d = json.loads(l); done[d['id']] = d
    todo = [m for m in ms if m['id'] not in done]
    print('to test:', len(todo))
    with open(f, 'a') as fh, ThreadPoolExecutor(max_workers=JOBS) as ex:
        for i, (mid, ok, tail) in enumerate(ex.map(run_tests, todo)):
            fh.write(json.dumps({'id': mid, 'survived': ok, 'tail': tail}) + '\n')
            if i % 200 == 0:
                fh.flush(); print(i, flush=True)
    done = [json.loads(l) for l in f.read_text().splitlines()]
    print('survivors:', sum(d['survived'] for d in done), 'of', len(done))


def run_battery(m):
    tmp = materialise(m) if m else None
    try:
        env = dict(os.environ, PYTHONPATH=str(tmp) if tmp else str(REPO), PYTHONDONTWRITEBYTECODE='1', PYTHONHASHSEED='0')
        try:
            r = subprocess.run([PY, str(VERIF / 'tools/dev/mut_battery.py')], cwd='/tmp', env=env, capture_output=True, text=True, timeout=400)
            out = json.loads(r.stdout.strip().splitlines()[-1]) if r.returncode == 0 and r.stdout.strip() else {'_crash': (r.stderr or '')[-300:]}
        except subprocess.TimeoutExpired:
            out = {'_crash': 'timeout'}
        except Exception as e:
            out = {'_crash': repr(e)}
        return (m['id'] if m else 'base'), out
    finally:
        if tmp:
            shutil.rmtree(tmp, ignore_errors=True)


def battery():
    ms = {m['id']: m for m in load()}
    surv = [json.loads(l) for l in (OUT / 'tested.jsonl').read_text().splitlines()]
    surv = [ms[d['id']] for d in surv if d['survived']]
    # the AMR role/reification tables are data: one mutant in eight is enough to see whether the table rules notice
    surv = [m for m in surv if not m['file'].endswith('models/amr.py') or int(m['id'][1:]) % 8 == 0]
    _, base = run_battery(None)
    (OUT / 'battery_base.json').write_text(json.dumps(base))
    f = OUT / 'battery.jsonl'
    done = set()
    if f.exists():
        done = {json.loads(l)['id'] for l in f.read_text().splitlines()}
    todo = [m for m in surv if m['id'] not in done]
    print('battery for', len(todo))
    with open(f, 'a') as fh, ThreadPoolExecutor(max_workers=JOBS) as ex:
        for i, (mid, out) in enumerate(ex.map(run_battery, todo)):
            diff = sorted(k for k in base if out.get(k) != base[k]) if '_crash' not in out else ['_crash']
            fh.write(json.dumps({'id': mid, 'diff': diff, 'crash': out.get('_crash')}) + '\n')
            if i % 100 == 0:
                fh.flush(); print(i, flush=True)


def run_rules(m):
    tmp = materialise(m)
    try:
        try:
            r = subprocess.run([PY, '-B', str(VERIF / 'tools/dev/allrules.py'), '--repo', str(tmp)], capture_output=True, text=True, timeout=900)
            out = json.loads(r.stdout.strip().splitlines()[-1]) if r.stdout.strip() else {'fatal': r.stderr[-300:]}
        except subprocess.TimeoutExpired:
            out = {'fatal': 'timeout'}
        except Exception as e:
            out = {'fatal': repr(e) + r.stdout[-200:]}
        return m['id'], out
    finally:
        shutil.rmtree(tmp, ignore_errors=True)


def rules():
    ms = {m['id']: m for m in load()}
    bat = [json.loads(l) for l in (OUT / 'battery.jsonl').read_text().splitlines()]
    f = OUT / 'rules.jsonl'
    if '--fresh' in ARGS and f.exists():
        f.unlink()
    done = set()
    if f.exists():
        done = {json.loads(l)['id'] for l in f.read_text().splitlines()}
    todo = [ms[d['id']] for d in bat if d['id'] not in done]
    print('rules for', len(todo))
    with open(f, 'a') as fh, ThreadPoolExecutor(max_workers=JOBS) as ex:
        for i, (mid, out) in enumerate(ex.map(run_rules, todo)):
            if 'fatal' in out:
                rec = {'id': mid, 'fatal': out['fatal']}
            else:
                rec = {'id': mid, 'viol': {r: [v['key'] for v in d['violations']] for r, d in out['rules'].items() if d['violations']},
                       'err': {r: d['error'][:160] for r, d in out['rules'].items() if d.get('error')}, 'props': out['props']}
            fh.write(json.dumps(rec) + '\n')
            if i % 50 == 0:
                fh.flush(); print(i, flush=True)


def report():
    ms = {m['id']: m for m in load()}
    bat = {json.loads(l)['id']: json.loads(l) for l in (OUT / 'battery.jsonl').read_text().splitlines()}
    rl = {json.loads(l)['id']: json.loads(l) for l in (OUT / 'rules.jsonl').read_text().splitlines()}
    rows = []
    for mid, b in bat.items():
        r = rl.get(mid)
        if r is None:
            continue
        m = ms[mid]
        changed = bool(b['diff'])
        fired = sorted(p for p, rc in (r.get('props') or {}).items() if rc == 1)
        undec = sorted(p for p, rc in (r.get('props') or {}).items() if rc == 2)
        rows.append((m, b['diff'], fired, undec, r))
    cc = [x for x in rows if x[1]]
    nc = [x for x in rows if not x[1]]
    print(f'survivors analysed: {len(rows)}; behaviour changed: {len(cc)}; no difference observed: {len(nc)}')
    print(f'  changed & some check fires: {sum(1 for x in cc if x[2])}; changed & only undecided: {sum(1 for x in cc if not x[2] and x[3])}; changed & silent: {sum(1 for x in cc if not x[2] and not x[3])}')
    print(f'  unchanged & some check fires: {sum(1 for x in nc if x[2])}; unchanged & undecided: {sum(1 for x in nc if not x[2] and x[3])}')
    def line(x):
        m, diff, fired, undec, r = x
        vio = ','.join(sorted(r.get('viol', {})))
        return f"{m['id']} {m['file']}:{m['line']} {m['func']} [{m['op']}] `{m['old'][:50]}` -> `{m['new'][:50]}` | diff={','.join(diff)} | fired={','.join(fired)} ({vio}) | undecided={','.join(undec)} ({','.join(sorted(r.get('err', {})))})"
    with open(OUT / 'report.txt', 'w') as fh:
        fh.write('## behaviour changed, silent\n')
        for x in sorted((x for x in cc if not x[2] and not x[3]), key=lambda x: (x[0]['file'], x[0]['line'])):
            fh.write(line(x) + '\n')
        fh.write('\n## behaviour changed, only undecided\n')
        for x in sorted((x for x in cc if not x[2] and x[3]), key=lambda x: (x[0]['file'], x[0]['line'])):
            fh.write(line(x) + '\n')
        fh.write('\n## no difference observed, but a check fires (false alarm or battery blind spot)\n')
        for x in sorted((x for x in nc if x[2]), key=lambda x: (x[0]['file'], x[0]['line'])):
            fh.write(line(x) + '\n')
        fh.write('\n## no difference observed, undecided\n')
        for x in sorted((x for x in nc if not x[2] and x[3]), key=lambda x: (x[0]['file'], x[0]['line'])):
            fh.write(line(x) + '\n')
        fh.write('\n## behaviour changed, caught\n')
        for x in sorted((x for x in cc if x[2]), key=lambda x: (x[0]['file'], x[0]['line'])):
            fh.write(line(x) + '\n')
    print('written', OUT / 'report.txt')


if __name__ == '__main__':
    cmd = ARGS[0] if ARGS else 'help'
    {'gen': gen, 'test': test, 'battery': battery, 'rules': rules, 'report': report}.get(cmd, lambda: print(__doc__))()
