#!/venv/bin/python
"""DEVELOPMENT AID: run every armed rule once against a source tree and print, as JSON, which rules report a
violation / are undecided, and which properties would therefore exit 1 / 2.  Same engines and rules as bin/vcheck,
one process instead of nineteen.  usage: tools/dev/allrules.py [--repo DIR]"""
import json, sys, traceback
from pathlib import Path
sys.path.insert(0, str(Path(__file__).resolve().parent.parent.parent))
from pv.core import Ctx
from pv.src import Repo, AnalysisError
from pv import rules  # noqa
from pv.props import PROPS


def main():
    args = sys.argv[1:]
    root = None
    if '--repo' in args:
        i = args.index('--repo'); root = args[i + 1]
    out = {'rules': {}, 'props': {}}
    try:
        ctx = Ctx(Repo(root), 'quick')
    except Exception as e:
        print(json.dumps({'fatal': f'{type(e).__name__}: {e}'}))
        return
    need = sorted({r for spec in PROPS.values() for r in spec['rules']})
    for rid in need:
        try:
            rep = ctx.run_rule(rid)
            v = [{'key': i.key, 'where': i.where, 'msg': (i.msg or '')[:300]} for i in rep.violations()]
            out['rules'][rid] = {'violations': v}
        except AnalysisError as e:
            out['rules'][rid] = {'violations': [], 'error': str(e)[:300]}
        except Exception:
            out['rules'][rid] = {'violations': [], 'error': 'internal: ' + traceback.format_exc()[-300:]}
    for p, spec in PROPS.items():
        viol = [r for r in spec['rules'] if out['rules'][r]['violations']]
        err = [r for r in spec['rules'] if out['rules'][r].get('error')]
        out['props'][p] = 1 if viol else (2 if err else 0)
    print(json.dumps(out))


main()
