#!/venv/bin/python
"""DEVELOPMENT AID, NOT A CHECK.  Behaviour battery used only to triage automatically generated mutants of penman
(tools/dev/mutsweep.py): it runs the public API over a fixed corpus and prints one digest per property-shaped
category, so that a mutant that survives the test suite can be sorted into "observable behaviour changed in
category X" / "no difference observed".  The verdict of a registered check never depends on this file: checks
are static (see DESIGN.md); this is the measuring stick for how often they notice a behaviour-changing edit.
usage: PYTHONPATH=<dir with penman/> python mut_battery.py [--full]   -> JSON {category: digest}
"""
import sys, json, hashlib, random, signal, io, copy, os, tempfile, itertools

import penman
from penman import layout, transform, surface, constant, model as pmodel, tree as ptree, graph as pgraph
from penman.models import amr, noop
from penman import _lexer, codec as pcodec
from penman.__main__ import main as cli_main, REARRANGE_KEYS as REARR

FULL = '--full' in sys.argv
import logging
logging.disable(logging.CRITICAL)
import warnings
warnings.simplefilter('ignore')
OUT = {}
_acc = None


class Timeout(Exception):
    pass


def _alarm(*a):
    raise Timeout()


signal.signal(signal.SIGALRM, _alarm)


def rec(x):
    _acc.append(repr(x))


def safe(f, *a, **k):
    try:
        r = f(*a, **k)
        if hasattr(r, '__next__'):
            r = list(r)
        return r
    except Timeout:
        raise
    except RecursionError:
        return 'EXC:RecursionError'
    except BaseException as e:
        # the properties pin the exception class and, for decode errors, the position - not the wording
        d = ''
        for at in ('lineno', 'offset'):
            if hasattr(e, at):
                d += f'|{at}={getattr(e, at)!r}'
        return f'EXC:{type(e).__name__}{d}'


def category(name, secs=20):
    def deco(f):
        global _acc
        _acc = []
        signal.alarm(secs)
        try:
            f()
        except Timeout:
            _acc.append('TIMEOUT')
        except BaseException as e:
            _acc.append(f'CRASH:{type(e).__name__}:{e}')
        finally:
            signal.alarm(0)
        OUT[name] = hashlib.sha1('\n'.join(_acc).encode('utf-8', 'replace')).hexdigest()[:16] + f':{len(_acc)}'
        if os.environ.get('BATTERY_DUMP'):
            with open(os.path.join(os.environ['BATTERY_DUMP'], name + '.txt'), 'w', encoding='utf-8', errors='replace') as fh:
                fh.write('\n'.join(_acc))
        return f
    return deco


def grepr(g):
    if not isinstance(g, pgraph.Graph):
        return g
    return (g.top, list(g.triples), sorted((repr(k), repr(v)) for k, v in g.epidata.items()), sorted(g.metadata.items()))


def trepr(t):
    if not isinstance(t, ptree.Tree):
        return t
    return (t.node, sorted(t.metadata.items()))


# ------------------------------------------------------------------------------------------------ corpus
HAND = [
    '(a / alpha)', '(a)', '(a /)', '()', '(a / alpha :ARG0 (b / beta))', '(a / alpha :ARG0 b :ARG1 (b / beta))',
    '(a / alpha :ARG0-of (b / beta))', '(a / alpha :ARG0-of b :ARG1 (b / beta :ARG0 a))', '(a / alpha :mod 1 :mod 2.5 :mod -3e4 :mod "str ing")',
    '(a / alpha :op1 "x~y" :op2 "a\\"b" :op3 "(" :op4 ")")', '(a / alpha~e.1 :ARG0~e.2 (b / beta~2,3))', '(a / alpha :ARG0~x.4 b~e.5 :ARG1 (b / beta))',
    '(a / alpha :polarity - :mode + :value 0 :li 0.0)', '(a / alpha :ARG0 (b / beta :ARG0 (c / gamma :ARG0 (d / delta))) :ARG1 c :ARG2 d)',
    '(a / alpha :ARG0 (b) :ARG1 (c /))', '(a / alpha :ARG0)', '(a / alpha :ARG0 :ARG1 b)', '(a / alpha :consist-of (b / beta))', '(a / alpha :consist-of-of (b / beta))',
    '(a / alpha :domain (b / beta) :mod (c / gamma))', '(a / alpha :domain-of (b / beta))', '(a / alpha :ARG0-of-of (b / beta))', '(a / alpha : (b / beta))',
    '(a / alpha :-of (b / beta))', '(a / alpha :ARG0-of 5)', '(a / alpha :ARG0-of "s")', '(a / alpha :ARG0 a)', '(a / alpha :ARG0-of a)',
    '# ::id 1\n# ::snt a b c\n(a / alpha)', '# ::id 1 ::snt x y\n(a / alpha)', '# ::id\n(a / alpha)', '# comment\n(a / alpha)\n# ::id 2\n(b / beta)',
    '(a / alpha)(b / beta)', '(a / alpha)\n\n(b / beta)\n', '(a / alpha\n   :ARG0 (b / beta)\n   :ARG1 (c / gamma))', '(a\r/ alpha\r\n:ARG0 b)', '(a / alpha :ARG0 b\x0b:ARG1 c\x0c)',
    '(a / alpha :ARG0 b :ARG1 c)', '(a / alpha :ARG0 b\x85:ARG1 c)', '(a / alpha :ARG0 b\xa0c)', '(a / alpha :ARG0 　)', '(a / alpha :ARG0 b\x1c:ARG1 c)',
    '(a / alpha :ARG0 "x\ny")', '(a / "alpha")', '(a / 1)', '("a" / alpha)', '(1 / one :ARG0 1)', '(a / alpha :ARG0 (a / alpha2))', '(a / a :ARG0 (b / a))',
    '(x1 / x :ARG0 (x2 / x) :ARG1 (x3 / x :ARG0 x2))', '(a / alpha :ARG1-of (_ / have-mod-91 :ARG2 (b / beta)))', '(a / alpha :mod-of (b / beta) :ARG0 (c / gamma :mod b))',
    '(a / alpha :accompanier (b / beta) :ARG0 (_ / accompany-01 :ARG0 a :ARG1 b))', '(c / chapter :mod 7)', '(a / alpha :ARG0-of (_ / include-91 :ARG2 7))',
    '(a / alpha :quant 3 :location (c / city :name (n / name :op1 "New" :op2 "York")))', '(w / want-01 :ARG0 (b / boy) :ARG1 (g / go-02 :ARG0 b))',
    '(b / bark-01 :ARG0 (d / dog) :time (n / now))', '(a / alpha :ARG0 (b / beta :ARG0-of a))', '(a / alpha :TOP b)', '(a / alpha :ARG0 b~1 :ARG1~2 (b / beta))',
    '(a / alpha~e.1,2 :ARG0~e.3 (b / beta~e.4))', '(a / alpha :op1 "a~e.1"~e.2)', '(a / alpha :ARG0 b~)', '(a / alpha :ARG0 ~e.1)', '(a~1 / alpha)', '(a / alpha :ARG0 (b~2 / beta))',
    '(a / alpha :ARG0 b :ARG0 b)', '(a / alpha / beta)', '(a / alpha :instance beta)', '(a / alpha :instance-of beta)', '(a / alpha :ARG0 (b / beta) :ARG0-of b)',
    '(a :ARG0 (b :ARG1 (c)))', '(a / alpha :x (b / beta :x (c / gamma)) :y b)', '(a / alpha :ARG0 (b / beta))) extra', '(a / alpha', '(a / alpha :ARG0 (b / beta)', ')', '(', '(a / / b)',
    '(a / alpha :ARG0 (b / beta) :ARG1 ())', 'a / alpha', '(a / alpha :ARG0 "unterminated)', '(a / alpha :ARG0 b c)', '(a / alpha b)', '(a b)', '(a / alpha :ARG0 (b / beta) c)', '(a / alpha ~e.1)',
    '(a / alpha :ARG0 ^)', '(a / alpha :ARG0 b,c)', '(a / alpha :ARG0 \\)', '(a / alpha :ARG0 "a\\\\")', '(a / alpha :ARG0 "a\\")', '(a / alpha :A.R-G_0 b.c-d_e)', '(a / alpha :ARG0 :)', '(a / alpha :)',
    '(a / alpha :ARG0 1e3 :ARG1 0x10 :ARG2 1_0 :ARG3 NaN :ARG4 Infinity :ARG5 -Infinity :ARG6 true :ARG7 null :ARG8 01 :ARG9 1. :ARGX .5 :ARGY None)',
    '(a / alpha :ARG0 ½ :ARG1 ٣ :ARG2 １２)', '(é / été :rôle ü)', '# ::snt has # hash\n(a / alpha)', '# ::snt trailing space  \n(a / alpha)', '#::id 1\n(a/alpha)', '# :: k v\n(a / alpha)',
    '(a / alpha) # trailing', '(a / alpha # inside\n :ARG0 b)', '(a / alpha :ARG0 "#x")', '﻿(a / alpha)', '(a / alpha :ARG0\tb)', '(a/alpha :ARG0(b/beta))', '(a/alpha:ARG0 b)',
    '(a / x :ARG1-of (_ / include-91 :ARG2 7))', '(a / alpha :ARG1-of (_ / have-mod-91 :ARG2 (b / beta)) :ARG0 (c / gamma) :accompanier b)', '(s2 / say-01 :ARG0 (i2 / i) :ARG1 (i / imagine-01 :ARG0 i2 :ARG2-of s2))',
    '(a / alpha :ARG0xyz b :modabc c :ARG0-ofxyz d :roof e)', '(k / know-01 :^scope (b / bark-01) :^ c)', '(a / alpha :polarity~e.1 -~e.2 :wiki~1 "x~y"~2,3 :ARG1-of~6 b~7,8,9)', '(a / alpha :ARG0-of-of~e.1,3,4 (b / beta))',
    '(a / C# :mod b)', '(a :op#1 x)', '(a / été\xa0 :mod b\u3000\n :x c)', '# ::snt hi  \n(a / b) # x\u3000', '(h2 / have-mod-91 :ARG1 (a / x) :ARG2 (b / y))', '(_2 / x :mod 7)', '(a / x :ARG0 (b / y :mod 7) :ARG1 b)',
    '(a / alpha :foo-of (b / beta) :foo-of a)', '(c / élan :ARG0 (o / Ωmega) :ARG1 (m / 猫))', '(a / alpha :consist-of-of (b / beta) :prep-on-behalf-of-of c)',
]


def _rand_tree(rng, depth, vars_, names):
    v = rng.choice('abcdefgxyz') + str(len(vars_) or '')
    while v in vars_:
        v += "'" if rng.random() < .1 else str(rng.randint(0, 9))
    vars_.append(v)
    concept = rng.choice(['alpha', 'beta-01', 'go-02', 'x', '"str"', '1', v, '', None, 'have-mod-91', 'accompany-01', 'include-91'])
    parts = [v]
    if concept is not None:
        parts.append('/' + (' ' + concept if concept else ''))
        if concept and rng.random() < .15:
            parts[-1] += '~e.%d' % rng.randint(0, 9)
    for _ in range(rng.randint(0, 3 if depth < 3 else 1)):
        role = rng.choice([':ARG0', ':ARG1', ':ARG2', ':ARG0-of', ':ARG1-of', ':mod', ':domain', ':op1', ':op2', ':op10', ':polarity', ':quant', ':name', ':accompanier',
                           ':consist-of', ':consist-of-of', ':mod-of', ':domain-of', ':subset', ':subset-of', ':location', ':time', ':x', ':x-of', ':ARG0-of-of', ':', ':TOP', ':li'])
        if rng.random() < .12:
            role += rng.choice(['~e.1', '~2', '~x.3,4'])
        k = rng.random()
        if k < .35 and depth < 4:
            tgt = _rand_tree(rng, depth + 1, vars_, names)
        elif k < .55 and vars_:
            tgt = rng.choice(vars_)
        elif k < .6:
            tgt = ''
        else:
            tgt = rng.choice(['-', '+', '1', '0', '2.5', '-3', '"a b"', '"x~y"', '"q\\"q"', 'sym', 'imperative', '"(paren)"', '"~e.1"', '1e2', 'v99', '_', '_2', 'a2'])
        if tgt and not tgt.startswith('(') and rng.random() < .12:
            tgt += rng.choice(['~e.1', '~2', '~x.3,4'])
        parts.append(role + (' ' + tgt if tgt else ''))
    sep = rng.choice([' ', '\n  ', '  ', '\t'])
    return '(' + sep.join(parts) + ')'


def rand_corpus(n, seed):
    rng = random.Random(seed)
    out = []
    for i in range(n):
        s = _rand_tree(rng, 0, [], [])
        if rng.random() < .3:
            s = '# ::id %d\n# ::snt some text %d ::extra e\n' % (i, i) + s
        out.append(s)
    return out


def malformed(corpus, n, seed):
    rng = random.Random(seed)
    out = []
    for i in range(n):
        s = rng.choice(corpus) or '()'
        k = rng.random()
        p = rng.randrange(len(s))
        if k < .4:
            s = s[:p] + s[p + 1:]
        elif k < .8:
            s = s[:p] + rng.choice('()/:~"\\#^, \n\t-x1') + s[p:]
        else:
            s = s[:p]
        out.append(s)
    return out


N = 400 if FULL else 150
RAND = rand_corpus(N, 7)
CORPUS = HAND + RAND
BAD = malformed(CORPUS, 2 * N, 11)
MODELS = {'default': None, 'amr': amr.model, 'noop': noop.model}


def good_trees(limit=None):
    out = []
    for s in CORPUS[:limit]:
        t = safe(penman.parse, s)
        if isinstance(t, ptree.Tree):
            out.append((s, t))
    return out


def good_graphs(model=None, limit=None):
    out = []
    for s in CORPUS[:limit]:
        g = safe(penman.decode, s, model=model)
        if isinstance(g, pgraph.Graph):
            out.append((s, g))
    return out



def cli(argv, stdin_text=None):
    so, se, si, av = sys.stdout, sys.stderr, sys.stdin, sys.argv
    out = io.StringIO()
    sys.stdout, sys.stderr = out, io.StringIO()
    if stdin_text is not None:
        sys.stdin = io.StringIO(stdin_text)
    try:
        sys.argv = ['penman'] + list(argv)
        try:
            rc = cli_main()
        except SystemExit as ex:
            rc = ('exit', ex.code)
        except Timeout:
            raise
        except BaseException as ex:
            rc = ('EXC', type(ex).__name__, str(ex)[:60])
        try:
            o = out.getvalue()
        except ValueError:
            o = '<closed>'
    finally:
        cur = sys.stdout
        sys.stdout, sys.stderr, sys.stdin, sys.argv = so, se, si, av
        if cur is not out and cur is not so:
            try:
                cur.close()
            except Exception:
                pass
    return rc, o

# ------------------------------------------------------------------------------------------------ categories
@category('C01')
def _():
    for s, t in good_trees():
        for indent in (-1, None, 0, 1, 3, True, False):
            for compact in (False, True):
                txt = safe(penman.format, t, indent=indent, compact=compact)
                rec((indent, compact, txt))
                if isinstance(txt, str):
                    rec(trepr(safe(penman.parse, txt)))
        rec(trepr(t))
    c = pcodec.PENMANCodec()
    for s in CORPUS[:60]:
        rec(trepr(safe(c.parse, s)))
        rec([trepr(x) for x in safe(c.iterparse, s)] if not isinstance(safe(c.iterparse, s), str) else safe(c.iterparse, s))


@category('C02')
def _():
    for name, m in MODELS.items():
        for s, g in good_graphs(m):
            rec((name, safe(penman.encode, g, model=m)))
            rec((name, safe(penman.encode, g, model=m, indent=None, compact=True)))
            rec((name, safe(penman.encode, g, model=m, compact=True), safe(penman.encode, g, model=m, indent=2)))
            rec((name, safe(pcodec.PENMANCodec(model=m).encode, g, compact=True) if m else None))
            t = safe(penman.parse, s)
            if isinstance(t, ptree.Tree):
                g2 = safe(layout.interpret, t, m) if m else safe(layout.interpret, t)
                rec(grepr(g2))
                if isinstance(g2, pgraph.Graph):
                    rec(trepr(safe(layout.configure, g2, model=m) if m else safe(layout.configure, g2)))


def _stripped(g):
    return pgraph.Graph(list(g.triples), top=g.top)


@category('C03')
def _():
    rng = random.Random(3)
    for name, m in MODELS.items():
        for s, g in good_graphs(m, 120):
            vs = sorted(g.variables(), key=str)
            for v in vs[:4]:
                for gg in (g, _stripped(g)):
                    txt = safe(penman.encode, gg, top=v, model=m)
                    rec((name, v, txt))
                    if isinstance(txt, str) and not txt.startswith('EXC'):
                        rec(grepr(safe(penman.decode, txt, model=m)))
            tr = list(g.triples)
            rng.shuffle(tr)
            gs = pgraph.Graph(tr, top=g.top)
            txt = safe(penman.encode, gs, model=m)
            rec((name, 'shuffled', txt))
    # python-typed constants
    g = pgraph.Graph([('a', ':instance', 'x'), ('a', ':v', 0), ('a', ':w', 0.0), ('a', ':s', ''), ('a', ':n', None), ('a', ':f', False), ('a', ':ARG0', 'b'), ('b', ':instance', None),
                      ('c', ':ARG1-of', 'b'), ('c', ':instance', 'y'), ('c', ':q', 12)])
    for v in 'abc':
        rec(safe(penman.encode, g, top=v))


@category('C04')
def _():
    for name, m in MODELS.items():
        for s, g in good_graphs(m):
            rec((name, g.top, g.triples, sorted(map(str, g.variables()))))
            rec(sorted((repr(k), repr(v)) for k, v in safe(surface.alignments, g).items()) if isinstance(safe(surface.alignments, g), dict) else safe(surface.alignments, g))
            rec(sorted((repr(k), repr(v)) for k, v in safe(surface.role_alignments, g).items()) if isinstance(safe(surface.role_alignments, g), dict) else safe(surface.role_alignments, g))
            rec(grepr(g))
    for x in ['~e.1', '~1', '~e.1,2', '~x.10,11,12', '~', 'e.1', '~e.', '~.1', '~e.1,', '~e.a', '~ab.1', '~1,2', '~-1', '~e.-1']:
        for cls in (surface.Alignment, surface.RoleAlignment):
            r = safe(cls.from_string, x)
            rec((x, cls.__name__, repr(r), str(r) if not isinstance(r, str) else None))
    for t in [('a', ':instance', 'b'), ('a', ':r', None), ('a', ':r', 'b~e.1'), ('a', ':r', '"x~e.1"'), ('a', ':r', '"x"~e.1'), ('a', ':r~e.2', 'b'), ('a', ':r', 1), ('a', ':r', '"~"')]:
        tr = ptree.Tree(('a', [('/', 'x'), (t[1], t[2])]))
        rec(grepr(safe(layout.interpret, tr)))


KEYS = {'original': pmodel.Model().original_order, 'alnum': pmodel.Model().alphanumeric_order, 'canonical': amr.model.canonical_order,
        'canonical-noop': noop.model.canonical_order, 'canonical-default': pmodel.Model().canonical_order}


@category('C05')
def _():
    for s, g in good_graphs(None, 140):
        for kn, k in KEYS.items():
            for gg in (g, _stripped(g)):
                t = safe(layout.reconfigure, gg, key=k)
                rec((kn, trepr(t)))
        rec(trepr(safe(layout.reconfigure, g)))
        gi = pgraph.Graph(list(g.triples)[::-1] if len(g.triples) < 5 else list(g.triples))
        for kn, k in KEYS.items():
            rec((kn, 'implicit-top', trepr(safe(layout.reconfigure, gi, key=k))))
        rec(trepr(safe(layout.reconfigure, g, top=sorted(g.variables(), key=str)[-1])))
    for s, t in good_trees(140):
        for kn, k in KEYS.items():
            for af in (False, True):
                t2 = copy.deepcopy(t)
                r = safe(layout.rearrange, t2, key=k, attributes_first=af)
                rec((kn, af, r if isinstance(r, str) else None, trepr(t2)))
        t2 = copy.deepcopy(t)
        safe(layout.rearrange, t2)
        rec(trepr(t2))
        t2 = copy.deepcopy(t)
        safe(layout.rearrange, t2, attributes_first=True)
        rec(trepr(t2))
    for r in [':ARG0', ':ARG10', ':ARG2', ':op1', ':op10', ':op2', ':ARG0-of', ':mod', ':a1b2', ':a1b10', ':', ':10', ':9', ':ARG', ':ARG-of', ':snt2', ':snt10-of', '/', ':a-1', ':1a']:
        for kn, k in KEYS.items():
            rec((r, kn, safe(k, r)))


@category('C06x')
def _():
    rng = random.Random(6)
    for s, g in good_graphs(None, 100):
        for _ in range(2):
            gg = copy.deepcopy(g)
            vs = sorted(gg.variables(), key=str)
            for t in gg.triples:
                k = rng.random()
                if k < .2:
                    gg.epidata.setdefault(t, []).append(layout.Push(rng.choice(vs)))
                elif k < .4:
                    gg.epidata.setdefault(t, []).append(layout.POP)
                elif k < .5:
                    gg.epidata[t] = []
                elif k < .55:
                    gg.epidata.setdefault(t, []).insert(0, layout.POP)
                elif k < .7:
                    gg.epidata.setdefault(t, []).insert(0, layout.Push(rng.choice(vs)))
            if rng.random() < .5:
                tr = list(gg.triples)
                rng.shuffle(tr)
                gg = pgraph.Graph(tr, top=gg.top, epidata=gg.epidata)
            txt = safe(penman.encode, gg)
            rec(txt)
            if isinstance(txt, str) and not txt.startswith('EXC'):
                rec(grepr(safe(penman.decode, txt)))
    for tr, top in [([], None), ([('a', ':instance', None)], 'b'), ([('a', ':instance', 'x'), ('b', ':instance', 'y')], 'a'), ([('a', ':r', 'b')], None), ([('a', ':r', 'b'), ('b', ':r', 'a')], 'b'),
                    ([('a', ':instance', 'x'), ('b', ':ARG0', 'a'), ('c', ':ARG0', 'b')], 'a'), ([('a', ':instance', 'x'), ('a', ':r', 'a')], 'a')]:
        rec(safe(penman.encode, pgraph.Graph(tr, top=top)))


@category('C07')
def _():
    for s in BAD + CORPUS:
        rec(trepr(safe(penman.parse, s)))
    for s in (BAD + CORPUS)[::3]:
        r = safe(penman.iterparse, s)
        rec([trepr(x) for x in r] if isinstance(r, list) else r)
    deep = '(a / x' + ''.join(' :r (v%d / y' % i for i in range(150)) + ')' * 151
    rec(trepr(safe(penman.parse, deep))[0] is not None)
    rec(safe(penman.parse, deep[:-3]))
    TR = ['instance(a, alpha)', 'instance(a, alpha) ^ ARG0(a, b)', 'instance(a,alpha)^ARG0(a,b)', 'instance(a , alpha) ^\nARG0(a ,b)', 'ARG0(a, "x, y")', 'ARG0(a, "x)^(y")', 'ARG0(a)', 'ARG0(a,)',
          'ARG0(, b)', 'ARG0(a, b) ^', '^ ARG0(a, b)', 'ARG0(a, b) ARG1(a, c)', 'ARG0(a, b))', 'ARG0((a, b)', 'ARG0 (a, b)', ':ARG0(a, b)', 'ARG0(a, b, c)', 'ARG0(a b)', '', 'ARG0', 'ARG0(',
          'ARG0(a, 1) ^ ARG1(a, -2.5) ^ ARG2(a, "s")', 'ARG0-of(a, b)', 'instance(a, None)', 'ARG0(a,b,)', 'a(b,c)^d(e,f)', 'ARG0(a, b~e.1)', 'ARG0(a, b) # c', 'ARG0(a,\tb)', 'ARG0(a, b)^^ARG1(a, c)',
          'r(a,b) ^x(a,b) ^ ^y(a, b)', '^r(a, b)', 'r(a,b) ^^x(a,b)', 'Xr(a, b) ^ :r(a, b)', 'r:(a, b)', 'a(b,c) d(e,f)', 'a(b c)', 'a(b ,)', 'a(b , "s")', 'a(b ,"s")', 'a(b, c d)', 'a(b,c) ^ d', 'a(b,c) ^d',
          'ARG0(a, "x\\"y")', 'ARG0(a,, b)', 'ARG0(a, ,b)', 'ARG0( a , b )', 'ARG0(a.b, c-d)', 'ARG0(a, :b)', 'ARG0(a, /)', 'ARG0(a, ~1)', 'é(à, ü)']
    for s in TR + malformed(TR, 150, 5):
        rec(safe(penman.parse_triples, s))


@category('C08')
def _():
    LX = ['(a / b)', ':role~e.1', 'x~e.1,2', '"a\\"b" c', '"unterminated', 'a\x0bb\x0cc', 'a\x1cb\x1dc\x1ed\x1fe', 'a\x85b\xa0c', 'a b c　d e', '﻿a', 'a​b', ':', ':-', ':a:b',
          'a:b', 'a"b"c', '"a""b"', 'a~b', '~~', '~e', '~e.', '~1,', '~a.1b', 'a/b', '/a', '#c', 'a #c', '"#" #"', '\\', 'a\\b', 'a^b', 'a,b', '(a,b)', ', ^', ':a,b', ':a^b', 'a(b)c', '~e.1~e.2', ':r~e.1~e.2',
          '"a"~e.1', '"a"x', '"a"~', ':r"a"', '-', '+', '-1', '1.5e-3', '.', '..', 'a.b', '1/2', 'a\tb', 'a\rb', 'a  b', ' a', 'a ', '', ' ', '\t', '"\\', '"\\"', '"\\\\"', '"a\\nb"', '"a\nb"', '"tab\there"',
          'é', ':é', '~é.1', '½', '٣', ':ARG0-of', ':ARG0-of-of', 'x~XY.1', '~x.1', '~1', '~12,34', '~a1', ':~e.1', ':a~', '"~"', 'a~"b"', '(((', ')))', '(/)', '(:)', '(~)', '/:~', 'a|b', 'a;b', "a'b", 'a`b',
          'a{b}', 'a[b]', 'a<b>', 'a=b', 'a+b', 'a*b', 'a&b', 'a%b', 'a$b', 'a@b', 'a!b', 'a?b', '\x00', 'a\x00b', '\x7f', 'a\x7fb']
    for s in LX + CORPUS[:80] + BAD[:120]:
        r = safe(_lexer.lex, s)
        rec([tuple(t) for t in r] if isinstance(r, list) else r)
        r = safe(_lexer.lex, s, pattern=_lexer.TRIPLE_RE)
        rec([tuple(t) for t in r] if isinstance(r, list) else r)
    r = safe(_lexer.lex, ['(a / b\n', ':c d)', '', '\n', 'e\r\n'])
    rec([tuple(t) for t in r] if isinstance(r, list) else r)
    ti = _lexer.lex('(a / b :c')
    rec(safe(lambda: [ti.peek(), ti.next(), ti.expect('SYMBOL'), ti.accept('LPAREN'), ti.accept('SLASH'), ti.next(), ti.next()]))
    rec(safe(ti.peek)); rec(safe(ti.next)); rec(safe(ti.expect, 'SYMBOL')); rec(safe(ti.accept, 'SYMBOL')); rec(bool(ti))
    e = ti.error('msg'); rec((e.lineno, e.offset))
    ti = _lexer.lex(''); rec(safe(ti.expect, 'SYMBOL')); rec(bool(ti))
    ti = _lexer.lex('a\nb c\n'); ti.next(); rec(safe(ti.expect, 'ROLE')); tk = ti.next(); e = ti.error('m', token=tk); rec((e.lineno, e.offset))


@category('C09')
def _():
    docs = ['\n\n'.join(CORPUS[i:i + 4]) for i in range(0, 60, 4)] + ['\n'.join(CORPUS[i:i + 3]) for i in range(0, 30, 3)] + [''.join(HAND[:3]), '(a / b)\r\n\r\n(c / d)\r(e / f)\n# ::id 9\n(g / h)',
            '# ::id 1\n(a / b)\n# ::id 2\n# ::snt x\n\n(c / d)', '(a / b\x0b:c d)\x0c(e / f)', '(a / b :c "x y") (c / d)', '(a / b)\x85(c / d)', '(a / b)\x1c(c / d)\x1e', '# ::id 1 (a / b)', '', '\n', '# only comment', '# ::id 5\n']
    tmpd = tempfile.mkdtemp(prefix='mutbat-')
    try:
        for i, d in enumerate(docs):
            r1 = safe(penman.loads, d)
            rec([grepr(g) for g in r1] if isinstance(r1, list) else r1)
            r2 = safe(penman.iterdecode, d.splitlines(True))
            rec([grepr(g) for g in r2] if isinstance(r2, list) else r2)
            r3 = safe(penman.iterdecode, d.split('\n'))
            rec([grepr(g) for g in r3] if isinstance(r3, list) else r3)
            r3 = safe(penman.iterparse, iter(d.splitlines()))
            rec([trepr(g) for g in r3] if isinstance(r3, list) else r3)
            p = os.path.join(tmpd, 'f%d.txt' % i)
            with open(p, 'w', encoding='utf-8', newline='') as fh:
                fh.write(d)
            r4 = safe(penman.load, p)
            rec([grepr(g) for g in r4] if isinstance(r4, list) else r4)
            with open(p, encoding='utf-8') as fh:
                r5 = safe(penman.load, fh)
            rec([grepr(g) for g in r5] if isinstance(r5, list) else r5)
            rm = safe(penman.loads, d, model=amr.model)
            rec([grepr(g) for g in rm] if isinstance(rm, list) else rm)
            rm2 = safe(penman.iterdecode, d, model=amr.model)
            rec([grepr(g) for g in rm2] if isinstance(rm2, list) else rm2)
            rm3 = safe(penman.load, p, model=amr.model)
            rec([grepr(g) for g in rm3] if isinstance(rm3, list) else rm3)
            if isinstance(rm, list):
                rec(safe(penman.dumps, rm, model=amr.model)); rec(safe(penman.dumps, rm, model=amr.model, indent=1, compact=True)); rec(safe(penman.dumps, rm, compact=True)); rec(safe(penman.dumps, rm, indent=None))
            if isinstance(r1, list):
                txt = safe(penman.dumps, r1)
                rec(txt)
                for kw in ({}, {'indent': None}, {'compact': True}, {'indent': 2, 'model': amr.model}):
                    p2 = os.path.join(tmpd, 'o%d.txt' % i)
                    rec(safe(penman.dump, r1, p2, **kw))
                    rec(open(p2, encoding='utf-8').read() if os.path.exists(p2) else None)
                    buf = io.StringIO()
                    rec(safe(penman.dump, r1, buf, **kw))
                    rec(buf.getvalue())
                    back = safe(penman.loads, buf.getvalue())
                    rec([grepr(g) for g in back] if isinstance(back, list) else back)
                if isinstance(txt, str):
                    back = safe(penman.loads, txt.replace('\n\n', '\n'))
                    rec([grepr(g) for g in back] if isinstance(back, list) else back)
                c = pcodec.PENMANCodec()
                rec([safe(c.encode, g, indent=0, compact=True) for g in r1])
                rec(safe(c.iterdecode, d) if not isinstance(safe(c.iterdecode, d), list) else [grepr(g) for g in safe(c.iterdecode, d)])
    finally:
        import shutil
        shutil.rmtree(tmpd, ignore_errors=True)


@category('C10')
def _():
    fmts = ['{prefix}{j}', '{prefix}{i}', 'v{i}', 'x{j}', '{prefix}', 'n{index}', '{prefix}_{i}', 'a{j}', '{i}']
    for s, t in good_trees(150):
        for f in fmts:
            t2 = copy.deepcopy(t)
            r = safe(t2.reset_variables, f)
            rec((f, r, trepr(t2)))
            g = safe(layout.interpret, t2)
            rec(grepr(g))
        t2 = copy.deepcopy(t)
        rec((safe(t2.reset_variables), trepr(t2)))
        rec(safe(t.nodes) if isinstance(safe(t.nodes), str) else [n[0] for n in safe(t.nodes)])
        w = safe(t.walk)
        rec(w if isinstance(w, str) else [(p, b if not isinstance(b[1], tuple) else (b[0], b[1][0])) for p, b in w])
        rec(safe(t.positions) if hasattr(t, 'positions') else None)
    for c in ['alpha', 'Alpha', '"str"', '1abc', '', None, '_x', 'é', '"Ülm"', '-', '+', 'a-b', '"', '""', '" x"', 5, 'ÀB', '9', '"9x"', '"aB"', 'have-mod-91']:
        rec((c, safe(ptree._default_variable_prefix, c)))
    rec(safe(ptree.is_atomic, 'a')); rec(safe(ptree.is_atomic, ('a', []))); rec(safe(ptree.is_atomic, None)); rec(safe(ptree.is_atomic, 1.5))


@category('C11')
def _():
    for name, m in (('amr', amr.model), ('default', pmodel.Model())):
        for s, g in good_graphs(m):
            r = safe(transform.reify_edges, g, m)
            rec((name, grepr(r)))
            if isinstance(r, pgraph.Graph):
                rec(safe(penman.encode, r, model=m))
                d = safe(transform.dereify_edges, r, m)
                rec(grepr(d))
                rec(safe(penman.encode, d, model=m) if isinstance(d, pgraph.Graph) else None)
            d = safe(transform.dereify_edges, g, m)
            rec(grepr(d))
            rec(safe(penman.encode, d, model=m) if isinstance(d, pgraph.Graph) else None)
    for role in [':mod', ':domain', ':accompanier', ':ARG0', ':consist-of', ':subset', ':subset-of', ':mod-of', ':location', ':polarity', ':x']:
        for vars_ in (None, set(), {'_'}, {'_', '_2'}, {'_2'}, {'_', '_2', '_3', '_4'}):
            rec((role, safe(amr.model.reify, ('a', role, 'b'), vars_) if vars_ is not None else safe(amr.model.reify, ('a', role, 'b'))))
            rec((role, safe(amr.model.is_role_reifiable, role)))
    for c in ['have-mod-91', 'accompany-01', 'include-91', 'be-located-at-91', 'x', 'have-polarity-91', None]:
        for t2 in ([('_', ':instance', c), ('_', ':ARG1', 'a'), ('_', ':ARG2', 'b')], [('_', ':instance', c), ('_', ':ARG2', 'b'), ('_', ':ARG1', 'a')],
                   [('_', ':instance', c), ('_', ':ARG0', 'a'), ('_', ':ARG1', 'b')], [('_', ':instance', c), ('_', ':ARG1', 'a'), ('_', ':ARG2', 7)], [('_', ':instance', c), ('_', ':ARG1', 7), ('_', ':ARG2', 'a')]):
            rec((c, safe(amr.model.dereify, *t2)))
            rec((c, safe(amr.model.is_concept_dereifiable, c)))


@category('C12')
def _():
    m = amr.model
    ops = {'re': lambda g: transform.reify_edges(g, m), 'de': lambda g: transform.dereify_edges(g, m), 'ra': lambda g: transform.reify_attributes(g),
           'ib': lambda g: transform.indicate_branches(g, m)}
    combos = [('re',), ('de',), ('ra',), ('ib',), ('re', 'de'), ('de', 're'), ('re', 'ra'), ('ra', 're'), ('ra', 'ib'), ('re', 'de', 'ra', 'ib'), ('ra', 'de'), ('re', 're'), ('ra', 'ra'), ('de', 'ra', 're')]
    gs = [g for s, g in good_graphs(m, 130)]
    gs += [_stripped(g) for g in gs[:60]]
    gs += [pgraph.Graph(list(g.triples)[1:] + list(g.triples)[:1], top=g.top) for g in gs[:60] if g.triples]
    for g in gs:
        for combo in combos:
            cur = g
            for o in combo:
                cur = safe(ops[o], cur)
                if not isinstance(cur, pgraph.Graph):
                    break
            rec((combo, grepr(cur)))
            if isinstance(cur, pgraph.Graph):
                txt = safe(penman.encode, cur, model=m)
                rec(txt)
                if isinstance(txt, str) and not txt.startswith('EXC'):
                    rec(grepr(safe(penman.decode, txt, model=m)))
                rec(safe(cur.attributes))


ROLES = [':ARG0', 'ARG0', ':ARG0-of', ':ARG0-of-of', ':ARG0-of-of-of', ':consist-of', ':consist-of-of', ':consist', ':mod', ':mod-of', ':domain', ':domain-of', ':domain-of-of', ':-of', '-of', ':', '', ':of', ':a-of-b',
         ':instance', ':instance-of', ':TOP', ':TOP-of', ':prep-on-behalf-of', ':prep-on-behalf-of-of', ':prep-x', ':op1', ':op1-of', ':snt3', ':ARG10', ':ARGX', ':polite', ':OF', ':x-OF', ':subset', ':subset-of', ':superset',
         ':name', ':wiki', ':li', ':quant-of', ':conj-as-if', ':conj-x', ':prep-out-of', ':prep-out-of-of', None, ':ARG0-of ', ':ARG0\n', ':arg0', ':mod-of-of']


@category('C13')
def _():
    mm = {'default': pmodel.Model(), 'amr': amr.model, 'noop': noop.model, 'custom': pmodel.Model(top_variable='top', top_role=':TOP', concept_role=':inst', roles={':ARG\\d': {'type': 'frame'}, ':x-of': {}, ':y': {}},
          normalizations={':y-of': ':x-of-of'}, reifications=[(':y', 'why', ':ARG1', ':ARG2')])}
    for name, m in mm.items():
        for r in ROLES:
            for fn in ('has_role', 'is_role_inverted', 'invert_role', 'canonicalize_role', 'is_role_reifiable'):
                v = safe(getattr(m, fn), r)
                rec((name, fn, r, v))
                if fn in ('invert_role', 'canonicalize_role') and isinstance(v, str) and not v.startswith('EXC'):
                    rec((name, fn, 'twice', safe(getattr(m, fn), v), safe(m.is_role_inverted, v)))
            for tgt in ('b', 5, '"s"', None):
                t = ('a', r, tgt)
                for fn in ('invert', 'deinvert', 'canonicalize'):
                    rec((name, fn, t, safe(getattr(m, fn), t)))
        rec(safe(pmodel.Model.from_dict, {'top_variable': 'top', 'top_role': ':TOP', 'roles': {':a': {}}, 'normalizations': {':b': ':a'}, 'reifications': [[':a', 'c', ':s', ':t']]}).__dict__.keys() is not None)
    for name, m in mm.items():
        for s, t in good_trees(100):
            t2 = safe(transform.canonicalize_roles, t, m)
            rec((name, trepr(t2)))
            rec(trepr(t))


@category('C14')
def _():
    for name, m in MODELS.items():
        for s, g in good_graphs(m):
            rec((name, safe(layout.node_contexts, g)))
            rec([safe(layout.appears_inverted, g, t) for t in g.triples])
            rec([safe(layout.get_pushed_variable, g, t) for t in g.triples])
            gs = _stripped(g)
            rec(safe(layout.node_contexts, gs))
            rec([safe(layout.appears_inverted, gs, t) for t in gs.triples])
            rec([safe(layout.get_pushed_variable, gs, t) for t in gs.triples])
    for s, g in good_graphs(amr.model, 80):
        for f in (lambda g: transform.reify_edges(g, amr.model), lambda g: transform.dereify_edges(g, amr.model), transform.reify_attributes, lambda g: transform.indicate_branches(g, amr.model)):
            r = safe(f, g)
            if isinstance(r, pgraph.Graph):
                rec(safe(layout.node_contexts, r))
                rec([safe(layout.appears_inverted, r, t) for t in r.triples])


@category('C15')
def _():
    gs = [g for s, g in good_graphs(None, 120)]
    gs += [pgraph.Graph([]), pgraph.Graph([('a', 'instance', 'x'), ('a', 'r', 'b')]), pgraph.Graph([('a', ':r', 'b'), ('b', ':r', 'a'), ('b', ':r', 'a')], top='b'),
           pgraph.Graph([('a', ':instance', 'a'), ('a', ':r', 'a'), ('a', ':s', 'c')]), pgraph.Graph([('a', '', 'c')]), pgraph.Graph([('a', ':instance', None), ('b', ':instance', None)], top='b')]
    for g in gs:
        rec((g.top, safe(g.variables) if isinstance(safe(g.variables), str) else sorted(map(str, g.variables())), safe(g.instances), safe(g.edges), safe(g.attributes), safe(g.reentrancies)))
        vs = sorted(g.variables(), key=str)
        for v in vs[:3]:
            rec((safe(g.instances), safe(g.edges, source=v), safe(g.edges, target=v), safe(g.attributes, source=v), safe(g.edges, role=':ARG0'), safe(g.attributes, role=':mod'), safe(g.attributes, target='1'),
                 safe(g.edges, source=v, role=':ARG0', target=v), safe(g.attributes, target=None), safe(g.edges, role='')))
        rec(__import__('re').sub(r'at \d+', 'at N', str(safe(repr, g)))); rec(safe(str, g) if len(g.triples) < 6 else None)
        g2 = copy.deepcopy(g)
        rec(safe(setattr, g2, 'top', 'nonexistent')); rec(g2.top)
        if vs:
            rec(safe(setattr, g2, 'top', vs[-1])); rec(g2.top)
        rec(safe(setattr, g2, 'top', None)); rec(g2.top)
    for a, b in zip(gs, gs[1:] + gs[:1]):
        for a_, b_ in ((a, b), (a, a)):
            u = safe(lambda: a_ | b_); rec(grepr(u)); d = safe(lambda: a_ - b_); rec(grepr(d)); rec(grepr(a_)); rec(grepr(b_)); rec(safe(lambda: a_ == b_))
            a2 = copy.deepcopy(a_); r = safe(a2.__ior__, b_); rec(grepr(a2)); rec(r is a2)
            a2 = copy.deepcopy(a_); r = safe(a2.__isub__, b_); rec(grepr(a2)); rec(r is a2)
            if isinstance(u, pgraph.Graph):
                rec([id(u.epidata.get(t)) == id(a_.epidata.get(t)) for t in u.triples[:3] if t in a_.epidata])
    g = pgraph.Graph([('a', ':instance', 'x')]); rec(safe(lambda: g | 5)); rec(safe(lambda: g - 5)); rec(safe(lambda: g == 5))
    rec(grepr(pgraph.Graph([('a', 'r', 'b')], top='a', epidata={('a', 'r', 'b'): [layout.POP]}, metadata={'k': 'v'})))
    rec(grepr(pgraph.Graph([('a', ':r', 'b')], epidata={('a', ':r', 'b'): [layout.POP]})))


@category('C16')
def _():
    for name, m in (('amr', amr.model), ('default', pmodel.Model()), ('noop', noop.model)):
        for s, g in good_graphs(m):
            e = safe(m.errors, g)
            rec((name, sorted((repr(k), v) for k, v in e.items()) if isinstance(e, dict) else e, list(e) if isinstance(e, dict) else None))
        for tr, top in [([], None), ([('a', ':instance', 'x'), ('b', ':instance', 'y')], None), ([('a', ':instance', 'x'), ('b', ':ARG0', 'a'), ('c', ':ARG0', 'd')], 'a'), ([('a', ':bad', 'b'), ('a', ':bad-of', 'b'), ('a', ':bad-of-of', 'b')], None),
                        ([('a', ':instance', 'x')], 'z'), ([('a', ':ARG0', 'b'), ('c', ':ARG1', 'b'), ('d', ':mod', 5), ('e', ':domain', 'd'), ('f', ':x', 'g')], 'c'), ([('a', ':ARG0-of', 'b'), ('a', ':ARG0-of-of', 'b'), ('a', ':mod-of', 'b'), ('a', ':domain-of', 'b'), ('a', ':consist-of', 'b'), ('a', ':consist', 'b')], None)]:
            e = safe(m.errors, pgraph.Graph(tr, top=top))
            rec((name, sorted((repr(k), v) for k, v in e.items()) if isinstance(e, dict) else e, list(e) if isinstance(e, dict) else None))
    docs = ['(a / alpha :ARG0 b)', '(a / alpha :bad b)', '(a / alpha :ARG0 b)\n\n(c / d :bad e)\n\n(e / f)', '(a / alpha :bad b :worse c)', '(a / alpha :ARG0-of (b / beta :mod-of 5))', '# ::id 1\n(a / alpha :bad (b / beta :bad2 c))\n(x / y)']
    tmpd = tempfile.mkdtemp(prefix='mutbat-')
    try:
        paths = []
        for i, d in enumerate(docs):
            p = os.path.join(tmpd, 'd%d.txt' % i); open(p, 'w').write(d); paths.append(p)
        for sel in ([0], [1], [2], [3], [4], [5], [0, 1], [1, 0], [0, 4], [2, 0], [0, 0, 5, 0]):
            for extra in ([], ['--amr'], ['--amr', '--quiet'], ['--noop']):
                rc, o = cli(['--check'] + extra + [paths[i] for i in sel])
                rec((sel, extra, rc, o.replace(tmpd, '<T>')))
        for d in docs:
            rec(cli(['--check', '--amr'], stdin_text=d))
    finally:
        import shutil
        shutil.rmtree(tmpd, ignore_errors=True)


@category('C17')
def _():
    m = amr.model
    for s, g in good_graphs(m, 120):
        for nm, f in [('encode', lambda g: penman.encode(g, model=m)), ('encode-top', lambda g: penman.encode(g, top=sorted(g.variables(), key=str)[-1], model=m)), ('configure', lambda g: layout.configure(g, model=m)),
                      ('reconfigure', lambda g: layout.reconfigure(g, key=m.canonical_order)), ('re', lambda g: transform.reify_edges(g, m)), ('de', lambda g: transform.dereify_edges(g, m)), ('ra', transform.reify_attributes),
                      ('ib', lambda g: transform.indicate_branches(g, m)), ('errors', m.errors), ('contexts', layout.node_contexts), ('or', lambda g: g | g), ('sub', lambda g: g - g), ('align', surface.alignments),
                      ('inv', lambda g: [layout.appears_inverted(g, t) for t in g.triples]), ('reent', lambda g: g.reentrancies()), ('triples', lambda g: penman.format_triples(g.triples))]:
            before = grepr(copy.deepcopy(g))
            ids = [id(v) for v in g.epidata.values()]
            r1 = safe(f, g)
            r2 = safe(f, g)
            after = grepr(g)
            rec((nm, before == after, ids == [id(v) for v in g.epidata.values()], grepr(r1) == grepr(r2) if isinstance(r1, pgraph.Graph) else (trepr(r1) == trepr(r2))))
            if isinstance(r1, pgraph.Graph):
                # result must not share marker lists with the argument
                shared = [t for t in r1.triples if t in g.epidata and r1.epidata.get(t) is g.epidata[t]]
                rec((nm, 'shared', len(shared)))
                for t in r1.triples:
                    r1.epidata.setdefault(t, []).append(layout.POP)
                rec((nm, 'after-mutating-result', grepr(g) == before))
    for s, t in good_trees(100):
        b = copy.deepcopy(t)
        for nm, f in [('format', penman.format), ('interpret', lambda t: layout.interpret(t, m)), ('canon', lambda t: transform.canonicalize_roles(t, m)), ('nodes', lambda t: t.nodes()), ('walk', lambda t: list(t.walk()))]:
            r1 = safe(f, t); r2 = safe(f, t)
            rec((nm, trepr(t) == trepr(b), (grepr(r1) == grepr(r2)) if isinstance(r1, pgraph.Graph) else (trepr(r1) == trepr(r2) if isinstance(r1, ptree.Tree) else r1 == r2)))
    # state carried between calls
    a = penman.decode('(a / alpha :ARG0 (b / beta))'); x = penman.encode(a)
    for s in BAD[:30]:
        safe(penman.decode, s)
    rec(penman.encode(penman.decode('(a / alpha :ARG0 (b / beta))')) == x)
    c1, c2 = pcodec.PENMANCodec(), pcodec.PENMANCodec(model=amr.model)
    rec((c1.model is c2.model, safe(c1.encode, a), safe(c2.encode, a), safe(c1.encode, a)))
    m1, m2 = pmodel.Model(), pmodel.Model()
    rec((m1.roles is m2.roles, m1.normalizations is m2.normalizations, m1.reifications is m2.reifications, getattr(m1, 'dereifications', None) is getattr(m2, 'dereifications', 0)))
    g1, g2 = pgraph.Graph(), pgraph.Graph()
    rec((g1.triples is g2.triples, g1.epidata is g2.epidata, g1.metadata is g2.metadata))
    t1, t2 = ptree.Tree(('a', [])), ptree.Tree(('a', []))
    rec((t1.metadata is t2.metadata,))


@category('C18')
def _():
    S = ['', 'a', 'a b', '"', '\\', 'a"b', 'a\\b', '\n', '\t', '\r', '\x00', '\x1f', '\x7f', '\x85', ' ', 'é', '\U0001f600', '\ud800', '"quoted"', 'a\\"b', "'", '~', '~e.1', '(', ')', '#', '1', '1.5', '-', 'None', 'null',
         ' ', '  ', 'a\x0bb', 'a\x0cb', '\\n', '\\u1234', '/', ':', 'a~b']
    for s in S:
        q = safe(constant.quote, s)
        rec((s, q))
        if isinstance(q, str) and not q.startswith('EXC'):
            rec((safe(constant.evaluate, q), safe(constant.type, q)))
            r = safe(_lexer.lex, q)
            rec([tuple(t) for t in r] if isinstance(r, list) else r)
    for v in [None, 0, 1, -1, 1.5, -0.0, 1e20, 1e-7, True, False, float('inf'), float('nan'), 10**30, b'x', (1,), [1], 'x']:
        rec((repr(v), safe(constant.quote, v)))
    A = ['', None, 'a', '"a"', '""', '"', '"a', 'a"', '1', '-1', '+1', '1.0', '1.', '.5', '-.5', '1e3', '1E3', '1e+3', '1e-3', '1e', 'e3', '0x10', '0o7', '0b1', '1_000', '01', '-01', '00', '0', '-0', '0.0', 'NaN', 'nan', 'Infinity',
         '-Infinity', 'inf', 'true', 'false', 'null', 'True', 'False', 'None', '[1]', '{}', '{"a":1}', '"a" "b"', '"a""b"', '1 2', ' 1', '1 ', '\t1', '1\n', '"a\\nb"', '"a\\qb"', '"a\\u00e9b"', '"a\\u00"', '"\\ud800"', '"a\nb"', '"a\tb"',
         '１', '٣', '½', '1²', '-', '+', '--1', '1-', '1e3.5', '1.2.3', '9' * 400, '1e400', '-1e400', '1.5e-400', '"a"b', 'a"b"', '\'a\'', '1j', '1L', '1f', '0.1e1', '1/2', '٣.٥', '"\\"', '"\\\\"', 5, 2.5, True, (), '" "', '"None"']
    for a in A:
        rec((repr(a), repr(safe(constant.evaluate, a)), safe(constant.type, a)))
    for t in constant.Type:
        rec((t.name, t.value))


@category('C19')
def _():
    TS = [[('a', ':instance', 'alpha')], [('a', ':instance', 'alpha'), ('a', ':ARG0', 'b'), ('b', ':instance', 'beta')], [('a', ':r', '"x, y"'), ('a', ':r', '"x) ^ (y"'), ('a', ':r', '"q\\"q"'), ('a', ':r', '" "'), ('a', ':r', '""')],
          [('a', ':r', '"a  b"'), ('a', ':r', '"a\\nb"'), ('a', ':r', '"^"'), ('a', ':r', '"a ^\\nb"')], [('a', ':ARG0-of', 'b'), ('a.b', ':c-d', 'e_f'), ('a', ':1', '2'), ('a', ':r', '-'), ('a', ':r', '+')], [],
          [('a', ':r', 'b'), ('a', ':r', 'b')], [('a', ':r', '1.5'), ('a', ':r', '-2'), ('a', ':r', '1e3')], [('a', 'r', 'b')], [('a', ':r', None)], [('a', ':r', 1)], [('a', '::r', 'b')], [('a', ':', 'b')],
          [('a', ':r', '"tab\there"'), ('a', ':r', '"x ^ y"'), ('a', ':r', '"  lead"'), ('a', ':r', '"trail  "')], [('é', ':rôle', 'ü')], [('a', ':r', '"(a, b)"')], [('a', ':r:s', 'b')], [('a', ':r', 'b:c')],
          [('a', ':^scope', 'b'), ('a', ':^', 'c'), ('a', ':^^up', 'd'), ('a', ':r', 'C#'), ('a', ':Xr', 'b'), ('a', ':r:', 'b'), ('v#2', ':r', 'b')]]
    for s, g in good_graphs(None, 80):
        TS.append(list(g.triples))
    for ts in TS:
        for ind in (True, False, None, 0, 2):
            txt = safe(penman.format_triples, ts, indent=ind)
            rec((ind, txt))
            if isinstance(txt, str) and not txt.startswith('EXC'):
                rec(safe(penman.parse_triples, txt))
        rec(safe(penman.format_triples, ts))
        rec(safe(pcodec.PENMANCodec().format_triples, ts)); rec(safe(pcodec.PENMANCodec().format_triples, ts, indent=False))
    for s in ['instance(a, alpha) ^ ARG0(a, b)', 'instance(a,alpha)^ARG0(a,b)', 'instance( a , alpha )  ^  ARG0( a , b )', 'instance(a, alpha)\n^\nARG0(a, b)', 'instance(a ,alpha) ^ARG0(a ,b)', 'instance(a, alpha)^ ARG0(a,\n b)', 'ARG0(a, "b, c")', 'ARG0(a,"b")', 'ARG0(a ,"b")']:
        rec(safe(penman.parse_triples, s)); rec(safe(pcodec.PENMANCodec().parse_triples, s))


@category('C20', 40)
def _():
    docs = ['\n\n'.join(CORPUS[i:i + 5]) for i in range(0, 100, 5)] + ['(a / alpha :ARG0 (b / beta))(c / d)', '# ::id 1\n(a / alpha :mod 5 :ARG0-of (b / beta) :domain (c / gamma))\n', '']
    optsets = [[], ['--indent', 'no'], ['--indent', '0'], ['--indent', '2', '--compact'], ['--triples'], ['--triples', '--indent', 'no'], ['--make-variables', 'v{i}'], ['--rearrange', 'canonical'],
               ['--rearrange', 'alphanumeric,attributes-first'], ['--rearrange', 'attributes-first,inverted-last'], ['--reconfigure', 'canonical'], ['--reconfigure', 'original'], ['--canonicalize-roles'], ['--reify-edges'],
               ['--dereify-edges'], ['--reify-attributes'], ['--indicate-branches'], ['--reify-edges', '--reify-attributes', '--indicate-branches', '--rearrange', 'canonical', '--make-variables', 'x{j}'], ['--check'],
               ['--canonicalize-roles', '--dereify-edges', '--reconfigure', 'canonical', '--indent', '1'], ['--rearrange', 'original'] if 'original' in REARR else ['--rearrange', 'canonical,inverted-last'],
               ['--indent', '3'], ['--indent', 'none'], ['--indent', '-1'], ['--indent', 'x'], ['--compact'], ['--rearrange', 'foo'], ['--reconfigure', 'canonical', '--rearrange', 'canonical'], ['--no-such'], ['-v'], ['-vv', '--check']]
    tmpd = tempfile.mkdtemp(prefix='mutbat-')
    try:
        mp = os.path.join(tmpd, 'model.json'); json.dump({'roles': {':ARG0': {}, ':mod': {}}, 'normalizations': {':mod-of': ':domain'}, 'reifications': [[':mod', 'have-mod-91', ':ARG1', ':ARG2']]}, open(mp, 'w'))
        paths = []
        for i, d in enumerate(docs):
            p = os.path.join(tmpd, 'in%d.txt' % i); open(p, 'w', encoding='utf-8').write(d); paths.append(p)
        for margs in ([], ['--amr'], ['--noop'], ['--model', mp]):
            for k, o in enumerate(optsets):
                for p in (paths if not margs or margs == ['--amr'] else paths[:6]):
                    if (k + paths.index(p)) % 3 and len(o) > 1 and margs:
                        continue
                    rc, out = cli(margs + o + [p])
                    rec(([a.replace(tmpd, '<T>') for a in margs], o, rc, out.replace(tmpd, '<T>')))
                    if rc == 0 and '--triples' not in o and '--check' not in o and out:
                        rc2, out2 = cli(margs + o, stdin_text=out)
                        rec((rc2, out2 == out))
        rec(cli(['--amr', '--model', mp, paths[0]])[0])
        rc, out = cli(['--rearrange', 'random', paths[0]]); rec((rc, len(out.split())))
        rec(cli([paths[0], paths[1], paths[22]]))
        rec(cli(['--encoding', 'latin-1', paths[0]]))
        rec(cli([os.path.join(tmpd, 'missing.txt')])[0][:2])
    finally:
        import shutil
        shutil.rmtree(tmpd, ignore_errors=True)


print(json.dumps(OUT))
