#!/bin/bash
# usage: confirm_seeds.sh ID...
for id in "$@"; do
  wt=/tmp/wt/$id; out=/tmp/seed_out/$id
  [ -d "$wt" ] || continue
  git -C $wt checkout -q -- . 
  for n in 1 2; do
    [ -f $out/patch$n.diff ] || { echo "$id $n MISSING"; continue; }
    (cd $wt && PYTHONPATH=$wt /venv/bin/python $out/demo$n.py >/dev/null 2>&1); clean=$?
    if ! git -C $wt apply --check $out/patch$n.diff 2>/dev/null; then echo "$id $n PATCH-DOES-NOT-APPLY"; continue; fi
    git -C $wt apply $out/patch$n.diff
    (cd $wt && PYTHONPATH=$wt /venv/bin/python $out/demo$n.py >/dev/null 2>&1); broken=$?
    suite=$(cd $wt && /venv/bin/python -m pytest -q -p no:cacheprovider --timeout=900 2>&1 | tail -1)
    files=$(git -C $wt diff --stat -- penman | head -n -1 | awk '{print $1}' | tr '\n' ',')
    git -C $wt checkout -q -- .
    echo "$id $n clean_rc=$clean patched_rc=$broken suite='$suite' files=$files"
  done
done
