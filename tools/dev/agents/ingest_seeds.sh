#!/bin/bash
# usage: ingest.sh ID...   (e.g. C08b) : confirm in worktree, copy into /verif/seeded, remove worktree
for id in "$@"; do
  bash "$(dirname "$0")/confirm_seeds.sh" $id | tee /tmp/confirm_$id.log
  /venv/bin/python - "$id" <<'PY'
import json, shutil, os, re, sys
id_ = sys.argv[1]; pid = id_[:3]
for ln in open(f'/tmp/confirm_{id_}.log').read().splitlines():
    m = re.match(r"(\S+) (\d) clean_rc=(\d+) patched_rc=(\d+) suite='([^']*)' files=(.*)", ln)
    if not m: continue
    _, n, c, b, suite, files = m.groups()
    if int(c) != 0 or int(b) == 0 or not suite.startswith('93 passed'):
        print('NOT CONFIRMED', ln); continue
    src = f'/tmp/seed_out/{id_}'; dst = f'/verif/seeded/{id_}-{n}'
    os.makedirs(dst, exist_ok=True)
    shutil.copy(f'{src}/patch{n}.diff', f'{dst}/patch.diff')
    demo = open(f'{src}/demo{n}.py').read().replace(f'/tmp/wt/{id_}', '@WORKTREE@').replace(f'/tmp/seed_out/{id_}', '@HERE@')
    open(f'{dst}/demo.py','w').write(demo)
    meta = json.load(open(f'{src}/meta{n}.json'))
    meta = {'property': pid, 'id': f'{id_}-{n}', 'round': {'b': 2, 'c': 3, 'd': 4, 'e': 5, 'f': 6, 'g': 7, 'h': 8, 'i': 9, 'j': 10, 'k': 11, 'l': 12}.get(id_[3:4], 2),
            'origin': 'independent sub-agent given only the property text, a list of earlier change summaries to avoid, and a scratch worktree',
            'summary': meta.get('summary'), 'breaks': meta.get('breaks'), 'needs_to_manifest': meta.get('needs_to_manifest'),
            'files': [f for f in files.split(',') if f],
            'confirmed_by_me': {'clean_demo_rc': int(c), 'patched_demo_rc': int(b), 'suite_with_patch': suite,
               'how': 'scratch worktree of /repo HEAD under /tmp: demo on clean tree (rc 0), git apply patch.diff, demo (rc != 0), '
                      'cd <worktree> && /venv/bin/python -m pytest -q -p no:cacheprovider --timeout=900, git checkout -- .; '
                      'demo.py: replace @WORKTREE@ with the worktree path before running'},
            'agent_commands': meta.get('commands_run')}
    json.dump(meta, open(f'{dst}/meta.json','w'), indent=1)
    print('stored', dst)
PY
  git -C /repo worktree remove --force /tmp/wt/$id
done
