#!/bin/bash
# usage: rf_exit2.sh NAME  -> prints undecided messages for a refactoring
n=$1; D=$(mktemp -d /tmp/pvx-XXXX); cp -r /repo/penman $D/; (cd / && git apply --unsafe-paths --directory=$D /verif/refactors/$n/patch.diff)
/venv/bin/python /verif/tools/dev/allrules.py --repo $D | /venv/bin/python -c "
import json,sys
d=json.load(sys.stdin)
for r,v in d['rules'].items():
    if v.get('error'): print('  ERR',r, v['error'][:400])
    for x in v['violations'][:2]: print('  VIOL',r,x['key'][:100], '|', x['msg'][:200])"
rm -rf $D
