#!/bin/bash
# usage: mkrf.sh NAME  (refactors/NAME or seeded/NAME) -> /tmp/rfx/NAME
n=$1; d=/tmp/rfx/$n; rm -rf $d; mkdir -p $d
git -C /repo archive HEAD | tar -x -C $d
p=/verif/refactors/$n/patch.diff; [ -f $p ] || p=/verif/seeded/$n/patch.diff
(cd $d && patch -p1 -s < $p)
echo $d
