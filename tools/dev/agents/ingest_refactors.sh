#!/bin/bash
# usage: ingest_rf.sh AREA...
for a in "$@"; do
  wt=/tmp/wt/rf_$a; out=/tmp/seed_out/rf_$a
  git -C $wt checkout -q -- .
  for n in 1 2 3; do
    [ -f $out/patch$n.diff ] || { echo "$a $n MISSING"; continue; }
    if ! git -C $wt apply --check $out/patch$n.diff 2>/dev/null; then echo "$a $n DOES-NOT-APPLY"; continue; fi
    git -C $wt apply $out/patch$n.diff
    suite=$(cd $wt && /venv/bin/python -m pytest -q -p no:cacheprovider --timeout=900 2>&1 | tail -1)
    same=no; cmp -s $out/diff$n.clean.txt $out/diff$n.patched.txt && same=yes
    git -C $wt checkout -q -- .
    echo "$a $n suite='$suite' diff_identical=$same"
    case "$suite" in 93\ passed*) ;; *) continue;; esac
    [ $same = yes ] || continue
    d=/verif/refactors/rf_$a-$n; mkdir -p $d; cp $out/patch$n.diff $d/patch.diff
    /venv/bin/python - $out/meta$n.json $d/meta.json "$suite" <<'PY'
import json, sys
m = json.load(open(sys.argv[1]))
m = {'kind': 'behaviour-preserving refactoring', 'origin': 'independent sub-agent given only an area description and a scratch worktree',
     'area': m.get('area'), 'summary': m.get('summary'), 'functions_touched': m.get('functions_touched'),
     'why_behaviour_preserving': m.get('why_behaviour_preserving'),
     'confirmed_by_me': {'suite_with_patch': sys.argv[3], 'agent_differential_outputs_identical': True,
                         'how': 'git apply in a scratch worktree, unedited suite, cmp of the agent-produced differential outputs (clean vs patched)'}}
json.dump(m, open(sys.argv[2], 'w'), indent=1)
PY
  done
  git -C /repo worktree remove --force $wt
done
