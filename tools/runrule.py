#!/venv/bin/python
"""Development aid: run single rules and print their instances.  usage: tools/runrule.py [--repo DIR] R9 R10 ..."""
import sys
from pathlib import Path
sys.path.insert(0, str(Path(__file__).resolve().parent.parent))
from pv.core import Ctx
from pv.src import Repo, AnalysisError
from pv import rules  # noqa
args = sys.argv[1:]
root = None
if '--repo' in args:
    i = args.index('--repo'); root = args[i + 1]; del args[i:i + 2]
quiet = '-q' in args
args = [a for a in args if a != '-q']
ctx = Ctx(Repo(root))
for rid in args:
    try:
        rep = ctx.run_rule(rid)
    except AnalysisError as e:
        print(rid, 'ANALYSIS-ERROR', e); continue
    print(f'== {rid} {rep.title}: {rep.counted()} instances (floor {rep.floor}), {len(rep.violations())} violations')
    for i in rep.instances:
        if quiet and i.verdict in ('ok', 'info'):
            continue
        print(f'   {i.verdict:9s} {i.where} | {i.key}' + (f' | {i.msg}' if i.msg else ''))
