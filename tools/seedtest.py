#!/venv/bin/python
"""Run registered checks against the seeded breaking changes in /verif/seeded (development aid).

For each seed: copy /repo/penman to a scratch directory under $TMPDIR, apply patch.diff there,
run `bin/vcheck <property> --repo <scratch> --no-write` (and, with --all-props, every claimed
property), remove the scratch copy.  /repo itself is never touched.
usage: tools/seedtest.py [--all-props] [--tier quick] [SEED ...]
"""
import json, os, shutil, subprocess, sys, tempfile
from concurrent.futures import ThreadPoolExecutor
from pathlib import Path

VERIF = Path(__file__).resolve().parent.parent
REPO = Path(os.environ.get('VERIF_REPO', '/repo'))


def run_seed(seed: Path, props, tier):
    tmp = Path(tempfile.mkdtemp(prefix='pvseed-'))
    try:
        shutil.copytree(REPO / 'penman', tmp / 'penman')
        r = subprocess.run(['git', 'apply', '--unsafe-paths', f'--directory={tmp}', str(seed / 'patch.diff')],
                           cwd='/', capture_output=True, text=True)
        if r.returncode != 0:
            r = subprocess.run(['patch', '-p1', '-s', '-i', str(seed / 'patch.diff')], cwd=tmp, capture_output=True, text=True)
            if r.returncode != 0:
                return seed.name, {'_apply': (99, r.stderr.strip()[:200])}
        out = {}
        for p in props:
            r = subprocess.run([str(VERIF / 'bin/vcheck'), p, '--tier', tier, '--repo', str(tmp), '--no-write',
                                '--no-selfcheck'], capture_output=True, text=True)
            lines = [l for l in r.stdout.splitlines() if l.startswith(('VIOLATION', '  rule', '  key', '  why', 'ANALYSIS-ERROR'))]
            rc = r.returncode
            if rc == 1 and 'VIOLATION property=' not in r.stdout:
                rc = 3          # exit 1 without a VIOLATION line is a crash, not a detection
                lines = (r.stdout + r.stderr).splitlines()[-6:]
            out[p] = (rc, '\n      '.join(lines[:12]))
        return seed.name, out
    finally:
        shutil.rmtree(tmp, ignore_errors=True)


def main():
    args = sys.argv[1:]
    allp = '--all-props' in args
    tier = 'quick'
    if '--tier' in args:
        tier = args[args.index('--tier') + 1]
    names = [a for a in args if not a.startswith('--') and a != tier]
    sys.path.insert(0, str(VERIF))
    from pv.props import PROPS
    seeds = sorted(p for p in (VERIF / 'seeded').iterdir() if (p / 'patch.diff').exists())
    if names:
        seeds = [s for s in seeds if s.name in names or s.name.split('-')[0] in names]
    jobs = []
    with ThreadPoolExecutor(max_workers=14) as ex:
        for s in seeds:
            own = json.loads((s / 'meta.json').read_text())['property']
            props = sorted(PROPS) if allp else ([own] if own in PROPS else [])
            jobs.append((s, own, ex.submit(run_seed, s, props, tier)))
        caught = missed = 0
        for s, own, fut in jobs:
            name, out = fut.result()
            hit = [p for p, (rc, _) in out.items() if rc == 1]
            err = [p for p, (rc, _) in out.items() if rc not in (0, 1)]
            status = 'CAUGHT' if hit else ('ERROR ' if err else 'missed')
            caught += bool(hit)
            missed += not hit
            print(f'{name:8s} {status} by={",".join(hit) or "-"} err={",".join(err) or "-"}')
            if '-v' in args or err:
                for p, (rc, txt) in out.items():
                    if rc != 0:
                        print(f'   [{p} rc={rc}] {txt}')
        print(f'caught {caught} / {caught + missed}')


if __name__ == '__main__':
    main()
