#!/opt/veriftools/pyvenv/bin/python
import json, sys, glob, jsonschema
ev = json.load(open('/root/.vp/EVIDENCE.schema.json')); mf = json.load(open('/root/.vp/MANIFEST.schema.json'))
jsonschema.validate(json.load(open('/verif/MANIFEST.json')), mf)
bad = 0
for f in sorted(glob.glob('/verif/evidence/*.json')):
    try:
        jsonschema.validate(json.load(open(f)), ev)
    except jsonschema.ValidationError as e:
        bad += 1; print('INVALID', f, e.message[:200])
print('manifest ok; evidence files:', len(glob.glob('/verif/evidence/*.json')), 'invalid:', bad)
