#!/venv/bin/python
"""Development aid: materialise a seeded change / refactoring as a scratch copy of /repo/penman and print its path.
usage: tools/mkvariant.py seeded/C13-1   (remove the printed directory afterwards)"""
import shutil, subprocess, sys, tempfile
from pathlib import Path
d = Path(sys.argv[1]).resolve()
tmp = Path(tempfile.mkdtemp(prefix='pvvar-'))
shutil.copytree('/repo/penman', tmp / 'penman')
r = subprocess.run(['git', 'apply', '--unsafe-paths', f'--directory={tmp}', str(d / 'patch.diff')], cwd='/', capture_output=True, text=True)
if r.returncode:
    print(r.stderr, file=sys.stderr); sys.exit(1)
print(tmp)
