"""Shared resolution helpers that make rules robust against behaviour-preserving refactorings:
aliases of locals, small helper functions, module-level constants, guard-clause vs if/else forms."""
from __future__ import annotations

import ast
import copy
from typing import Callable, Dict, Iterable, List, Optional, Set, Tuple

from . import boolnorm as bn
from .cfg import CFG, Fact, cnorm, cond_facts, def_value, facts_at, owner_node, reaching_defs
from .src import AnalysisError, FuncInfo, Module, fold, norm, try_fold, walk_local, Unfoldable


class FnView:
    """Per-function analysis bundle (CFG, facts, reaching definitions, parent map), cached on the context."""

    def __init__(self, ctx, fi: FuncInfo):
        self.ctx = ctx
        self.fi = fi
        self.cfg = CFG(fi.node)
        self.IN = cond_facts(self.cfg)
        self.pm = ctx.repo.parent_map(fi.node)
        self.rd = reaching_defs(self.cfg, fi.params)

    def node_of(self, n: ast.AST) -> int:
        return owner_node(self.cfg, self.pm, n)


def view(ctx, fi: FuncInfo) -> FnView:
    cache = ctx._cache.setdefault('views', {})
    if fi.fq not in cache:
        cache[fi.fq] = FnView(ctx, fi)
    return cache[fi.fq]


# ---------------------------------------------------------------------------------------------
def unique_def(v: FnView, name: str, at: ast.AST) -> Optional[ast.AST]:
    """The expression bound to `name` by the only definition reaching `at` (plain assignment), else None."""
    try:
        here = v.node_of(at)
    except (KeyError, AnalysisError):
        return None
    defs = v.rd.get(here, {}).get(name)
    if not defs or len(defs) != 1:
        return None
    d = next(iter(defs))
    if d == v.cfg.entry:
        return None
    val = def_value(v.cfg, d, name)
    if val is not None:
        return val
    # tuple unpacking  a, b = x, y   /   a, b = f(...)
    nd = v.cfg.nodes[d]
    st = nd.ast
    if nd.kind == 'stmt' and isinstance(st, ast.Assign) and isinstance(st.targets[0], (ast.Tuple, ast.List)):
        tg = st.targets[0]
        names = [e.id if isinstance(e, ast.Name) else None for e in tg.elts]
        if name in names:
            i = names.index(name)
            if isinstance(st.value, (ast.Tuple, ast.List)) and len(st.value.elts) == len(names):
                return st.value.elts[i]
            return ast.Subscript(value=st.value, slice=ast.Constant(value=i), ctx=ast.Load())
    return None


def is_simple(e: ast.AST) -> bool:
    """Side-effect free enough to be substituted for a name."""
    for n in ast.walk(e):
        if isinstance(n, (ast.Yield, ast.YieldFrom, ast.Await, ast.NamedExpr, ast.Lambda)):
            return False
    return True


def expand(ctx, fi: FuncInfo, e: ast.AST, at: Optional[ast.AST] = None, depth: int = 0, pure_only: bool = False) -> ast.AST:
    """`e` with every local name that has a single reaching definition replaced by that definition
    (recursively), module-level constants left as names."""
    if depth > 6:
        return e
    v = view(ctx, fi)
    at = at if at is not None else e

    class R(ast.NodeTransformer):
        def visit_Name(self, n):
            if not isinstance(n.ctx, ast.Load):
                return n
            if n.id in fi.params and not ctx.cg.local_assigns(fi).get(n.id):
                return n
            val = unique_def(v, n.id, at if _contains(at, n) or at is n else at)
            if val is None or not is_simple(val):
                return n
            if pure_only and any(isinstance(x, ast.Call) for x in ast.walk(val)):
                return n
            # the definition is evaluated where it was made: expand it in its own position
            return expand(ctx, fi, copy.deepcopy(val), val, depth + 1, pure_only)
        def visit_Subscript(self, n):
            n = self.generic_visit(n)
            # helper(a, b)[i] where helper's only return is a tuple display over its parameters: element i with the arguments put in
            if isinstance(n, ast.Subscript) and isinstance(n.slice, ast.Constant) and isinstance(n.slice.value, int) and isinstance(n.value, ast.Call) \
                    and not n.value.keywords and not any(isinstance(a, ast.Starred) for a in n.value.args):
                hs = [t.func for t in ctx.cg.resolve_call(n.value, fi) if t.kind == 'func']
                if len(hs) == 1 and len(ctx.cg.resolve_call(n.value, fi)) == 1:
                    h = hs[0]
                    rets = [x for x in walk_local(h.node) if isinstance(x, ast.Return) and x.value is not None]
                    pos = h.positional[1:] if h.is_method() and 'staticmethod' not in h.decorators() else h.positional
                    if len(rets) == 1 and isinstance(rets[0].value, ast.Tuple) and 0 <= n.slice.value < len(rets[0].value.elts) and len(pos) == len(n.value.args) \
                            and not any(ctx.cg.local_assigns(h).get(p_) for p_ in pos):
                        elt = rets[0].value.elts[n.slice.value]
                        names = {x.id for x in ast.walk(elt) if isinstance(x, ast.Name)}
                        if names <= set(pos) and not any(isinstance(x, ast.Call) for x in ast.walk(elt)):
                            env = dict(zip(pos, n.value.args))

                            class S(ast.NodeTransformer):
                                def visit_Name(self, m):
                                    return copy.deepcopy(env[m.id]) if m.id in env else m
                            return S().visit(copy.deepcopy(elt))
            return n
    try:
        return R().visit(copy.deepcopy(e) if depth == 0 else e)
    except RecursionError:
        return e


def _contains(root, node) -> bool:
    return any(x is node for x in ast.walk(root))


def alias_facts(ctx, fi: FuncInfo, facts: Iterable[Fact], at: ast.AST) -> Set[Fact]:
    """The facts plus variants in which single-definition locals are replaced by what they stand for, e.g.
    `opt = options['x']; if opt:` yields the fact (options['x'], True) as well."""
    out: Set[Fact] = set(facts)
    v = view(ctx, fi)
    for f, pol in list(facts):
        try:
            e = ast.parse(f, mode='eval').body
        except SyntaxError:
            continue
        changed = False

        class R(ast.NodeTransformer):
            def visit_Name(self, n):
                nonlocal changed
                vals = [x for x in ctx.cg.local_assigns(fi).get(n.id, []) if isinstance(x, ast.AST)]
                allv = ctx.cg.local_assigns(fi).get(n.id, [])
                if n.id in fi.params or len(allv) != 1 or len(vals) != 1 or isinstance(vals[0], (ast.Import, ast.ImportFrom)):
                    return n
                if not is_simple(vals[0]):
                    return n
                changed = True
                return copy.deepcopy(vals[0])
        e2 = R().visit(copy.deepcopy(e))
        if changed:
            out.add((cnorm(e2), pol))
            # one more level
            e3 = R().visit(copy.deepcopy(e2))
            out.add((cnorm(e3), pol))
    return out


def facts_ex(ctx, fi: FuncInfo, node: ast.AST) -> Set[Fact]:
    v = view(ctx, fi)
    return alias_facts(ctx, fi, facts_at(v.cfg, v.IN, v.pm, node), node)


# ---------------------------------------------------------------------------------------------
def module_value(ctx, module: Module, name: str):
    """(ok, python value) of a module-level constant, folded."""
    if name not in module.constants:
        r = ctx.repo.resolve_name(module, name)
        if r[0] == 'const':
            return try_fold(r[1].constants[r[2]], {}, ctx.repo, r[1])
        return False, None
    return try_fold(module.constants[name], {}, ctx.repo, module)


def fold_in(ctx, fi: FuncInfo, e: ast.AST):
    """Fold an expression that may mention module-level constants and single-definition constant locals."""
    ok, v = try_fold(e, {}, ctx.repo, fi.module)
    if ok:
        return True, v
    e2 = expand(ctx, fi, e, e)
    return try_fold(e2, {}, ctx.repo, fi.module)


# ---------------------------------------------------------------------------------------------
def local_callees(ctx, fi: FuncInfo, depth: int = 2, same_module: bool = True) -> List[FuncInfo]:
    """fi plus the repo functions it calls (transitively up to `depth`), nested functions included."""
    seen: Dict[str, FuncInfo] = {fi.fq: fi}
    frontier = [fi]
    for _ in range(depth):
        nxt = []
        for f in frontier:
            for c in ctx.cg.callees(f):
                if c.fq in seen:
                    continue
                if same_module and c.module.name != fi.module.name:
                    continue
                seen[c.fq] = c
                nxt.append(c)
        frontier = nxt
    return list(seen.values())


def helper_returns(ctx, fi: FuncInfo, call: ast.Call) -> Optional[List[ast.AST]]:
    """If `call` resolves to one small repo function (no loops around its returns), its return expressions
    with the parameters replaced by the call's arguments; else None."""
    ts = ctx.cg.resolve_call(call, fi)
    funcs = [t.func for t in ts if t.kind == 'func']
    if len(funcs) != 1:
        return None
    h = funcs[0]
    rets = [n for n in walk_local(h.node) if isinstance(n, ast.Return) and n.value is not None]
    if not rets:
        return None
    pos = h.positional
    if h.is_method() and 'staticmethod' not in h.decorators():
        pos = pos[1:]
    subst: Dict[str, ast.AST] = {}
    for p, a in zip(pos, call.args):
        if isinstance(a, ast.Starred):
            return None
        subst[p] = a
    for kw in call.keywords:
        if kw.arg is None:
            return None
        subst[kw.arg] = kw.value
    out = []
    for r in rets:
        e = expand(ctx, h, r.value, r)

        class S(ast.NodeTransformer):
            def visit_Name(self, n):
                if isinstance(n.ctx, ast.Load) and n.id in subst:
                    return copy.deepcopy(subst[n.id])
                return n
        out.append(S().visit(copy.deepcopy(e)))
    return out


# ---------------------------------------------------------------------------------------------
def path_conditions(fnode_body: List[ast.stmt]) -> List[Tuple[List[Tuple[ast.AST, bool]], ast.stmt]]:
    """Enumerate the structured paths of a loop-free statement list: [(conditions taken, terminal statement)] for
    every Return / Raise / fall-off-the-end (terminal None).  Loops make the enumeration give up (AnalysisError)."""
    results: List[Tuple[List[Tuple[ast.AST, bool]], Optional[ast.stmt]]] = []

    def walk(stmts, conds) -> List[List[Tuple[ast.AST, bool]]]:
        """returns the condition lists with which control falls off the end of stmts"""
        live = [conds]
        for st in stmts:
            nxt = []
            for c in live:
                if isinstance(st, ast.If):
                    nxt += walk(st.body, c + [(st.test, True)])
                    nxt += walk(st.orelse, c + [(st.test, False)])
                elif isinstance(st, (ast.Return, ast.Raise)):
                    results.append((c, st))
                elif isinstance(st, (ast.For, ast.While, ast.Try, ast.With)):
                    raise AnalysisError('path enumeration: loop/try in a function expected to be straight-line')
                else:
                    nxt.append(c)
            live = nxt
        return live
    for c in walk(fnode_body, []):
        results.append((c, None))
    return results


def _unroll_any(ctx, fi: FuncInfo, e: ast.AST) -> ast.AST:
    """any(map(F, G(a))) / any(F(x) for x in G(a)) with G a module-level generator whose body is a few `yield <expr>` statements, some under
    an `if`: written out as  F(e1) or (c2 and F(e2)) ...  - any() short-circuits in the order of the yields, like `or`."""
    import copy
    if not (isinstance(e, ast.Call) and isinstance(e.func, ast.Name) and e.func.id == 'any' and len(e.args) == 1 and not e.keywords):
        return e
    a = e.args[0]
    if isinstance(a, ast.Call) and isinstance(a.func, ast.Name) and a.func.id == 'map' and len(a.args) == 2:
        fn, src = a.args

        def apply(x):
            return ast.Call(func=copy.deepcopy(fn), args=[x], keywords=[])
    elif isinstance(a, ast.GeneratorExp) and len(a.generators) == 1 and not a.generators[0].ifs and isinstance(a.generators[0].target, ast.Name):
        src, tv, elt = a.generators[0].iter, a.generators[0].target.id, a.elt

        def apply(x):
            class R(ast.NodeTransformer):
                def visit_Name(self, n):
                    return copy.deepcopy(x) if n.id == tv else n
            return R().visit(copy.deepcopy(elt))
    else:
        return e
    if not (isinstance(src, ast.Call) and isinstance(src.func, ast.Name) and src.func.id in fi.module.functions and not src.keywords):
        return e
    g = fi.module.functions[src.func.id]
    if len(g.positional) != len(src.args):
        return e
    env = dict(zip(g.positional, src.args))

    def sub(x):
        class R(ast.NodeTransformer):
            def visit_Name(self, n):
                return copy.deepcopy(env[n.id]) if n.id in env else n
        return R().visit(copy.deepcopy(x))
    terms = []

    def walk(stmts, conds) -> bool:
        for st in stmts:
            if isinstance(st, ast.Expr) and isinstance(st.value, ast.Constant):
                continue
            if isinstance(st, ast.Expr) and isinstance(st.value, ast.Yield) and st.value.value is not None:
                t = apply(sub(st.value.value))
                terms.append(ast.BoolOp(op=ast.And(), values=conds + [t]) if conds else t)
            elif isinstance(st, ast.If) and not st.orelse:
                if not walk(st.body, conds + [sub(st.test)]):
                    return False
            else:
                return False
        return True
    if not walk(g.node.body, []) or not terms:
        return e
    out = terms[0] if len(terms) == 1 else ast.BoolOp(op=ast.Or(), values=terms)
    ast.copy_location(out, e)
    ast.fix_missing_locations(out)
    return out


def bool_function_formula(ctx, fi: FuncInfo, subst: Optional[Dict[str, object]] = None,
                          canon: Optional[Callable[[str], str]] = None, calls: Optional[Dict[str, object]] = None):
    """Formula of a small boolean function with any mix of guard clauses / if-else / single expression:
    OR over its return sites of (path condition AND returned value)."""
    body = [s for s in fi.node.body if not (isinstance(s, ast.Expr) and isinstance(s.value, ast.Constant))]
    ab = bn.Abstractor(subst or {}, canon=canon)
    terms = []
    for conds, term in path_conditions(body):
        if term is None or isinstance(term, ast.Raise):
            continue
        if term.value is None:
            continue
        val = _unroll_any(ctx, fi, expand(ctx, fi, term.value, term))
        f = ab.formula(val)
        pc = [ab.formula(expand(ctx, fi, c, c)) if pol else bn.mk_not(ab.formula(expand(ctx, fi, c, c))) for c, pol in conds]
        terms.append(bn.mk_and(pc + [f]))
    return bn.mk_or(terms)


def condition_of(ctx, fi: FuncInfo, node: ast.AST, subst=None, canon=None):
    """Formula under which `node` is evaluated, for loop-free functions (guard clauses and nesting handled)."""
    body = [s for s in fi.node.body if not (isinstance(s, ast.Expr) and isinstance(s.value, ast.Constant))]
    ab = bn.Abstractor(subst or {}, canon=canon)
    terms = []

    def walk(stmts, conds):
        live = [conds]
        for st in stmts:
            nxt = []
            for c in live:
                if any(x is node for x in ast.walk(st)) and not isinstance(st, ast.If):
                    terms.append(c)
                if isinstance(st, ast.If):
                    if any(x is node for x in ast.walk(st.test)):
                        terms.append(c)
                    nxt += walk(st.body, c + [(st.test, True)])
                    nxt += walk(st.orelse, c + [(st.test, False)])
                elif isinstance(st, (ast.Return, ast.Raise)):
                    pass
                elif isinstance(st, (ast.For, ast.While, ast.Try, ast.With)):
                    raise AnalysisError('condition_of: loop/try in a function expected to be straight-line')
                else:
                    nxt.append(c)
            live = nxt
        return live
    walk(body, [])
    fs = []
    for c in terms:
        fs.append(bn.mk_and([ab.formula(expand(ctx, fi, t, t)) if pol else bn.mk_not(ab.formula(expand(ctx, fi, t, t))) for t, pol in c]))
    # conditional expressions around the node
    v = view(ctx, fi)
    from .cfg import syntactic_facts
    n = node
    while id(n) in v.pm and not isinstance(n, ast.stmt):
        n = v.pm[id(n)]
    extra = []
    for f, pol in syntactic_facts(v.pm, node, n):
        e = ast.parse(f, mode='eval').body
        fm = ab.formula(e)
        extra.append(fm if pol else bn.mk_not(fm))
    return bn.mk_and([bn.mk_or(fs)] + extra)


def symbolic_returns(fi: FuncInfo, stmts: Optional[List[ast.stmt]] = None) -> List[Tuple[List[Tuple[ast.AST, bool]], Optional[ast.AST], ast.stmt]]:
    """Path enumeration of a loop-free function with locals substituted away: [(conditions, returned value, stmt)];
    conditions and values mention only parameters, attributes and calls (value None = falls off the end / bare return).
    Assignments to plain names are substituted forward along each path (path-sensitive, so a name bound differently on
    two branches is resolved on each)."""
    body = [s for s in (stmts if stmts is not None else fi.node.body) if not (isinstance(s, ast.Expr) and isinstance(s.value, ast.Constant))]
    out: List[Tuple[List[Tuple[ast.AST, bool]], Optional[ast.AST], ast.stmt]] = []

    def sub(e: ast.AST, env: Dict[str, ast.AST]) -> ast.AST:
        class R(ast.NodeTransformer):
            def visit_Name(self, n):
                if isinstance(n.ctx, ast.Load) and n.id in env:
                    return copy.deepcopy(env[n.id])
                return n
        return R().visit(copy.deepcopy(e))

    def walk(stmts, conds, env):
        for i, st in enumerate(stmts):
            if isinstance(st, ast.If):
                t = sub(st.test, env)
                rest = stmts[i + 1:]
                walk(st.body + rest, conds + [(t, True)], dict(env))
                walk(st.orelse + rest, conds + [(t, False)], dict(env))
                return
            if isinstance(st, ast.Return):
                out.append((conds, sub(st.value, env) if st.value is not None else None, st))
                return
            if isinstance(st, (ast.Raise, ast.Continue, ast.Break)):
                return
            if isinstance(st, (ast.For, ast.While, ast.Try, ast.With)):
                raise AnalysisError(f'{fi.fq}: symbolic paths: loop/try/with in a function expected to be straight-line')
            if isinstance(st, ast.Assign) and len(st.targets) == 1 and isinstance(st.targets[0], ast.Name) and is_simple(st.value):
                env[st.targets[0].id] = sub(st.value, env)
                continue
            if isinstance(st, ast.AnnAssign) and isinstance(st.target, ast.Name) and st.value is not None and is_simple(st.value):
                env[st.target.id] = sub(st.value, env)
                continue
            if isinstance(st, ast.Assign) and len(st.targets) == 1 and isinstance(st.targets[0], ast.Tuple) and isinstance(st.value, ast.Tuple) \
                    and len(st.targets[0].elts) == len(st.value.elts) and all(isinstance(t, ast.Name) for t in st.targets[0].elts) \
                    and all(is_simple(v) for v in st.value.elts):
                vals = [sub(v, env) for v in st.value.elts]          # a, b = x, y  (simultaneous)
                for t, v in zip(st.targets[0].elts, vals):
                    env[t.id] = v
                continue
            for n in ast.walk(st):
                if isinstance(n, ast.Name) and isinstance(n.ctx, (ast.Store, ast.Del)):
                    env.pop(n.id, None)
        out.append((conds, None, fi.node))
    walk(body, [], {})
    return out


def calls_where(ctx, fi: FuncInfo, pred: Callable[[FuncInfo], bool], depth: int = 2) -> List[ast.Call]:
    """Call sites in `fi` whose (single, repo-defined) callee satisfies `pred`, or calls such a function in turn."""
    def sat(f: FuncInfo, d: int, seen: Set[str]) -> bool:
        if f.fq in seen:
            return False
        seen = seen | {f.fq}
        if pred(f):
            return True
        if d <= 0:
            return False
        return any(sat(c, d - 1, seen) for c in ctx.cg.callees(f) if c.module.name == f.module.name)
    out = []
    for call, ts in ctx.cg.calls_in(fi):
        fs = [t.func for t in ts if t.kind == 'func']
        if len(fs) == 1 and fs[0].fq != fi.fq and sat(fs[0], depth - 1, {fi.fq}):
            out.append(call)
    return out


def ctor_param_unused(ctx, fi, call: ast.Call, cls, param: str) -> bool:
    """True when leaving out `param` at this constructor call cannot matter: the new object is bound to one local name, that
    name is only used as the receiver of method calls, and none of the methods called (closed under self.method() calls)
    reads an attribute that __init__ derives from `param`."""
    init = cls.find_method('__init__')
    if init is None:
        return False
    attrs = set()
    for n in walk_local(init.node):
        if isinstance(n, (ast.Assign, ast.AnnAssign)):
            tgts = n.targets if isinstance(n, ast.Assign) else [n.target]
            val = n.value
            if val is not None and any(isinstance(x, ast.Name) and x.id == param for x in ast.walk(val)):
                for t in tgts:
                    if isinstance(t, ast.Attribute) and norm(t.value) == 'self':
                        attrs.add(t.attr)
    # other uses of the parameter inside __init__ (conditions, calls) make the answer unknown
    uses = [x for x in walk_local(init.node) if isinstance(x, ast.Name) and x.id == param and isinstance(x.ctx, ast.Load)]
    if not attrs or not uses:
        return False
    pm = ctx.repo.parent_map(fi.node)
    par = pm.get(id(call))
    if not (isinstance(par, (ast.Assign, ast.AnnAssign)) and isinstance((par.targets[0] if isinstance(par, ast.Assign) else par.target), ast.Name)):
        return False
    name = (par.targets[0] if isinstance(par, ast.Assign) else par.target).id
    called = set()
    for x in walk_local(fi.node):
        if isinstance(x, ast.Name) and x.id == name and isinstance(x.ctx, ast.Load):
            p = pm.get(id(x))
            pp = pm.get(id(p)) if p is not None else None
            if isinstance(p, ast.Attribute) and isinstance(pp, ast.Call) and pp.func is p:
                called.add(p.attr)
            else:
                return False                     # the object escapes or is used in another way
    # nested functions may also use the name
    for x in ast.walk(fi.node):
        if isinstance(x, (ast.FunctionDef, ast.Lambda)) and x is not fi.node and any(isinstance(y, ast.Name) and y.id == name for y in ast.walk(x)):
            return False
    todo, seen = list(called), set()
    while todo:
        m = todo.pop()
        if m in seen:
            continue
        seen.add(m)
        meth = cls.find_method(m)
        if meth is None:
            return False
        for y in walk_local(meth.node):
            if isinstance(y, ast.Attribute) and norm(y.value) == 'self':
                if y.attr in attrs:
                    return False
                if cls.find_method(y.attr) is not None:
                    todo.append(y.attr)
    return True
