"""E1 - callee resolution and call graph over the whole package.

Resolution uses qualified names, module aliases, self/cls through the MRO (subclass overrides are
added as may-callees), receivers typed by annotations / constructor assignments / call-site
argument classes (fixpoint).  External callees are reported by dotted name ('json.dumps',
'builtins.len', '?.append' for a method on a receiver of unknown class).
"""
from __future__ import annotations

import ast
import builtins
from typing import Dict, List, Optional, Set, Tuple

from .src import ClassInfo, FuncInfo, Module, Repo, dotted, norm, walk_local

BUILTINS = set(dir(builtins))


class Target:
    __slots__ = ('kind', 'func', 'cls', 'name')

    def __init__(self, kind: str, func: Optional[FuncInfo] = None, cls: Optional[ClassInfo] = None,
                 name: str = ''):
        self.kind = kind      # 'func' | 'class' | 'ext' | 'method?' | 'unknown'
        self.func = func
        self.cls = cls
        self.name = name

    def label(self) -> str:
        if self.kind == 'func':
            return self.func.fq
        if self.kind == 'class':
            return self.cls.fq
        return self.name

    def __repr__(self):
        return f'<{self.kind} {self.label()}>'


class CallGraph:
    def __init__(self, repo: Repo):
        self.repo = repo
        self.param_classes: Dict[Tuple[str, str], Set[str]] = {}   # (func fq, param) -> class fqs
        self.attr_classes: Dict[Tuple[str, str], Set[str]] = {}    # (class fq, attr) -> class fqs
        self._local_assign_cache: Dict[str, Dict[str, List[ast.AST]]] = {}
        self._classes = {c.fq: c for c in repo.all_classes()}
        self._solve_classes()
        self.edges: Dict[str, List[Tuple[ast.Call, List[Target]]]] = {}
        self.callers: Dict[str, List[Tuple[FuncInfo, ast.Call]]] = {}
        self._build()

    # -- local assignments -----------------------------------------------------------------
    def local_assigns(self, fi: FuncInfo) -> Dict[str, List[ast.AST]]:
        """name -> list of value expressions assigned to it (plain `x = v` and `x: T = v`);
        a None entry marks a binding we do not model (loop target, unpacking, with, import ...)."""
        if fi.fq in self._local_assign_cache:
            return self._local_assign_cache[fi.fq]
        out: Dict[str, List[ast.AST]] = {}

        def mark(t, v):
            if isinstance(t, ast.Name):
                out.setdefault(t.id, []).append(v)
            elif isinstance(t, (ast.Tuple, ast.List)):
                # a, b = x, y  binds element by element (unless it is an exchange of the same names, whose right side means the OLD values)
                if isinstance(v, (ast.Tuple, ast.List)) and len(v.elts) == len(t.elts) and not any(isinstance(e, ast.Starred) for e in list(t.elts) + list(v.elts)):
                    tnames = {x.id for e in t.elts for x in ast.walk(e) if isinstance(x, ast.Name)}
                    vnames = {x.id for e in v.elts for x in ast.walk(e) if isinstance(x, ast.Name)}
                    if not (tnames & vnames):
                        for e, ve in zip(t.elts, v.elts):
                            mark(e, ve)
                        return
                for e in t.elts:
                    mark(e, None)
            elif isinstance(t, ast.Starred):
                mark(t.value, None)

        for n in walk_local(fi.node):
            if isinstance(n, ast.Assign):
                for t in n.targets:
                    mark(t, n.value)
            elif isinstance(n, ast.AnnAssign) and n.value is not None:
                mark(n.target, n.value)
            elif isinstance(n, ast.AugAssign):
                mark(n.target, None)
            elif isinstance(n, (ast.For, ast.AsyncFor)):
                mark(n.target, None)
            elif isinstance(n, ast.comprehension):
                mark(n.target, None)
            elif isinstance(n, (ast.With, ast.AsyncWith)):
                for it in n.items:
                    if it.optional_vars is not None:
                        mark(it.optional_vars, None)
            elif isinstance(n, ast.ExceptHandler) and n.name:
                out.setdefault(n.name, []).append(None)
            elif isinstance(n, ast.NamedExpr):
                mark(n.target, n.value)
            elif isinstance(n, (ast.Import, ast.ImportFrom)):
                for a in n.names:
                    nm = a.asname or a.name.split('.')[0]
                    out.setdefault(nm, []).append(n)   # the import node itself
        self._local_assign_cache[fi.fq] = out
        return out

    # -- annotation -> class ---------------------------------------------------------------
    def ann_classes(self, ann: Optional[ast.AST], module: Module) -> Set[str]:
        out: Set[str] = set()
        if ann is None:
            return out
        if isinstance(ann, ast.Constant) and isinstance(ann.value, str):
            try:
                ann = ast.parse(ann.value, mode='eval').body
            except SyntaxError:
                return out
        if isinstance(ann, ast.Name):
            r = self.repo.resolve_name(module, ann.id)
            if r[0] == 'class':
                out.add(r[2].fq)
        elif isinstance(ann, ast.Attribute):
            d = dotted(ann)
            if d:
                head, _, attr = d.rpartition('.')
                r = self.repo.resolve_name(module, head.split('.')[0])
                if r[0] == 'module':
                    r2 = self.repo.resolve_qualified(f'{r[1].name}.{attr}')
                    if r2[0] == 'class':
                        out.add(r2[2].fq)
        elif isinstance(ann, ast.Subscript):
            base = dotted(ann.value) or ''
            if base.split('.')[-1] in ('Optional', 'Union'):
                sl = ann.slice
                elts = sl.elts if isinstance(sl, ast.Tuple) else [sl]
                for e in elts:
                    out |= self.ann_classes(e, module)
            elif base.split('.')[-1] in ('Type',):
                pass
        elif isinstance(ann, ast.BinOp) and isinstance(ann.op, ast.BitOr):
            out |= self.ann_classes(ann.left, module) | self.ann_classes(ann.right, module)
        return out

    # -- class of an expression ------------------------------------------------------------
    def class_of(self, expr: ast.AST, fi: Optional[FuncInfo], module: Module, depth: int = 0) -> Set[str]:
        """Set of repo class fqs that `expr` may be an instance of (empty = unknown/not a repo class)."""
        if depth > 6:
            return set()
        if isinstance(expr, ast.Name):
            name = expr.id
            f = fi
            while f is not None:
                if name in f.params:
                    if name == 'self' and f.cls is not None and f.positional and f.positional[0] == 'self':
                        return {f.cls.fq}
                    out = set(self.param_classes.get((f.fq, name), set()))
                    # a parameter may be re-assigned (`model = Model()` under `if model is None`)
                    for v in self.local_assigns(f).get(name, []):
                        if v is not None and not isinstance(v, (ast.Import, ast.ImportFrom)):
                            out |= self.class_of(v, f, module, depth + 1)
                    return out
                assigns = self.local_assigns(f)
                if name in assigns:
                    out = set()
                    for v in assigns[name]:
                        if isinstance(v, ast.ImportFrom):
                            for a in v.names:
                                if (a.asname or a.name) == name:
                                    r = self.repo.resolve_qualified(f'{v.module}.{a.name}')
                                    out |= self._class_of_resolved(r, depth)
                        elif v is not None and not isinstance(v, ast.Import):
                            out |= self.class_of(v, f, module, depth + 1)
                    return out
                f = f.parent
            r = self.repo.resolve_name(module, name)
            return self._class_of_resolved(r, depth)
        if isinstance(expr, ast.Call):
            for t in self.resolve_expr(expr.func, fi, module, depth + 1):
                if t.kind == 'class':
                    return {t.cls.fq}
                if t.kind == 'func':
                    cs = self.ann_classes(t.func.node.returns, t.func.module)
                    if not cs:
                        # unannotated: classes of the returned expressions
                        for n in walk_local(t.func.node):
                            if isinstance(n, ast.Return) and n.value is not None:
                                cs |= self.class_of(n.value, t.func, t.func.module, depth + 2)
                    return cs
                if t.kind == 'ext' and t.name in ('copy.deepcopy', 'copy.copy') and expr.args:
                    return self.class_of(expr.args[0], fi, module, depth + 1)
                if t.kind == 'ext' and t.name == 'typing.cast' and len(expr.args) == 2:
                    return self.class_of(expr.args[1], fi, module, depth + 1)
            return set()
        if isinstance(expr, ast.Attribute):
            out = set()
            for c in self.class_of(expr.value, fi, module, depth + 1):
                for k in self._classes[c].mro():
                    out |= self.attr_classes.get((k.fq, expr.attr), set())
            if not out and isinstance(expr.value, ast.Name):
                r = self.repo.resolve_name(module, expr.value.id)
                if r[0] == 'module':
                    out |= self._class_of_resolved(self.repo.resolve_qualified(f'{r[1].name}.{expr.attr}'), depth)
            return out
        if isinstance(expr, ast.IfExp):
            return self.class_of(expr.body, fi, module, depth + 1) | self.class_of(expr.orelse, fi, module, depth + 1)
        if isinstance(expr, ast.BoolOp):
            out = set()
            for v in expr.values:
                out |= self.class_of(v, fi, module, depth + 1)
            return out
        return set()

    def _class_of_resolved(self, r, depth) -> Set[str]:
        if r[0] == 'const':
            m = r[1]
            return self.class_of(m.constants[r[2]], None, m, depth + 1)
        return set()

    # -- resolve callee expression ---------------------------------------------------------
    def resolve_expr(self, fexpr: ast.AST, fi: Optional[FuncInfo], module: Module, depth: int = 0) -> List[Target]:
        if depth > 8:
            return [Target('unknown', name=norm(fexpr))]
        if isinstance(fexpr, ast.Name):
            name = fexpr.id
            if name == 'cls' and fi is not None and fi.cls is not None and 'classmethod' in fi.decorators():
                return [Target('class', cls=fi.cls)] + [Target('class', cls=c) for c in self.repo.subclasses(fi.cls)]
            f = fi
            while f is not None:
                if name in f.nested:
                    return [Target('func', func=f.nested[name])]
                if name in f.params:
                    # re-assigned parameter aliasing a callable is not used in penman
                    return [Target('unknown', name=f'param:{name}')]
                assigns = self.local_assigns(f)
                if name in assigns:
                    out: List[Target] = []
                    for v in assigns[name]:
                        if isinstance(v, ast.ImportFrom):
                            for a in v.names:
                                if (a.asname or a.name) == name:
                                    out += self._targets_of_resolved(
                                        self.repo.resolve_qualified(f'{v.module}.{a.name}'), f'{v.module}.{a.name}')
                        elif isinstance(v, (ast.Name, ast.Attribute)):
                            out += self.resolve_expr(v, f, module, depth + 1)
                        elif self._table_functions(v, module) is not None:
                            out += self._table_functions(v, module)
                        else:
                            out.append(Target('unknown', name=f'local:{name}'))
                    return out or [Target('unknown', name=f'local:{name}')]
                f = f.parent
            r = self.repo.resolve_name(module, name)
            if r[0] == 'unknown':
                if name in BUILTINS:
                    return [Target('ext', name=f'builtins.{name}')]
                return [Target('unknown', name=name)]
            return self._targets_of_resolved(r, name)
        if isinstance(fexpr, ast.Attribute):
            attr = fexpr.attr
            base = fexpr.value
            # module alias:  layout.interpret, json.dumps, os.path.join
            d = dotted(base)
            if d is not None:
                head = d.split('.')[0]
                is_local = False
                f = fi
                while f is not None:
                    if head in f.params or (head in self.local_assigns(f) and not all(
                            isinstance(v, (ast.Import, ast.ImportFrom)) for v in self.local_assigns(f)[head])):
                        is_local = True
                        break
                    f = f.parent
                if not is_local:
                    r = self.repo.resolve_name(module, head)
                    if r[0] == 'module' and '.' not in d:
                        return self._targets_of_resolved(
                            self.repo.resolve_qualified(f'{r[1].name}.{attr}'), f'{r[1].name}.{attr}')
                    if r[0] == 'external' or (r[0] == 'unknown' and head in module.imports):
                        q = module.imports.get(head, head)
                        rest = d.split('.')[1:]
                        return [Target('ext', name='.'.join([q] + rest + [attr]))]
                    if r[0] == 'class' and '.' not in d:
                        m = r[2].find_method(attr)
                        if m is not None:
                            return [Target('func', func=m)]
                        return [Target('ext', name=f'{r[2].fq}.{attr}')]
            # super().__init__()
            if isinstance(base, ast.Call) and isinstance(base.func, ast.Name) and base.func.id == 'super' \
                    and fi is not None and fi.cls is not None:
                for c in fi.cls.mro()[1:]:
                    if attr in c.methods:
                        return [Target('func', func=c.methods[attr])]
                return [Target('ext', name=f'object.{attr}')]
            # cls.method inside classmethod
            if isinstance(base, ast.Name) and base.id == 'cls' and fi is not None and fi.cls is not None \
                    and 'classmethod' in fi.decorators():
                m = fi.cls.find_method(attr)
                if m is not None:
                    return [Target('func', func=m)]
            classes = self.class_of(base, fi, module, depth + 1)
            if classes:
                out = []
                seen = set()
                for cfq in sorted(classes):
                    c = self._classes[cfq]
                    m = c.find_method(attr)
                    cands = [m] if m is not None else []
                    for sub in self.repo.subclasses(c):
                        if attr in sub.methods:
                            cands.append(sub.methods[attr])
                    for m in cands:
                        if m.fq not in seen:
                            seen.add(m.fq)
                            out.append(Target('func', func=m))
                    if m is None and not cands:
                        # attribute holding a callable / inherited from an external base
                        out.append(Target('ext', name=f'{cfq}.{attr}'))
                return out
            return [Target('method?', name=f'?.{attr}')]
        if isinstance(fexpr, ast.Lambda):
            return [Target('unknown', name='lambda')]
        return [Target('unknown', name=norm(fexpr))]

    def _targets_of_resolved(self, r, label: str) -> List[Target]:
        if r[0] == 'func':
            return [Target('func', func=r[2])]
        if r[0] == 'class':
            return [Target('class', cls=r[2])]
        if r[0] == 'const':
            m = r[1]
            v = m.constants[r[2]]
            if isinstance(v, (ast.Name, ast.Attribute)):
                return self.resolve_expr(v, None, m)
            return [Target('unknown', name=f'const:{m.name}.{r[2]}')]
        if r[0] == 'external':
            return [Target('ext', name=r[2])]
        if r[0] == 'module':
            return [Target('unknown', name=f'module:{r[1].name}')]
        return [Target('unknown', name=label)]

    def _table_functions(self, v: ast.AST, module: Module) -> Optional[List[Target]]:
        """TABLE[key] / TABLE.get(key[, default]) with TABLE a module-level dict literal whose values are functions of
        the package: every function in the table (dispatch tables)."""
        tab = None
        if isinstance(v, ast.Subscript) and isinstance(v.value, ast.Name):
            tab = v.value.id
        elif isinstance(v, ast.Call) and isinstance(v.func, ast.Attribute) and v.func.attr == 'get' and isinstance(v.func.value, ast.Name):
            tab = v.func.value.id
        if tab is None:
            return None
        r = self.repo.resolve_name(module, tab)
        if r[0] != 'const' or not isinstance(r[1].constants[r[2]], ast.Dict):
            return None
        out: List[Target] = []
        for x in r[1].constants[r[2]].values:
            if not isinstance(x, ast.Name):
                return None
            rx = self.repo.resolve_name(r[1], x.id)
            if rx[0] != 'func':
                return None
            if not any(t.func is rx[2] for t in out):
                out.append(Target('func', func=rx[2]))
        return out or None

    def resolve_call(self, call: ast.Call, fi: Optional[FuncInfo], module: Optional[Module] = None) -> List[Target]:
        if isinstance(call.func, (ast.Subscript, ast.Call)):
            t = self._table_functions(call.func, module or fi.module)
            if t is not None:
                return t
        return self.resolve_expr(call.func, fi, module or fi.module)

    # -- class solving (param and attribute classes) -----------------------------------------
    def _solve_classes(self):
        repo = self.repo
        funcs = repo.all_functions()
        # seeds: annotations
        for fi in funcs:
            a = fi.node.args
            for arg in a.posonlyargs + a.args + a.kwonlyargs:
                cs = self.ann_classes(arg.annotation, fi.module)
                if cs:
                    self.param_classes[(fi.fq, arg.arg)] = set(cs)
        for _ in range(8):
            changed = False
            # attributes assigned in methods: self.x = <expr>
            for fi in funcs:
                if fi.cls is None:
                    continue
                for n in walk_local(fi.node):
                    tgts = []
                    if isinstance(n, ast.Assign):
                        tgts = [(t, n.value) for t in n.targets]
                    elif isinstance(n, ast.AnnAssign) and n.value is not None:
                        tgts = [(n.target, n.value)]
                    for t, v in tgts:
                        if isinstance(t, ast.Attribute) and isinstance(t.value, ast.Name) and t.value.id == 'self':
                            cs = self.class_of(v, fi, fi.module)
                            if cs:
                                key = (fi.cls.fq, t.attr)
                                old = self.attr_classes.setdefault(key, set())
                                if not cs <= old:
                                    old |= cs
                                    changed = True
            # call sites -> parameter classes
            for fi in funcs:
                for call in (n for n in walk_local(fi.node) if isinstance(n, ast.Call)):
                    for t in self.resolve_call(call, fi):
                        callee = None
                        skip_self = 0
                        if t.kind == 'func':
                            callee = t.func
                            if callee.is_method() and 'staticmethod' not in callee.decorators() \
                                    and not (isinstance(call.func, ast.Attribute) and isinstance(call.func.value, ast.Name)
                                             and self.repo.resolve_name(fi.module, call.func.value.id)[0] == 'class'):
                                skip_self = 1
                        elif t.kind == 'class':
                            callee = t.cls.find_method('__init__')
                            skip_self = 1
                        if callee is None:
                            continue
                        pos = callee.positional[skip_self:]
                        for i, a in enumerate(call.args):
                            if isinstance(a, ast.Starred) or i >= len(pos):
                                break
                            changed |= self._flow_arg(a, fi, callee, pos[i])
                        for kw in call.keywords:
                            if kw.arg is not None and kw.arg in callee.params:
                                changed |= self._flow_arg(kw.value, fi, callee, kw.arg)
            if not changed:
                break

    def _flow_arg(self, a, fi, callee, pname) -> bool:
        cs = self.class_of(a, fi, fi.module)
        if not cs:
            return False
        old = self.param_classes.setdefault((callee.fq, pname), set())
        if cs <= old:
            return False
        old |= cs
        return True

    # -- graph -----------------------------------------------------------------------------
    def _build(self):
        self.unresolved: List[str] = []
        self.n_calls = 0
        for fi in self.repo.all_functions():
            lst = []
            for call in (n for n in walk_local(fi.node) if isinstance(n, ast.Call)):
                ts = self.resolve_call(call, fi)
                self.n_calls += 1
                if all(t.kind in ('unknown',) for t in ts):
                    self.unresolved.append(f'{fi.loc(call)}: {norm(call.func)}')
                lst.append((call, ts))
                for t in ts:
                    callee = None
                    if t.kind == 'func':
                        callee = t.func
                    elif t.kind == 'class':
                        callee = t.cls.find_method('__init__')
                    if callee is not None:
                        self.callers.setdefault(callee.fq, []).append((fi, call))
            self.edges[fi.fq] = lst

    def callees(self, fi: FuncInfo) -> List[FuncInfo]:
        out, seen = [], set()
        for call, ts in self.edges.get(fi.fq, []):
            for t in ts:
                c = t.func if t.kind == 'func' else (t.cls.find_method('__init__') if t.kind == 'class' else None)
                if c is not None and c.fq not in seen:
                    seen.add(c.fq)
                    out.append(c)
        # nested functions defined here are reachable when referenced (sort keys passed as values)
        for nf in fi.nested.values():
            if nf.fq not in seen:
                seen.add(nf.fq)
                out.append(nf)
        # module-level functions handed over as values: map(f, xs), filter(f, xs), sorted(xs, key=f), partial(f, ...)
        for n in walk_local(fi.node):
            if isinstance(n, ast.Call) and isinstance(n.func, ast.Name) and n.func.id in ('map', 'filter', 'sorted', 'min', 'max', 'partial', 'starmap', 'reduce', 'filterfalse'):
                cands = list(n.args) + [k.value for k in n.keywords if k.arg == 'key']
                for a in cands:
                    if isinstance(a, ast.Name):
                        r = self.repo.resolve_name(fi.module, a.id)
                        if r and r[0] == 'func' and r[2].fq not in seen:
                            seen.add(r[2].fq)
                            out.append(r[2])
        return out

    def reachable(self, roots: List[FuncInfo]) -> List[FuncInfo]:
        seen: Dict[str, FuncInfo] = {}
        stack = list(roots)
        while stack:
            f = stack.pop()
            if f.fq in seen:
                continue
            seen[f.fq] = f
            stack.extend(self.callees(f))
        return list(seen.values())

    def calls_in(self, fi: FuncInfo) -> List[Tuple[ast.Call, List[Target]]]:
        return self.edges.get(fi.fq, [])

    def resolution_stats(self) -> dict:
        return {'calls': self.n_calls, 'unresolved': len(self.unresolved),
                'unresolved_list': self.unresolved[:40]}
