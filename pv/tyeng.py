"""E3 - structural types: annotation-seeded, interprocedural, flow-sensitive through reaching
definitions.  A type is a frozenset of atoms (a union); atoms are tuples:

  ('str',) ('int',) ('float',) ('bool',) ('none',) ('any',)
  ('Var',) ('Role',) ('Const',)         semantic strings/constants of penman.types
  ('Atom',)                             raw atomic branch target of a tree (may carry ~alignment)
  ('Node',) ('Branch',) ('Triple',)     nominal tuples with projection rules
  ('tuple', (T, ...)) ('list', T) ('set', T) ('dict', K, V) ('iter', T)
  ('inst', class fq) ('cls', class fq) ('func', fq) ('ext', dotted name)
"""
from __future__ import annotations

import ast
from typing import Dict, FrozenSet, List, Optional, Set, Tuple

from .callgraph import CallGraph
from .cfg import CFG, owner_node, reaching_defs
from .src import AnalysisError, ClassInfo, FuncInfo, Module, Repo, dotted, norm, walk_local

T = FrozenSet[tuple]
EMPTY: T = frozenset()
ANY: T = frozenset([('any',)])
STR: T = frozenset([('str',)])
INT: T = frozenset([('int',)])
FLOAT: T = frozenset([('float',)])
BOOL: T = frozenset([('bool',)])
NONE: T = frozenset([('none',)])
VAR: T = frozenset([('Var',)])
ROLE: T = frozenset([('Role',)])
CONST: T = frozenset([('Const',)])
ATOM: T = frozenset([('Atom',)])
NODE: T = frozenset([('Node',)])
BRANCH: T = frozenset([('Branch',)])
TRIPLE: T = frozenset([('Triple',)])
TARGET: T = VAR | CONST

MAXDEPTH = 5


def tlist(t: T) -> T:
    return frozenset([('list', t)])


def tset(t: T) -> T:
    return frozenset([('set', t)])


def tdict(k: T, v: T) -> T:
    return frozenset([('dict', k, v)])


def titer(t: T) -> T:
    return frozenset([('iter', t)])


def ttuple(*ts: T) -> T:
    return frozenset([('tuple', tuple(ts))])


def inst(fq: str) -> T:
    return frozenset([('inst', fq)])


def depth(t: T) -> int:
    d = 0
    for a in t:
        for x in a[1:]:
            if isinstance(x, frozenset):
                d = max(d, 1 + depth(x))
            elif isinstance(x, tuple):
                for y in x:
                    if isinstance(y, frozenset):
                        d = max(d, 1 + depth(y))
    return d


def clip(t: T) -> T:
    return t if depth(t) <= MAXDEPTH else ANY


def has(t: T, kind: str) -> bool:
    return any(a[0] == kind for a in t)


def show(t: T) -> str:
    def one(a):
        k = a[0]
        if k in ('list', 'set', 'iter'):
            return f'{k}[{show(a[1])}]'
        if k == 'dict':
            return f'dict[{show(a[1])}, {show(a[2])}]'
        if k == 'tuple':
            return '(' + ', '.join(show(x) for x in a[1]) + ')'
        if k in ('inst', 'cls', 'func', 'ext'):
            return f'{k}:{a[1].split(":")[-1]}'
        return k
    return '|'.join(sorted(one(a) for a in t)) if t else '?'


def elem(t: T) -> T:
    """Element type when iterating a value of type t."""
    out: Set[tuple] = set()
    for a in t:
        k = a[0]
        if k in ('list', 'set', 'iter'):
            out |= a[1]
        elif k == 'dict':
            out |= a[1]
        elif k == 'tuple':
            for x in a[1]:
                out |= x
        elif k == 'Triple':
            out |= VAR | ROLE | TARGET
        elif k == 'Node':
            out |= VAR | tlist(BRANCH)
        elif k == 'Branch':
            out |= ROLE | ATOM | NODE
        elif k in ('str', 'Var', 'Role', 'Atom'):
            out |= STR
        elif k == 'any':
            out |= ANY
        elif k == 'Const':
            out |= STR
    return frozenset(out)


def project(t: T, idx: Optional[int], n: Optional[int] = None) -> T:
    """t[idx] for constant idx (None = unknown index)."""
    out: Set[tuple] = set()
    for a in t:
        k = a[0]
        if k == 'tuple':
            if idx is not None and -len(a[1]) <= idx < len(a[1]):
                out |= a[1][idx]
            elif idx is None:
                for x in a[1]:
                    out |= x
        elif k == 'Triple':
            out |= {0: VAR, 1: ROLE, 2: TARGET, -1: TARGET, -2: ROLE, -3: VAR}.get(idx, VAR | ROLE | TARGET)
        elif k == 'Node':
            out |= {0: VAR, 1: tlist(BRANCH), -1: tlist(BRANCH), -2: VAR}.get(idx, VAR | tlist(BRANCH))
        elif k == 'Branch':
            out |= {0: ROLE, 1: ATOM | NODE, -1: ATOM | NODE, -2: ROLE}.get(idx, ROLE | ATOM | NODE)
        elif k in ('list', 'iter'):
            out |= a[1]
        elif k == 'dict':
            out |= a[2]
        elif k in ('str', 'Var', 'Role', 'Atom', 'Const'):
            out |= STR
        elif k == 'any':
            out |= ANY
    return frozenset(out)


def subscript_value(t: T) -> T:
    """t[key] for a non-constant key."""
    out: Set[tuple] = set()
    for a in t:
        if a[0] == 'dict':
            out |= a[2]
        else:
            out |= project(frozenset([a]), None)
    return frozenset(out)


class FuncTypes:
    """Per-function typing context."""

    def __init__(self, eng: 'TypeEngine', fi: FuncInfo):
        self.eng = eng
        self.fi = fi
        self.cfg = CFG(fi.node)
        self.pm = eng.repo.parent_map(fi.node)
        self.rd = reaching_defs(self.cfg, fi.params)
        self.def_types: Dict[Tuple[str, int], T] = {}
        self.ret: T = EMPTY
        self.comp_env: Dict[int, Dict[str, T]] = {}    # id(comprehension node) -> bindings

    # -- names -----------------------------------------------------------------------------
    def name_type(self, name: str, at: ast.AST) -> T:
        # comprehension-bound names first
        n = at
        while id(n) in self.pm:
            child = n
            n = self.pm[id(n)]
            if isinstance(n, ast.comprehension):
                continue
            if isinstance(n, (ast.ListComp, ast.SetComp, ast.GeneratorExp, ast.DictComp)):
                # which generators are in scope at `child`?
                upto = len(n.generators)
                for gi, g in enumerate(n.generators):
                    if child is g:
                        # inside generator gi: its iter sees generators[:gi]; its ifs see [:gi+1]
                        inner = at
                        in_iter = any(x is at for x in ast.walk(g.iter))
                        upto = gi if in_iter else gi + 1
                        break
                env = self.comp_bindings(n, upto)
                if name in env:
                    return env[name]
            if isinstance(n, ast.Lambda):
                if name in [a.arg for a in n.args.args]:
                    return ANY
        try:
            node = owner_node(self.cfg, self.pm, at)
        except (KeyError, AnalysisError):
            return EMPTY
        defs = self.rd.get(node, {}).get(name)
        if defs is None:
            return self.outer_name(name)
        out: Set[tuple] = set()
        for d in defs:
            out |= self.def_types.get((name, d), EMPTY)
        return frozenset(out)

    def outer_name(self, name: str) -> T:
        f = self.fi.parent
        while f is not None:
            ft = self.eng.ft(f)
            if name in f.params or name in self.eng.cg.local_assigns(f):
                out: Set[tuple] = set()
                for (n, d), t in ft.def_types.items():
                    if n == name:
                        out |= t
                return frozenset(out)
            if name in f.nested:
                return frozenset([('func', f.nested[name].fq)])
            f = f.parent
        if name in self.fi.nested:
            return frozenset([('func', self.fi.nested[name].fq)])
        return self.eng.global_name(self.fi.module, name)

    def comp_bindings(self, comp, upto: Optional[int] = None) -> Dict[str, T]:
        env: Dict[str, T] = {}
        gens = comp.generators if upto is None else comp.generators[:upto]
        for g in gens:
            it = self.expr(g.iter)
            self.bind(g.target, elem(it), env)
        return env

    def bind(self, target, t: T, env: Dict[str, T]):
        if isinstance(target, ast.Name):
            env[target.id] = env.get(target.id, EMPTY) | t
        elif isinstance(target, (ast.Tuple, ast.List)):
            n = len(target.elts)
            for i, e in enumerate(target.elts):
                if isinstance(e, ast.Starred):
                    self.bind(e.value, tlist(project(t, None)), env)
                else:
                    self.bind(e, project(t, i, n), env)

    # -- expressions -----------------------------------------------------------------------
    def expr(self, e: ast.AST) -> T:
        return clip(self._expr(e))

    def _expr(self, e: ast.AST) -> T:
        eng = self.eng
        if isinstance(e, ast.Constant):
            v = e.value
            if v is None:
                return NONE
            if isinstance(v, bool):
                return BOOL
            if isinstance(v, int):
                return INT
            if isinstance(v, float):
                return FLOAT
            if isinstance(v, str):
                return STR
            return ANY
        if isinstance(e, ast.Name):
            return self.name_type(e.id, e)
        if isinstance(e, ast.JoinedStr):
            return STR
        if isinstance(e, (ast.Tuple,)):
            return ttuple(*[self.expr(x.value if isinstance(x, ast.Starred) else x) for x in e.elts])
        if isinstance(e, ast.List):
            t: Set[tuple] = set()
            for x in e.elts:
                t |= self.expr(x)
            return tlist(frozenset(t))
        if isinstance(e, ast.Set):
            t = set()
            for x in e.elts:
                t |= self.expr(x)
            return tset(frozenset(t))
        if isinstance(e, ast.Dict):
            k: Set[tuple] = set()
            v: Set[tuple] = set()
            for kk, vv in zip(e.keys, e.values):
                if kk is None:
                    d = self.expr(vv)
                    for a in d:
                        if a[0] == 'dict':
                            k |= a[1]
                            v |= a[2]
                else:
                    k |= self.expr(kk)
                    v |= self.expr(vv)
            return tdict(frozenset(k), frozenset(v))
        if isinstance(e, (ast.ListComp, ast.SetComp, ast.GeneratorExp)):
            self.comp_bindings(e)
            et = self.expr(e.elt)
            return {ast.ListComp: tlist, ast.SetComp: tset, ast.GeneratorExp: titer}[type(e)](et)
        if isinstance(e, ast.DictComp):
            self.comp_bindings(e)
            return tdict(self.expr(e.key), self.expr(e.value))
        if isinstance(e, ast.Attribute):
            return self.attribute(e)
        if isinstance(e, ast.Subscript):
            base = self.expr(e.value)
            if isinstance(e.slice, ast.Slice):
                out: Set[tuple] = set()
                for a in base:
                    if a[0] in ('list',):
                        out.add(a)
                    elif a[0] == 'tuple':
                        out |= tlist(project(frozenset([a]), None))
                    elif a[0] in ('str', 'Var', 'Role', 'Atom', 'Const'):
                        out |= STR
                    elif a[0] == 'Triple':
                        out |= ttuple(VAR, TARGET) if norm(e.slice) == '::2' else tlist(VAR | ROLE | TARGET)
                    elif a[0] == 'any':
                        out |= ANY
                return frozenset(out)
            idx = None
            if isinstance(e.slice, ast.Constant) and isinstance(e.slice.value, int):
                idx = e.slice.value
            elif isinstance(e.slice, ast.UnaryOp) and isinstance(e.slice.op, ast.USub) \
                    and isinstance(e.slice.operand, ast.Constant):
                idx = -e.slice.operand.value
            if idx is not None:
                return project(base, idx)
            return subscript_value(base)
        if isinstance(e, ast.Call):
            return self.call(e)
        if isinstance(e, ast.BinOp):
            l, r = self.expr(e.left), self.expr(e.right)
            if isinstance(e.op, ast.Add):
                if has(l, 'list') or has(r, 'list'):
                    return frozenset(a for a in l | r if a[0] == 'list')
                if has(l, 'tuple') and has(r, 'tuple'):
                    return tlist(project(l, None) | project(r, None)) | frozenset()
                if any(has(l, k) for k in ('str', 'Var', 'Role', 'Atom', 'Const')):
                    return STR
                return l | r
            if isinstance(e.op, (ast.Sub, ast.BitOr, ast.BitAnd, ast.BitXor)):
                if has(l, 'set') or has(r, 'set'):
                    return frozenset(a for a in l | r if a[0] == 'set')
                return l | r
            if isinstance(e.op, ast.Mult):
                if has(l, 'str') or has(r, 'str'):
                    return STR
                if has(l, 'list'):
                    return l
                return l | r
            if isinstance(e.op, ast.Mod) and has(l, 'str'):
                return STR
            return l | r
        if isinstance(e, ast.BoolOp):
            out = set()
            for v in e.values:
                out |= self.expr(v)
            return frozenset(out)
        if isinstance(e, ast.UnaryOp):
            if isinstance(e.op, ast.Not):
                return BOOL
            return self.expr(e.operand)
        if isinstance(e, ast.Compare):
            return BOOL
        if isinstance(e, ast.IfExp):
            return self.expr(e.body) | self.expr(e.orelse)
        if isinstance(e, ast.Lambda):
            return ANY
        if isinstance(e, ast.Starred):
            return self.expr(e.value)
        if isinstance(e, ast.NamedExpr):
            return self.expr(e.value)
        if isinstance(e, (ast.Yield, ast.YieldFrom, ast.Await)):
            return ANY
        if isinstance(e, ast.FormattedValue):
            return STR
        return ANY

    def attribute(self, e: ast.Attribute) -> T:
        eng = self.eng
        base = e.value
        if isinstance(base, ast.Name):
            # module alias?
            local = base.id in self.fi.params or base.id in eng.cg.local_assigns(self.fi)
            if not local:
                r = eng.repo.resolve_name(self.fi.module, base.id)
                if r[0] == 'module':
                    return eng.global_qualified(f'{r[1].name}.{e.attr}')
                if r[0] in ('external',) or (r[0] == 'unknown' and base.id in self.fi.module.imports):
                    return frozenset([('ext', f'{self.fi.module.imports.get(base.id, base.id)}.{e.attr}')])
        bt = self.expr(base)
        out: Set[tuple] = set()
        for a in bt:
            if a[0] == 'inst':
                out |= eng.attr_type(a[1], e.attr)
            elif a[0] == 'cls':
                out |= eng.attr_type(a[1], e.attr)
            elif a[0] == 'any':
                out |= ANY
            elif a[0] == 'ext':
                out.add(('ext', f'{a[1]}.{e.attr}'))
            else:
                out.add(('method', a, e.attr))
        return frozenset(out)

    def call(self, e: ast.Call) -> T:
        eng = self.eng
        fn = e.func
        args = e.args
        # methods on builtin-typed receivers
        if isinstance(fn, ast.Attribute):
            recv = None
            d = dotted(fn.value)
            is_mod = False
            if d and '.' not in d:
                local = d in self.fi.params or d in eng.cg.local_assigns(self.fi) or self._comp_bound(d, e)
                if not local and eng.repo.resolve_name(self.fi.module, d)[0] in ('module', 'external', 'class'):
                    is_mod = True
                if not local and d in self.fi.module.imports and eng.repo.resolve_name(self.fi.module, d)[0] == 'unknown':
                    is_mod = True
            if not is_mod:
                recv = self.expr(fn.value)
                bt = self.builtin_method(recv, fn.attr, e)
                if bt is not None:
                    return bt
        ts = eng.cg.resolve_call(e, self.fi)
        out: Set[tuple] = set()
        for t in ts:
            if t.kind == 'func':
                s = eng.summary_return(t.func)
                out |= s if s is not None else eng.ft(t.func).ret if t.func.fq in eng._ft else eng.declared_return(t.func)
                if s is None:
                    out |= eng.returns.get(t.func.fq, EMPTY)
            elif t.kind == 'class':
                out |= inst(t.cls.fq)
            elif t.kind == 'ext':
                out |= self.ext_call(t.name, e)
            else:
                out |= ANY
        return frozenset(out)

    def _comp_bound(self, name: str, at: ast.AST) -> bool:
        n = at
        while id(n) in self.pm:
            n = self.pm[id(n)]
            if isinstance(n, (ast.ListComp, ast.SetComp, ast.GeneratorExp, ast.DictComp)):
                for g in n.generators:
                    if name in {x.id for x in ast.walk(g.target) if isinstance(x, ast.Name)}:
                        return True
        return False

    def builtin_method(self, recv: T, attr: str, e: ast.Call) -> Optional[T]:
        """Result type of recv.attr(...) when recv is a builtin-typed value; None = not builtin."""
        out: Set[tuple] = set()
        handled = False
        for a in recv:
            k = a[0]
            if k in ('str', 'Var', 'Role', 'Atom', 'Const'):
                handled = True
                if attr in ('partition', 'rpartition'):
                    out |= ttuple(STR, STR, STR)
                elif attr in ('split', 'rsplit', 'splitlines'):
                    out |= tlist(STR)
                elif attr in ('startswith', 'endswith', 'isalpha', 'isdigit', 'isspace', 'isidentifier'):
                    out |= BOOL
                elif attr in ('index', 'rindex', 'find', 'rfind', 'count'):
                    out |= INT
                elif attr == 'format':
                    out |= STR
                elif attr == 'join':
                    out |= STR
                else:
                    out |= STR
            elif k == 'list':
                handled = True
                if attr in ('copy',):
                    out.add(a)
                elif attr == 'pop':
                    out |= a[1]
                elif attr in ('index', 'count'):
                    out |= INT
                else:
                    out |= NONE
            elif k == 'set':
                handled = True
                if attr in ('copy', 'difference', 'union', 'intersection', 'symmetric_difference'):
                    out.add(a)
                elif attr == 'pop':
                    out |= a[1]
                elif attr in ('issubset', 'issuperset', 'isdisjoint'):
                    out |= BOOL
                else:
                    out |= NONE
            elif k == 'dict':
                handled = True
                if attr == 'get':
                    out |= a[2]
                    out |= self.expr(e.args[1]) if len(e.args) > 1 else NONE
                elif attr in ('pop', 'setdefault'):
                    out |= a[2]
                    if len(e.args) > 1:
                        out |= self.expr(e.args[1])
                elif attr == 'items':
                    out |= titer(ttuple(a[1], a[2]))
                elif attr == 'values':
                    out |= titer(a[2])
                elif attr == 'keys':
                    out |= titer(a[1])
                elif attr == 'copy':
                    out.add(a)
                else:
                    out |= NONE
            elif k == 'iter':
                handled = True
                out |= ANY
            elif k == 'tuple':
                handled = True
                out |= INT if attr in ('index', 'count') else ANY
        return frozenset(out) if handled else None

    def ext_call(self, name: str, e: ast.Call) -> T:
        args = e.args
        a0 = self.expr(args[0]) if args else EMPTY
        short = name.split('.', 1)[1] if name.startswith('builtins.') else name
        if short in ('len', 'int', 'id', 'hash', 'ord'):
            return INT
        if short in ('str', 'repr', 'format', 'chr'):
            return STR
        if short == 'float':
            return FLOAT
        if short in ('bool', 'isinstance', 'hasattr', 'callable', 'issubclass', 'any', 'all'):
            return BOOL
        if short == 'list':
            return tlist(elem(a0))
        if short in ('set', 'frozenset'):
            return tset(elem(a0))
        if short == 'tuple':
            return tlist(elem(a0))
        if short == 'sorted':
            return tlist(elem(a0))
        if short in ('reversed', 'iter'):
            return titer(elem(a0))
        if short == 'dict':
            if not args:
                return tdict(EMPTY, EMPTY)
            out = frozenset(a for a in a0 if a[0] == 'dict')
            if out:
                return out
            el = elem(a0)
            return tdict(project(el, 0), project(el, 1))
        if short == 'enumerate':
            return titer(ttuple(INT, elem(a0)))
        if short == 'zip':
            return titer(ttuple(*[elem(self.expr(a)) for a in args]))
        if short == 'range':
            return titer(INT)
        if short == 'map':
            return titer(ANY)
        if short == 'filter':
            return titer(elem(self.expr(args[1]))) if len(args) > 1 else titer(ANY)
        if short == 'next':
            t = elem(a0)
            if len(args) > 1:
                t |= self.expr(args[1])
            return t
        if short in ('max', 'min', 'sum', 'abs'):
            return elem(a0) if len(args) == 1 else frozenset().union(*[self.expr(a) for a in args])
        if short in ('copy.deepcopy', 'copy.copy'):
            return a0
        if short in ('typing.cast', 'cast'):
            if len(args) == 2:
                t = self.eng.ann(args[0], self.fi.module)
                return t or self.expr(args[1])
        if short in ('collections.defaultdict', 'defaultdict'):
            v = EMPTY
            if args:
                if isinstance(args[0], ast.Name) and args[0].id == 'list':
                    v = tlist(EMPTY)
                elif isinstance(args[0], ast.Name) and args[0].id == 'int':
                    v = INT
            return tdict(EMPTY, v)
        if short == 'open':
            return titer(STR)
        if short in ('print', 'setattr'):
            return NONE
        if short == 'getattr':
            return ANY
        if short == 'super':
            return ANY
        if short.startswith('re.') or short.startswith('json.') or short.startswith('logging.'):
            return frozenset([('ext', short + '()')])
        if short == 'random.random':
            return FLOAT
        if short == 'type':
            return ANY
        return ANY

    # -- solve -----------------------------------------------------------------------------
    def update(self) -> bool:
        """One pass over the function: recompute the type of every definition.  True if changed."""
        changed = False
        fi = self.fi
        eng = self.eng
        # parameters
        for p in fi.params:
            t = eng.param_type(fi, p)
            changed |= self._set((p, self.cfg.entry), t)
        for nd in self.cfg.nodes:
            st = nd.ast
            if nd.kind == 'stmt':
                if isinstance(st, ast.Assign):
                    vt = self.expr(st.value)
                    for tg in st.targets:
                        changed |= self._bind_def(tg, vt, nd.id)
                elif isinstance(st, ast.AnnAssign):
                    at = eng.ann(st.annotation, fi.module)
                    vt = self.expr(st.value) if st.value is not None else EMPTY
                    # an annotation refines an empty container literal; otherwise union
                    t = at if (at and (not vt or _is_empty_container(vt))) else (vt | at if not vt else vt | at)
                    changed |= self._bind_def(st.target, t, nd.id)
                elif isinstance(st, ast.AugAssign):
                    if isinstance(st.target, ast.Name):
                        cur = self.name_type(st.target.id, st)
                        vt = self.expr(st.value)
                        if isinstance(st.op, ast.Add) and (has(cur, 'str') or has(cur, 'Atom') or has(cur, 'Role')):
                            t = cur
                        else:
                            t = cur | (vt if not has(cur, 'list') else EMPTY)
                        changed |= self._set((st.target.id, nd.id), t)
                elif isinstance(st, (ast.With, ast.AsyncWith)):
                    for it in st.items:
                        if it.optional_vars is not None:
                            changed |= self._bind_def(it.optional_vars, self.expr(it.context_expr), nd.id)
                elif isinstance(st, (ast.FunctionDef, ast.AsyncFunctionDef)):
                    changed |= self._set((st.name, nd.id), frozenset([('func', f'{fi.module.name}:{fi.qualname}.{st.name}')]))
                elif isinstance(st, ast.Return) and st.value is not None:
                    t = self.expr(st.value)
                    if not t <= self.ret:
                        self.ret = clip(self.ret | t)
                        changed = True
                elif isinstance(st, (ast.Import, ast.ImportFrom)):
                    for a in st.names:
                        nm = a.asname or a.name.split('.')[0]
                        if isinstance(st, ast.ImportFrom):
                            t = eng.global_qualified(f'{st.module}.{a.name}')
                        else:
                            t = frozenset([('ext', a.name)])
                        changed |= self._set((nm, nd.id), t)
            elif nd.kind == 'for':
                changed |= self._bind_def(st.target, elem(self.expr(st.iter)), nd.id)
            elif nd.kind == 'handler' and st.name:
                changed |= self._set((st.name, nd.id), ANY)
        # yields
        for n in walk_local(fi.node):
            if isinstance(n, ast.Yield) and n.value is not None:
                t = titer(self.expr(n.value))
                if not t <= self.ret:
                    self.ret = clip(self.ret | t)
                    changed = True
            elif isinstance(n, ast.YieldFrom):
                t = titer(elem(self.expr(n.value)))
                if not t <= self.ret:
                    self.ret = clip(self.ret | t)
                    changed = True
        return changed

    def _bind_def(self, target, t: T, nid: int) -> bool:
        env: Dict[str, T] = {}
        self.bind(target, t, env)
        ch = False
        for k, v in env.items():
            ch |= self._set((k, nid), v)
        return ch

    def _set(self, key, t: T) -> bool:
        t = clip(t)
        old = self.def_types.get(key, EMPTY)
        if t <= old:
            return False
        self.def_types[key] = clip(old | t)
        return True


def _is_empty_container(t: T) -> bool:
    for a in t:
        if a[0] in ('list', 'set') and not a[1]:
            continue
        if a[0] == 'dict' and not a[1] and not a[2]:
            continue
        return False
    return bool(t)


class TypeEngine:
    # functions whose result is stated here rather than inferred (trusted summaries, see DESIGN E3)
    SUMMARIES = {
        'penman.layout:_process_atomic': ttuple(TARGET, tlist(inst('penman.epigraph:Epidatum'))),
        'penman.layout:_process_role': ttuple(ROLE, tlist(inst('penman.epigraph:Epidatum'))),
        'penman.tree:is_atomic': BOOL,
    }
    ALIASES = {
        'penman.types.Variable': VAR, 'penman.types.Role': ROLE, 'penman.types.Constant': CONST,
        'penman.types.Target': TARGET, 'penman.types.BasicTriple': TRIPLE, 'penman.types.Triples': titer(TRIPLE),
        'penman.types.Branch': BRANCH, 'penman.types.Node': NODE,
        'penman.epigraph.Epidata': tlist(inst('penman.epigraph:Epidatum')),
    }

    def __init__(self, repo: Repo, cg: CallGraph):
        self.repo = repo
        self.cg = cg
        self._ft: Dict[str, FuncTypes] = {}
        self.param_types: Dict[Tuple[str, str], T] = {}
        self.returns: Dict[str, T] = {}
        self.attr_types: Dict[Tuple[str, str], T] = {}
        self._classes = {c.fq: c for c in repo.all_classes()}
        self.rounds = 0
        self._solve()

    def ft(self, fi: FuncInfo) -> FuncTypes:
        if fi.fq not in self._ft:
            self._ft[fi.fq] = FuncTypes(self, fi)
        return self._ft[fi.fq]

    # -- annotations -----------------------------------------------------------------------
    def ann(self, a: Optional[ast.AST], module: Module, depth_: int = 0) -> T:
        if a is None or depth_ > 8:
            return EMPTY
        if isinstance(a, ast.Constant):
            if a.value is None:
                return NONE
            if isinstance(a.value, str):
                try:
                    return self.ann(ast.parse(a.value, mode='eval').body, module, depth_ + 1)
                except SyntaxError:
                    return EMPTY
            return EMPTY
        if isinstance(a, ast.Name):
            prim = {'str': STR, 'int': INT, 'float': FLOAT, 'bool': BOOL, 'None': NONE, 'Any': ANY, 'object': ANY,
                    'list': tlist(EMPTY), 'dict': tdict(EMPTY, EMPTY), 'set': tset(EMPTY), 'tuple': ANY}
            if a.id in prim and a.id not in module.constants and a.id not in module.imports:
                return prim[a.id]
            q = module.imports.get(a.id)
            if q in self.ALIASES:
                return self.ALIASES[q]
            if f'{module.name}.{a.id}' in self.ALIASES:
                return self.ALIASES[f'{module.name}.{a.id}']
            r = self.repo.resolve_name(module, a.id)
            if r[0] == 'class':
                return inst(r[2].fq)
            if r[0] == 'const':
                qq = f'{r[1].name}.{r[2]}'
                if qq in self.ALIASES:
                    return self.ALIASES[qq]
                return self.ann(r[1].constants[r[2]], r[1], depth_ + 1)
            if q and q.startswith('typing.'):
                return {'Any': ANY}.get(a.id, ANY)
            return EMPTY
        if isinstance(a, ast.Attribute):
            d = dotted(a)
            if d:
                head = d.split('.')[0]
                r = self.repo.resolve_name(module, head)
                if r[0] == 'module':
                    return self.ann(ast.Name(id=a.attr, ctx=ast.Load()), r[1], depth_ + 1)
            return EMPTY
        if isinstance(a, ast.Subscript):
            base = (dotted(a.value) or '').split('.')[-1]
            sl = a.slice
            elts = list(sl.elts) if isinstance(sl, ast.Tuple) else [sl]
            sub = [self.ann(x, module, depth_ + 1) for x in elts]
            if base in ('Optional',):
                return sub[0] | NONE
            if base == 'Union':
                return frozenset().union(*sub)
            if base in ('List', 'list', 'Sequence', 'MutableSequence'):
                return tlist(sub[0])
            if base in ('Set', 'set', 'FrozenSet', 'frozenset', 'AbstractSet'):
                return tset(sub[0])
            if base in ('Dict', 'dict', 'Mapping', 'MutableMapping', 'DefaultDict'):
                return tdict(sub[0], sub[1] if len(sub) > 1 else ANY)
            if base in ('Iterable', 'Iterator', 'Generator', 'Collection'):
                return titer(sub[0])
            if base in ('Tuple', 'tuple'):
                if len(elts) == 2 and isinstance(elts[1], ast.Constant) and elts[1].value is Ellipsis:
                    return tlist(sub[0])
                return ttuple(*sub)
            if base == 'Type':
                return frozenset(('cls', x[1]) for x in sub[0] if x[0] == 'inst') or ANY
            if base in ('Callable', 'Pattern', 'IO', 'Literal'):
                return ANY
            return ANY
        if isinstance(a, ast.BinOp) and isinstance(a.op, ast.BitOr):
            return self.ann(a.left, module, depth_ + 1) | self.ann(a.right, module, depth_ + 1)
        return EMPTY

    # -- tables ----------------------------------------------------------------------------
    def param_type(self, fi: FuncInfo, p: str) -> T:
        a = fi.node.args
        for arg in a.posonlyargs + a.args + a.kwonlyargs:
            if arg.arg == p:
                if p in ('self',) and fi.cls is not None and fi.positional and fi.positional[0] == p:
                    return inst(fi.cls.fq)
                if p == 'cls' and fi.cls is not None and 'classmethod' in fi.decorators():
                    return frozenset([('cls', fi.cls.fq)])
                t = self.ann(arg.annotation, fi.module)
                if t and t != ANY:
                    return t
                return self.param_types.get((fi.fq, p), EMPTY) | (t if t else EMPTY)
        if a.vararg and a.vararg.arg == p:
            return tlist(self.ann(a.vararg.annotation, fi.module) or self.param_types.get((fi.fq, p), EMPTY))
        if a.kwarg and a.kwarg.arg == p:
            return tdict(STR, ANY)
        return EMPTY

    def declared_return(self, fi: FuncInfo) -> T:
        return self.ann(fi.node.returns, fi.module)

    def summary_return(self, fi: FuncInfo) -> Optional[T]:
        return self.SUMMARIES.get(fi.fq)

    def attr_type(self, cfq: str, attr: str) -> T:
        c = self._classes.get(cfq)
        if c is None:
            return ANY
        out: Set[tuple] = set()
        for k in c.mro():
            if (k.fq, attr) in self.attr_types:
                out |= self.attr_types[(k.fq, attr)]
                break
            m = k.methods.get(attr)
            if m is not None:
                if 'property' in m.decorators():
                    out |= self.declared_return(m) | self.returns.get(m.fq, EMPTY)
                else:
                    out.add(('func', m.fq))
                break
            if attr in k.class_attrs:
                out |= self._class_attr_type(k, attr)
                break
        return frozenset(out)

    def _class_attr_type(self, k: ClassInfo, attr: str) -> T:
        # annotated field (NamedTuple) or class constant
        for b in k.node.body:
            if isinstance(b, ast.AnnAssign) and isinstance(b.target, ast.Name) and b.target.id == attr:
                return self.ann(b.annotation, k.module)
        v = k.class_attrs.get(attr)
        if isinstance(v, ast.Constant):
            return {int: INT, str: STR, float: FLOAT, bool: BOOL}.get(type(v.value), ANY)
        return ANY

    def global_name(self, module: Module, name: str) -> T:
        r = self.repo.resolve_name(module, name)
        return self._resolved_type(r)

    def global_qualified(self, q: str) -> T:
        return self._resolved_type(self.repo.resolve_qualified(q))

    def _resolved_type(self, r) -> T:
        if r[0] == 'func':
            return frozenset([('func', r[2].fq)])
        if r[0] == 'class':
            return frozenset([('cls', r[2].fq)])
        if r[0] == 'const':
            m, nm = r[1], r[2]
            key = f'{m.name}.{nm}'
            if key in self._const_cache:
                return self._const_cache[key]
            self._const_cache[key] = EMPTY
            t = self._const_type(m, m.constants[nm])
            self._const_cache[key] = t
            return t
        if r[0] == 'external':
            return frozenset([('ext', r[2])])
        return EMPTY

    _const_cache: Dict[str, T] = {}

    def _const_type(self, m: Module, v: ast.AST) -> T:
        if isinstance(v, ast.Constant):
            return {str: STR, int: INT, float: FLOAT, bool: BOOL, type(None): NONE}.get(type(v.value), ANY)
        if isinstance(v, ast.Dict):
            return tdict(STR, ANY)
        if isinstance(v, (ast.List, ast.Tuple)):
            return tlist(ANY)
        if isinstance(v, ast.Call):
            cs = self.cg.class_of(v, None, m)
            if cs:
                return frozenset(('inst', c) for c in cs)
        return ANY

    # -- fixpoint --------------------------------------------------------------------------
    def _solve(self):
        TypeEngine._const_cache = {}
        funcs = self.repo.all_functions()
        # NamedTuple / annotated class fields
        for c in self.repo.all_classes():
            for b in c.node.body:
                if isinstance(b, ast.AnnAssign) and isinstance(b.target, ast.Name):
                    self.attr_types[(c.fq, b.target.id)] = self.ann(b.annotation, c.module)
        for rnd in range(12):
            self.rounds = rnd + 1
            changed = False
            for fi in funcs:
                ft = self.ft(fi)
                changed |= ft.update()
                if not ft.ret <= self.returns.get(fi.fq, EMPTY):
                    self.returns[fi.fq] = clip(self.returns.get(fi.fq, EMPTY) | ft.ret)
                    changed = True
            # attribute stores
            for fi in funcs:
                if fi.cls is None:
                    continue
                ft = self.ft(fi)
                for n in walk_local(fi.node):
                    tgts = []
                    if isinstance(n, ast.Assign):
                        tgts = [(t, n.value) for t in n.targets]
                    elif isinstance(n, ast.AnnAssign) and n.value is not None:
                        tgts = [(n.target, n.value)]
                    for t, v in tgts:
                        if isinstance(t, ast.Attribute) and isinstance(t.value, ast.Name) and t.value.id == 'self':
                            vt = ft.expr(v)
                            key = (fi.cls.fq, t.attr)
                            old = self.attr_types.get(key, EMPTY)
                            if not vt <= old:
                                self.attr_types[key] = clip(old | vt)
                                changed = True
            # call sites -> parameter types
            for fi in funcs:
                ft = self.ft(fi)
                for call, ts in self.cg.calls_in(fi):
                    for t in ts:
                        callee, skip = None, 0
                        if t.kind == 'func':
                            callee = t.func
                            if callee.is_method() and 'staticmethod' not in callee.decorators():
                                skip = 1
                                if isinstance(call.func, ast.Attribute) and isinstance(call.func.value, ast.Name) and \
                                        self.repo.resolve_name(fi.module, call.func.value.id)[0] == 'class':
                                    skip = 0
                        elif t.kind == 'class':
                            callee = t.cls.find_method('__init__')
                            skip = 1
                        if callee is None:
                            continue
                        pos = callee.positional[skip:]
                        for i, a in enumerate(call.args):
                            if isinstance(a, ast.Starred):
                                break
                            if i >= len(pos):
                                if callee.node.args.vararg:
                                    changed |= self._flow(callee, callee.node.args.vararg.arg, ft.expr(a))
                                continue
                            changed |= self._flow(callee, pos[i], ft.expr(a))
                        for kw in call.keywords:
                            if kw.arg is not None and kw.arg in callee.params:
                                changed |= self._flow(callee, kw.arg, ft.expr(kw.value))
            if not changed:
                break
        else:
            raise AnalysisError('type propagation did not converge in 12 rounds')

    def _flow(self, callee: FuncInfo, p: str, t: T) -> bool:
        if not t:
            return False
        key = (callee.fq, p)
        old = self.param_types.get(key, EMPTY)
        if t <= old:
            return False
        self.param_types[key] = clip(old | t)
        return True

    # -- public ----------------------------------------------------------------------------
    def type_of(self, fi: FuncInfo, e: ast.AST) -> T:
        return self.ft(fi).expr(e)
