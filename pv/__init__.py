"""penman-verif: static analysis machinery deciding the properties in /verif/properties.jsonl.

Nothing in this package imports or executes penman.  Everything is computed from the source
text under $VERIF_REPO (default /repo) on every run.
"""
