"""E8 - rule registry, reports, context shared by all rules."""
from __future__ import annotations

import ast
from pathlib import Path
from typing import Callable, Dict, List, Optional

from .src import AnalysisError, FuncInfo, Repo, norm

OK, VIOLATION, EXCEPTION, INFO, UNDECIDED = 'ok', 'violation', 'exception', 'info', 'undecided'


class Instance:
    """One site a rule looked at.  key never contains a line number."""

    def __init__(self, rule: str, key: str, where: str, verdict: str, msg: str = '', **extra):
        self.rule = rule
        self.key = key
        self.where = where
        self.verdict = verdict
        self.msg = msg
        self.extra = extra

    def as_dict(self):
        d = {'rule': self.rule, 'key': self.key, 'where': self.where, 'verdict': self.verdict}
        if self.msg:
            d['msg'] = self.msg
        if self.extra:
            d.update(self.extra)
        return d


class RuleReport:
    def __init__(self, rule: str, title: str, floor: int = 1):
        self.rule = rule
        self.title = title
        self.floor = floor                # minimum number of instances confirmed by hand
        self.instances: List[Instance] = []
        self.notes: List[str] = []
        self.analysed: Dict[str, object] = {}
        self.assumptions: List[str] = []
        self.obligations: List[dict] = []  # for proof-level rules: {name, discharged, detail}

    # helpers -----------------------------------------------------------------------------
    def add(self, key: str, where: str, verdict: str, msg: str = '', **extra) -> Instance:
        # occurrence index keeps keys unique when the same construct appears twice in a function
        base = key
        n = sum(1 for i in self.instances if i.key == base or i.key.startswith(base + ' #'))
        if n:
            key = f'{base} #{n + 1}'
        inst = Instance(self.rule, key, where, verdict, msg, **extra)
        self.instances.append(inst)
        return inst

    def ok(self, key, where, msg='', **extra):
        return self.add(key, where, OK, msg, **extra)

    def violation(self, key, where, msg='', **extra):
        return self.add(key, where, VIOLATION, msg, **extra)

    def exception(self, key, where, msg='', **extra):
        return self.add(key, where, EXCEPTION, msg, **extra)

    def info(self, key, where, msg='', **extra):
        return self.add(key, where, INFO, msg, **extra)

    def undecided(self, key, where, msg='', **extra):
        """The rule could not recognise what it needs at this site: neither a pass nor a violation."""
        return self.add(key, where, UNDECIDED, msg, **extra)

    def oblige(self, name: str, discharged: bool, detail: str = '', where: str = '', key: Optional[str] = None,
               positive: bool = False):
        """A named obligation: recorded for proof-level evidence *and* as an instance.  positive=False: a
        failure only means the expected construct was not recognised (undecided, not a violation)."""
        self.obligations.append({'name': name, 'discharged': bool(discharged), 'detail': detail})
        self.add(key or name, where or self.rule, OK if discharged else (VIOLATION if positive else UNDECIDED), detail)

    def violations(self) -> List[Instance]:
        return [i for i in self.instances if i.verdict == VIOLATION]

    def undecideds(self) -> List[Instance]:
        return [i for i in self.instances if i.verdict == UNDECIDED]

    def counted(self) -> int:
        return sum(1 for i in self.instances if i.verdict in (OK, VIOLATION, EXCEPTION, UNDECIDED))


RULES: Dict[str, Callable] = {}
RULE_TITLES: Dict[str, str] = {}


def rule(rule_id: str, title: str):
    def deco(fn):
        RULES[rule_id] = fn
        RULE_TITLES[rule_id] = title
        fn.rule_id = rule_id
        fn.title = title
        return fn
    return deco


class Ctx:
    """Shared, lazily built engines over one source tree."""

    def __init__(self, repo: Repo, tier: str = 'quick'):
        self.repo = repo
        self.tier = tier
        self._cache: Dict[str, object] = {}
        self._reports: Dict[str, RuleReport] = {}

    def engine(self, name: str):
        if name not in self._cache:
            if name == 'cg':
                from .callgraph import CallGraph
                self._cache[name] = CallGraph(self.repo)
            elif name == 'types':
                from .tyeng import TypeEngine
                self._cache[name] = TypeEngine(self.repo, self.engine('cg'))
            elif name == 'effects':
                from .effects import EffectsEngine
                self._cache[name] = EffectsEngine(self.repo, self.engine('cg'), self.engine('types'))
            elif name == 'lex':
                from .lexmodel import LexModel
                self._cache[name] = LexModel(self.repo)
            else:
                raise KeyError(name)
        return self._cache[name]

    @property
    def cg(self):
        return self.engine('cg')

    @property
    def types(self):
        return self.engine('types')

    @property
    def effects(self):
        return self.engine('effects')

    @property
    def lex(self):
        return self.engine('lex')

    def run_rule(self, rule_id: str) -> RuleReport:
        if rule_id not in self._reports:
            if rule_id not in RULES:
                raise AnalysisError(f'rule {rule_id} is not implemented')
            rep = RULES[rule_id](self)
            if rep.undecideds() and not rep.violations():
                # the rule did not recognise the code it is about: fail closed (exit 2), never a violation
                u = rep.undecideds()
                raise AnalysisError(f'{rule_id}: {len(u)} site(s) not recognised, e.g. {u[0].where}: {u[0].key}'
                                    + (f' ({u[0].msg[:140]})' if u[0].msg else ''))
            if rep.counted() < rep.floor and not rep.violations():
                raise AnalysisError(
                    f'{rule_id}: only {rep.counted()} instance(s) found, floor is {rep.floor} '
                    f'(a rule matching too few sites would pass vacuously)')
            if rule_id in PROBES and not getattr(self, '_is_probe', False):
                _run_probe(rule_id)
            self._reports[rule_id] = rep
        return self._reports[rule_id]


# Rules whose expected number of findings on a healthy tree is zero keep a tiny positive example: on every run the rule is
# also applied to this source (a scratch package under $TMPDIR, removed at once) and must report at least the stated number
# of violations - otherwise the matcher has gone blind and the run fails closed.
PROBES: Dict[str, tuple] = {
    'R109': ('def f(a):\n    return a + undefined_name\n', 1),
    'R111': ("def f(line):\n    return line.rstrip(r'\\r\\n')\n", 1),
    'R116': ('def f(data):\n    kept = [d for d in data if d]\n    for i in range(len(kept)):\n        if kept[i] > 1:\n            break\n    return data[:i]\n', 1),
    'R117': ('def f(xs, key):\n    return [x for _, x in sorted((key(x), x) for x in xs)]\n', 1),
    'R118': ("import re\n_NL = re.compile(r'\\r\\n|\\r|\\n')\ndef f(s):\n    start = 0\n    for m in _NL.finditer(s):\n        end = m.start()\n        yield s[start:end]\n"
             "        start = end + 1\n    yield s[start:]\n", 1),
    'R120': ("def f(meta):\n    end = meta.find(' ')\n    return meta[:end], meta[end + 1:]\n", 2),
    'R81': ('def f(a):\n    if a:\n        x = 1\n    return x\n', 1),
    'R75': ('from collections import defaultdict\nclass T:\n    def __init__(self, rows):\n        d = defaultdict(list)\n        for k, v in rows:\n            d[k].append(v)\n'
            '        self.table = d\n    def get(self, k):\n        return self.table[k]\n', 1),
    'R13': ('def f(xs):\n    s = set(xs)\n    return [x for x in s]\n', 1),
    'R86': ('from typing import Iterable\ndef f(lines: Iterable[str]):\n    n = len(list(lines))\n    return [l for l in lines], n\n', 1),
    'R104': ('def f(rows):\n    out = []\n    for r in rows:\n        if r:\n            last = r\n        out.append(last)\n    return out\n', 1),
    'R125': ('def is_atomic(x):\n    return x is None or isinstance(x, (str, int, float))\ndef f(rest, variables):\n    a = [b for b in rest if isinstance(b[1], str) and b[1] not in variables]\n'
             '    e = [b for b in rest if not is_atomic(b[1]) or b[1] in variables]\n    rest = a + e\n    return rest\n', 1),
    'R126': ('def f(tables, out):\n    for name, funcs in tables:\n        def key(role):\n            return [g(role) for g in funcs]\n        out[name] = key\n    return out\n', 1),
    'R127': ('def f(meta):\n    key, value = meta.split(None, 1)\n    return key, value\n', 1),
    'R139': ('def f(items, m):\n    changed = False\n    out = []\n    for a, b in items:\n        if a in m:\n            changed = True\n            a = m[a]\n        else:\n            sub = g(b)\n            changed = sub is not b\n            b = sub\n        out.append((a, b))\n    if not changed:\n        return items\n    return out\n', 1),
    'R140': ('def f(meta):\n    for key in meta.keys():\n        if key.startswith("error-"):\n            del meta[key]\n    return meta\n', 1),
    'R141': ('import re\nclass M:\n    def __init__(self, roles):\n        self.roles = roles\n        self._re = re.compile("^({})$".format("|".join(roles)))\n    def __setstate__(self, state):\n        self.__dict__.update(state)\n        self._re = re.compile("|".join(self.roles))\n', 1),
    'R142': ('import itertools\ndef f(lines):\n    lines = iter(lines)\n    first = next(lines, None)\n    if isinstance(first, bytes):\n        raise TypeError()\n    return itertools.chain([first], lines)\n', 1),
    'R143': ('from itertools import groupby\ndef f(rel):\n    return {k: list(g) for k, g in groupby(rel, key=lambda t: t[0])}\n', 1),
    'R145': ('def from_string(s):\n    _s = s.lstrip("~").lower()\n    return _s\n', 1),
    'R147': ('def typ(constant_string, value):\n    if value is not constant_string:\n        return 1\n    return 0\n', 1),
    'R148': ('def _parse_triple(tokens):\n    target = tokens.next().text\n    if target == "None":\n        target = None\n    return target\n', 1),
    'R149': ('class G:\n    def __isub__(self, other):\n        gone = set(other.triples)\n        self.triples[:] = [t for t in self.triples if t not in gone]\n        for t in other.triples:\n            self.epidata.pop(t, None)\n        return self\n', 1),
    'R96': ('def f(a) -> str:\n    if a:\n        return "x"\n', 1),
}


def _run_probe(rule_id: str):
    import shutil
    import tempfile
    src, want = PROBES[rule_id]
    tmp = Path(tempfile.mkdtemp(prefix='pvprobe-'))
    try:
        (tmp / 'penman').mkdir()
        (tmp / 'penman' / '__init__.py').write_text('')
        (tmp / 'penman' / 'probe.py').write_text(src)
        pctx = Ctx(Repo(str(tmp)), 'quick')
        pctx._is_probe = True
        try:
            rep = RULES[rule_id](pctx)
            got = len(rep.violations())
        except AnalysisError as exc:
            raise AnalysisError(f'{rule_id}: self-probe could not be analysed ({exc})')
        if got < want:
            raise AnalysisError(f'{rule_id}: self-probe: the rule reports {got} violation(s) on its positive example, {want} expected - the matcher has gone blind')
    finally:
        shutil.rmtree(tmp, ignore_errors=True)


def need(cond: bool, msg: str):
    if not cond:
        raise AnalysisError(msg)


def func_key(fi: FuncInfo, node: ast.AST) -> str:
    return f'{fi.module.name}:{fi.qualname}: {norm(node)}'
