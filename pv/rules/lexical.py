"""R8a-h (lexical obligations on PATTERNS / PENMAN_RE / TRIPLE_RE), R23lex (token field
provenance in _lex), R6 (line terminators), R34 (JSON discipline of constant.quote/evaluate/type).
"""
from __future__ import annotations

import ast
import re
from typing import Dict, List, Optional, Set

from ..cfg import CFG, cond_facts, facts_at
from ..core import Ctx, RuleReport, rule
from ..lexmodel import all_repeats_greedy, deterministic, restrict
from ..rx import CS, Lang, ParsedPattern
from ..src import AnalysisError, FuncInfo, dotted, norm, try_fold, walk_local

LEX = 'penman/_lexer.py'


def _patterns(ctx):
    return [ctx.lex.compiled['PENMAN_RE'], ctx.lex.compiled['TRIPLE_RE']]


@rule('R8a', 'token patterns have no inner capturing group and every alternative is a named group')
def r8a(ctx: Ctx) -> RuleReport:
    rep = RuleReport('R8a', r8a.title, floor=9)
    lm = ctx.lex
    for name, pat in lm.patterns.items():
        pp = ParsedPattern(pat, re.VERBOSE)
        rep.oblige(f'PATTERNS[{name}] has no capturing group', pp.n_groups == 0,
                   f'{pp.n_groups} capturing group(s) in {pat!r}' if pp.n_groups else '', LEX,
                   key=f'PATTERNS[{name}] no-capture', positive=True)
    for cp in _patterns(ctx):
        unnamed = [i for i, n in enumerate(cp.names()) if n is None]
        rep.oblige(f'{cp.name}: every top-level alternative is a named group', not unnamed,
                   f'unnamed alternative(s) at index {unnamed}' if unnamed else
                   f'{len(cp.alts)} alternatives: {", ".join(map(str, cp.names()))}', LEX,
                   key=f'{cp.name} named-alternatives', positive=True)
        inner = sum(cp.parsed.capture_groups_inside(sub) for _, _, sub in cp.alts)
        rep.oblige(f'{cp.name}: m.lastgroup is always the alternative name', inner == 0 and not unnamed,
                   f'{inner} capturing group(s) nested inside alternatives' if inner else '', LEX,
                   key=f'{cp.name} lastgroup-is-class', positive=True)
        rep.oblige(f'{cp.name}: flags are VERBOSE only', cp.flags == re.VERBOSE,
                   f'flags={cp.flags}', LEX, key=f'{cp.name} flags', positive=True)
    rep.analysed = {'patterns': sorted(lm.patterns), 'compiled': [c.name for c in _patterns(ctx)]}
    return rep


@rule('R8b', 'every token alternative is non-nullable (finditer makes progress, tokens are non-empty)')
def r8b(ctx: Ctx) -> RuleReport:
    rep = RuleReport('R8b', r8b.title, floor=15)
    for cp in _patterns(ctx):
        for n, lang, _ in cp.alts:
            rep.oblige(f'{cp.name}.{n} is non-nullable', not lang.nullable(),
                       'matches the empty string' if lang.nullable() else '', LEX, key=f'{cp.name}.{n} non-nullable', positive=True)
    return rep


@rule('R8c', 'exactly the six ASCII blanks are skipped between tokens')
def r8c(ctx: Ctx) -> RuleReport:
    rep = RuleReport('R8c', r8c.title, floor=15)
    B = ctx.lex.blanks()
    for cp in _patterns(ctx):
        for n, lang, _ in cp.alts:
            meet = lang.first_set() & B
            rep.oblige(f'{cp.name}.{n} cannot start with a blank', not meet,
                       f'first-set meets blanks: {meet.describe()}' if meet else '', LEX,
                       key=f'{cp.name}.{n} first-set-no-blank', positive=True)
        if not cp.has('UNEXPECTED'):
            rep.oblige(f'{cp.name} has a catch-all UNEXPECTED class', False, 'class UNEXPECTED missing', LEX,
                       key=f'{cp.name} catch-all', positive=True)
            continue
        un = cp.lang('UNEXPECTED').is_finite_single_char()
        ok = un is not None and un == ~B
        detail = ''
        if un is None:
            detail = 'UNEXPECTED is not a single-character class'
        elif not ok:
            extra_skipped = (~B) - un
            wrongly = un & B
            detail = (f'characters skipped although not blank: {extra_skipped.describe()} ' if extra_skipped else '') + \
                     (f'blanks reported as tokens: {wrongly.describe()}' if wrongly else '')
        rep.oblige(f'{cp.name}.UNEXPECTED is one character, any character but the six blanks', ok, detail, LEX,
                   key=f'{cp.name} catch-all complement-of-blanks', positive=True)
        rep.oblige(f'{cp.name}.UNEXPECTED is the last alternative', cp.names()[-1] == 'UNEXPECTED',
                   f'order: {cp.names()}', LEX, key=f'{cp.name} catch-all last', positive=True)
        for n, lang, _ in cp.alts:
            if n in ('STRING', 'COMMENT', 'UNEXPECTED'):
                continue
            meet = lang.alphabet() & B
            rep.oblige(f'{cp.name}.{n} contains no blank', not meet,
                       f'alphabet meets blanks: {meet.describe()}' if meet else '', LEX,
                       key=f'{cp.name}.{n} alphabet-no-blank', positive=True)
    rep.assumptions.append('re.finditer scans left to right, takes the first alternative (in order) that matches '
                           'at a position and skips a character only when no alternative matches there')
    return rep


@rule('R8d', 'each token class denotes the documented lexical language (docs/notation.rst)')
def r8d(ctx: Ctx) -> RuleReport:
    rep = RuleReport('R8d', r8d.title, floor=13)
    lm = ctx.lex
    # a token class that starts with a look-behind can only begin after certain characters: the documented
    # grammar has no such context condition, so some text is tokenised differently from the documentation
    from ..rx import sre_parse, sre_c
    ctx_dep = set()
    for cname, ptxt in lm.patterns.items():
        try:
            tree = list(sre_parse.parse(ptxt))
        except Exception:       # noqa: reported elsewhere
            continue
        if tree and tree[0][0] in (sre_c.ASSERT, sre_c.ASSERT_NOT) and tree[0][1][0] < 0:
            ctx_dep.add(cname)
            neg = tree[0][0] is sre_c.ASSERT_NOT
            rep.violation(f'{cname} may start anywhere (no context condition)', LEX,
                          f'PATTERNS[{cname!r}] = {ptxt!r} begins with a look-behind: the class can {"not " if neg else "only "}start after the characters '
                          f'it names, e.g. directly after ")" or a symbol character. The documented grammar lets {cname} start wherever the previous '
                          f'token ends, so text such as "(a / alpha)# ::id 2" is tokenised differently (the "#" is no longer a comment)')
    if ctx_dep:
        return rep
    sigma = lm.line_alphabet()
    for cp in _patterns(ctx):
        for n, lang, _ in cp.alts:
            if n == 'UNEXPECTED':
                continue
            if n not in lm.spec['classes']:
                rep.oblige(f'{cp.name}.{n} is a documented class', False, 'class is not in the documented grammar',
                           LEX, key=f'{cp.name}.{n} documented', positive=True)
                continue
            doc = restrict(lm.doc_lang(n), sigma)
            code = restrict(lang, sigma)
            eq, only_code, only_doc = code.equivalent(doc)
            detail = ''
            if not eq:
                if only_doc is not None:
                    detail += f'documented but rejected by the pattern: {only_doc!r}. '
                if only_code is not None:
                    detail += f'accepted by the pattern but not documented: {only_code!r}.'
            rep.oblige(f'L({cp.name}.{n}) = L(doc {n})', eq, detail, LEX, key=f'{cp.name}.{n} language', positive=True)
    # informational: the PEG's stricter StrChar
    strict = restrict(Lang.from_pattern(lm.spec['informational']['STRING_peg_strict']), sigma)
    code = restrict(lm.compiled['PENMAN_RE'].lang('STRING'), sigma) if lm.compiled['PENMAN_RE'].has('STRING') else None
    if code is not None:
        w = code.witness_not_subset(strict)
        rep.info('STRING vs PEG-strict StrChar', LEX,
                 f'pattern accepts {w!r} which the PEG (StrChar excludes CR/FF/VT) does not; the property '
                 f'statement allows it - recorded, not armed' if w else 'identical')
    rep.assumptions.append('spec/lexical.json is a faithful transcription of the PEG in docs/notation.rst')
    return rep


def _dispatch(cp, blocks: List[CS]) -> Dict[int, List[str]]:
    out = {}
    firsts = [(n, l.first_set(), l.single_char_members()) for n, l, _ in cp.alts]
    for i, blk in enumerate(blocks):
        lst = []
        for n, fs, one in firsts:
            if blk.issubset(fs):
                lst.append(n)
                if blk.issubset(one):
                    break
            elif blk & fs:
                raise AnalysisError('dispatch blocks are not fine enough')
        out[i] = lst
    return out


@rule('R8e', 'per first character the alternatives tried, in order, are the documented classes; matches are longest')
def r8e(ctx: Ctx) -> RuleReport:
    rep = RuleReport('R8e', r8e.title, floor=20)
    lm = ctx.lex
    from ..rx import minterms
    B = lm.blanks()
    for cp in _patterns(ctx):
        spec = lm.spec['dispatch'].get(cp.name)
        if spec is None:
            raise AnalysisError(f'no dispatch table for {cp.name}')
        singles = [k for k in spec if len(k) == 1]
        sets = [l.first_set() for _, l, _ in cp.alts] + [l.single_char_members() for _, l, _ in cp.alts]
        sets += [CS.of(k) for k in singles] + [B]
        blocks = minterms(sets)
        disp = _dispatch(cp, blocks)
        namechar = ~(B | CS.of(*singles))
        for i, blk in enumerate(blocks):
            if len(blk.iv) == 1 and blk.iv[0][0] == blk.iv[0][1] and chr(blk.iv[0][0]) in spec:
                key, want = chr(blk.iv[0][0]), spec[chr(blk.iv[0][0])]
            elif blk.issubset(B):
                key, want = 'BLANK', spec['BLANK']
            elif blk.issubset(namechar):
                key, want = 'NAMECHAR', spec['NAMECHAR']
            else:
                raise AnalysisError(f'dispatch block {blk.describe()} straddles documented character groups')
            got = disp[i]
            rep.oblige(f'{cp.name}: first character {key} {blk.describe()} -> {want}', got == want,
                       f'pattern tries {got}' if got != want else '', LEX,
                       key=f'{cp.name} dispatch {key} {blk.describe()}', positive=True)
        for n, lang, sub in cp.alts:
            if cp.lazy.get(n, 0):
                # lazy alternative: the engine returns the shortest member at that position; the class language used
                # by every other obligation is already the set of members without a proper prefix in the language
                single = cp.lazy[n] == 1 and all_repeats_greedy([x for x in sub if x[0] is not __import__('pv.rx', fromlist=['sre_c']).sre_c.MIN_REPEAT])
                rep.oblige(f'{cp.name}.{n}: one lazy repeat followed by a fixed tail, so the match is the shortest member at that position',
                           single, '' if single else 'mixed lazy/greedy repeats: the matched text is not characterised', LEX,
                           key=f'{cp.name}.{n} longest-match shape', positive=True)
                continue
            greedy = all_repeats_greedy(sub)
            det = deterministic(lang)
            rep.oblige(f'{cp.name}.{n}: greedy and 1-unambiguous, so the match is the longest member at that position',
                       greedy and det is None,
                       ('non-greedy repeat; ' if not greedy else '') + (det or ''), LEX,
                       key=f'{cp.name}.{n} longest-match shape', positive=True)
        if cp.has('STRING'):
            w = cp.lang('STRING').prefix_unique()
            rep.oblige(f'{cp.name}.STRING is prefix-unique', w is None,
                       f'{w!r} has a proper prefix that is also a STRING' if w else '', LEX,
                       key=f'{cp.name}.STRING prefix-unique', positive=True)
    rep.assumptions.append('a line handed to the lexer contains LF only as its last character '
                           '(so the end-of-line assertion of COMMENT always holds after its greedy body)')
    return rep


@rule('R8f', 'delimiters and blanks are outside the alphabets of SYMBOL and of the tail of ROLE')
def r8f(ctx: Ctx) -> RuleReport:
    rep = RuleReport('R8f', r8f.title, floor=3)
    lm = ctx.lex
    forbidden = lm.blanks() | CS.of(*lm.spec['delimiters'])
    for cp in _patterns(ctx):
        if cp.has('SYMBOL'):
            meet = cp.lang('SYMBOL').alphabet() & forbidden
            rep.oblige(f'{cp.name}.SYMBOL excludes every delimiter and blank', not meet,
                       f'contains {meet.describe()}' if meet else '', LEX, key=f'{cp.name}.SYMBOL excludes delimiters', positive=True)
        if cp.has('ROLE'):
            role = cp.lang('ROLE')
            tail = (role.alphabet() - CS.of(':')) | (role.continuation_set() & CS.of(':'))
            meet = tail & forbidden
            rep.oblige(f'{cp.name}.ROLE tail excludes every delimiter and blank', not meet,
                       f'contains {meet.describe()}' if meet else '', LEX, key=f'{cp.name}.ROLE tail excludes delimiters', positive=True)
            rep.oblige(f'{cp.name}.ROLE starts with a colon', role.first_set() == CS.of(':'),
                       role.first_set().describe(), LEX, key=f'{cp.name}.ROLE first-set', positive=True)
    return rep


@rule('R8h', 'lexical facts the alignment split in interpretation relies on')
def r8h(ctx: Ctx) -> RuleReport:
    rep = RuleReport('R8h', r8h.title, floor=4)
    cp = ctx.lex.compiled['PENMAN_RE']
    til, quo = CS.of('~'), CS.of('"')
    for n in ('SYMBOL', 'ROLE'):
        if cp.has(n):
            meet = cp.lang(n).alphabet() & til
            rep.oblige(f'~ cannot occur inside a {n} token', not meet, '', LEX, key=f'{n} excludes tilde', positive=True)
    if cp.has('ALIGNMENT'):
        a = cp.lang('ALIGNMENT')
        rep.oblige('every ALIGNMENT starts with ~', a.first_set() == til, a.first_set().describe(), LEX,
                   key='ALIGNMENT first-set', positive=True)
        rep.oblige('an ALIGNMENT contains no double quote', not (a.alphabet() & quo), '', LEX,
                   key='ALIGNMENT excludes quote', positive=True)
        rep.oblige('an ALIGNMENT contains ~ only as its first character', not (a.continuation_set() & til)
                   and not ((Lang(a.rx).alphabet() & til) - a.first_set()), '', LEX, key='ALIGNMENT single tilde', positive=True)
    if cp.has('STRING'):
        s = cp.lang('STRING')
        rep.oblige('a STRING starts and ends with a double quote',
                   s.first_set() == quo and s.last_set() == quo, '', LEX, key='STRING delimited by quotes', positive=True)
    return rep


# ---------------------------------------------------------------------------------------------
# R23lex: provenance of the Token fields and loop structure of _lex
# ---------------------------------------------------------------------------------------------

def single_def(ctx: Ctx, fi: FuncInfo, expr: ast.AST, depth: int = 0) -> ast.AST:
    """Follow a local name to its only definition (plain assignment), repeatedly."""
    while isinstance(expr, ast.Name) and depth < 6:
        vals = ctx.cg.local_assigns(fi).get(expr.id)
        if not vals or len(vals) != 1 or vals[0] is None or not isinstance(vals[0], ast.AST) \
                or isinstance(vals[0], (ast.Import, ast.ImportFrom)):
            break
        expr = vals[0]
        depth += 1
    return expr


def map_vars_func(ctx: Ctx) -> FuncInfo:
    """The function that rewrites the variables of a tree: `_map_vars`, or - under another name - the module-level function of penman.tree that
    Tree.reset_variables applies to self.node and assigns back (`self.node = f(self.node, <map>)`)."""
    fi = ctx.repo.maybe_func('penman.tree', '_map_vars')
    if fi is not None:
        return fi
    rv = ctx.repo.func('penman.tree', 'Tree.reset_variables')
    for n in walk_local(rv.node):
        if isinstance(n, ast.Assign) and norm(n.targets[0]) == 'self.node' and isinstance(n.value, ast.Call) and isinstance(n.value.func, ast.Name):
            given = list(n.value.args) + [k.value for k in n.value.keywords]
            if any(norm(a) == 'self.node' for a in given):
                f2 = ctx.repo.maybe_func('penman.tree', n.value.func.id)
                if f2 is not None:
                    return f2
    raise AnalysisError('anchor vanished: function penman.tree:_map_vars (and no function that Tree.reset_variables applies to self.node)')


def _is_call(expr, recv: Optional[str], attr: str) -> bool:
    return isinstance(expr, ast.Call) and isinstance(expr.func, ast.Attribute) and expr.func.attr == attr \
        and (recv is None or (isinstance(expr.func.value, ast.Name) and expr.func.value.id == recv))


def _zero_or_none(args) -> bool:
    return len(args) == 0 or (len(args) == 1 and isinstance(args[0], ast.Constant) and args[0].value == 0)


@rule('R23lex', 'every line is scanned; each token carries the class, text, line number, column and line of its match')
def r23lex(ctx: Ctx) -> RuleReport:
    rep = RuleReport('R23lex', r23lex.title, floor=9)
    fi = ctx.repo.func('penman._lexer', '_lex')
    where = fi.loc()
    params = fi.positional
    if len(params) < 2:
        raise AnalysisError('_lex no longer takes (lines, regex)')
    p_lines, p_regex = params[0], params[1]
    cfg = CFG(fi.node)
    # outer loop
    outer = None
    for n in walk_local(fi.node):
        if isinstance(n, ast.For) and isinstance(n.iter, ast.Call) and isinstance(n.iter.func, ast.Name) \
                and n.iter.func.id == 'enumerate':
            outer = n
            break
    if outer is None:
        # accepted alternative: manual counter is not used by penman; fail closed
        raise AnalysisError('_lex: no `for i, line in enumerate(lines, start)` loop found')
    it = outer.iter
    start = it.args[1] if len(it.args) > 1 else next((k.value for k in it.keywords if k.arg == 'start'), None)
    ok_start, v_start = try_fold(start) if start is not None else (True, 0)
    rep.oblige('line numbers start at 1', ok_start and v_start == 1,
               f'enumerate start is {norm(start) if start is not None else "0 (default)"}', where,
               key='_lex enumerate start', positive=True)
    src = single_def(ctx, fi, it.args[0]) if it.args else None
    # a filter between the lines and the counter: the counter numbers the lines that were kept, not the lines of the input
    filt = None
    if isinstance(src, ast.Call) and norm(src.func) == 'filter' and len(src.args) == 2 and norm(src.args[1]) == p_lines:
        filt = f'filter({norm(src.args[0])}, {p_lines})'
    elif isinstance(src, (ast.GeneratorExp, ast.ListComp)) and len(src.generators) == 1 and src.generators[0].ifs \
            and norm(src.generators[0].iter) == p_lines and norm(src.elt) == norm(src.generators[0].target):
        filt = norm(src)[:60]
    if filt:
        rep.add('_lex iterates lines', where, 'violation',
                f'the counter runs over `{filt}`: lines that the filter drops are not counted, so every token after a dropped line (an empty line between two '
                f'graphs, a leading newline) carries a line number that is too small - Token.lineno and DecodeError.lineno no longer name the line of the input')
    else:
        rep.oblige('the loop ranges over the lines argument itself', isinstance(src, ast.Name) and src.id == p_lines,
                   f'iterates {norm(it.args[0]) if it.args else "?"}', where, key='_lex iterates lines')
    if not (isinstance(outer.target, ast.Tuple) and len(outer.target.elts) == 2
            and all(isinstance(e, ast.Name) for e in outer.target.elts)):
        raise AnalysisError('_lex: loop target is not (index, line)')
    v_i, v_line = outer.target.elts[0].id, outer.target.elts[1].id
    # finditer call
    fcall = None
    for n in ast.walk(outer):
        if isinstance(n, ast.Call) and isinstance(n.func, ast.Attribute) and n.func.attr in (
                'finditer', 'findall', 'search', 'match', 'scanner', 'fullmatch', 'split'):
            fcall = n
            break
    scan_fi = fi
    deleg = None
    if fcall is None:
        # the per-line scan may live in a generator helper: `yield from helper(line, lineno, regex)`
        for n in ast.walk(outer):
            if isinstance(n, ast.Call) and isinstance(n.func, ast.Name):
                hs = [t.func for t in ctx.cg.resolve_call(n, fi) if t.kind == 'func' and t.func.module.name == fi.module.name]
                if len(hs) == 1 and any(isinstance(x, ast.Call) and isinstance(x.func, ast.Attribute) and x.func.attr == 'finditer'
                                        for x in walk_local(hs[0].node)):
                    par = ctx.repo.parent_map(fi.node).get(id(n))
                    if isinstance(par, ast.YieldFrom) or (isinstance(par, ast.For) and par.iter is n):
                        deleg = (n, hs[0])
        if deleg is not None:
            call, h = deleg
            amap = {}
            for prm, a in zip(h.positional, call.args):
                amap[prm] = norm(a)
            for kw in call.keywords:
                amap[kw.arg] = norm(kw.value)
            inv = {v: k for k, v in amap.items()}
            if v_i in inv and v_line in inv and p_regex in inv and not any(ctx.cg.local_assigns(h).get(x) for x in (inv[v_i], inv[v_line], inv[p_regex])):
                scan_fi = h
                rep.ok('_lex delegates the scan of a line to a helper that receives line, line number and pattern unchanged', fi.loc(call), norm(call))
                deleg_stmt = call
                v_i_h, v_line_h, p_regex_h = inv[v_i], inv[v_line], inv[p_regex]
                for n in walk_local(h.node):
                    if isinstance(n, ast.Call) and isinstance(n.func, ast.Attribute) and n.func.attr == 'finditer':
                        fcall = n
            else:
                deleg = None
    if fcall is None or fcall.func.attr != 'finditer':
        rep.oblige('tokens are produced by finditer over the line', False,
                   f'found {norm(fcall.func) if fcall else "no scan call"}', where, key='_lex finditer', positive=fcall is not None)
        return rep
    outer_fi, outer_cfg = fi, cfg
    if deleg is not None:
        fi = scan_fi
        v_i, v_line, p_regex = v_i_h, v_line_h, p_regex_h
        cfg = CFG(fi.node)
    recv = single_def(ctx, fi, fcall.func.value)
    rep.oblige('finditer is called on the regex argument', isinstance(recv, ast.Name) and recv.id == p_regex,
               norm(fcall.func.value), where, key='_lex finditer receiver')
    arg_ok = len(fcall.args) == 1 and not fcall.keywords and isinstance(fcall.args[0], ast.Name) \
        and fcall.args[0].id == v_line
    if not arg_ok and len(fcall.args) == 1 and not fcall.keywords:
        a0 = fcall.args[0]
        base = a0
        while isinstance(base, (ast.Call, ast.Subscript, ast.Attribute)):
            base = base.func.value if isinstance(base, ast.Call) and isinstance(base.func, ast.Attribute) else (base.value if not isinstance(base, ast.Call) else None)
            if base is None:
                break
        if isinstance(base, ast.Name) and base.id == v_line and not isinstance(a0, ast.Name):
            rep.add('_lex finditer argument', where, 'violation',
                    f'the pattern runs over `{norm(a0)[:50]}`, a changed copy of the line, but the tokens are built with the match positions and with `{v_line}` itself: every '
                    f'offset is relative to the copy - on an indented line each column is too small by the width of what was stripped, and line[offset:] no longer starts with the token text')
            arg_ok = True       # reported; do not add the "not recognised" entry below
            return rep
    cut = None
    if not arg_ok and len(fcall.args) >= 2:
        # the scan is bounded by a position that a textual search for one character produced: can that character stand inside a token?
        for a in fcall.args[1:]:
            for x in ast.walk(a):
                if isinstance(x, ast.Name):
                    for st_ in walk_local(fi.node):
                        if isinstance(st_, ast.Assign) and any(isinstance(y, ast.Name) and y.id == x.id for t_ in st_.targets for y in ast.walk(t_)) \
                                and isinstance(st_.value, ast.Call) and isinstance(st_.value.func, ast.Attribute) \
                                and st_.value.func.attr in ('partition', 'rpartition', 'find', 'index', 'rfind', 'rindex', 'split') and st_.value.args:
                            okc, ch = try_fold(st_.value.args[0])
                            if okc and isinstance(ch, str) and len(ch) == 1:
                                cut = (ch, st_)
    if cut is not None:
        ch, st_ = cut
        wit = None
        for cp in _patterns(ctx):
            for nm_ in cp.names():
                if nm_ in (None, 'COMMENT', 'UNEXPECTED'):
                    continue
                w = cp.lang(nm_).witness_intersection(Lang.from_pattern('.+' + re.escape(ch) + '.*', re.DOTALL))
                if w is not None and wit is None:
                    wit = (cp.name, nm_, w)
        if wit:
            rep.add('_lex finditer argument', where, 'violation',
                    f'`{norm(fcall)[:60]}` scans the line only up to / from the first {ch!r} (`{norm(st_)[:50]}`), found without regard to the tokens: {ch!r} can stand inside a '
                    f'{wit[1]} token of {wit[0]} ({wit[2]!r}), which is then cut in two - the quoted string loses its closing quote, the rest of the line is taken for a comment')
        else:
            rep.oblige('finditer scans the whole line (no pos/endpos, no slice)', False, norm(fcall), where, key='_lex finditer argument')
    else:
        rep.oblige('finditer scans the whole line (no pos/endpos, no slice)', arg_ok, norm(fcall), where,
                   key='_lex finditer argument')
    # every outer iteration reaches the finditer call
    pm = ctx.repo.parent_map(fi.node)
    opm = ctx.repo.parent_map(outer_fi.node)
    st = fcall if deleg is None else deleg[0]
    while not isinstance(st, ast.stmt):
        st = opm[id(st)]
    head = outer_cfg.node_of(outer)
    target = outer_cfg.node_of(st)
    path = outer_cfg.path_avoiding([(head, 'T')], {head, outer_cfg.exit, outer_cfg.rexit}, lambda nd: nd.id == target)
    rep.oblige('every line reaches the scan (no line is skipped)', path is None,
               'a path returns to the loop head without scanning the line: ' +
               ' -> '.join(repr(outer_cfg.nodes[p]) for p in path) if path else '', where, key='_lex every line scanned', positive=True)
    if deleg is not None:
        # inside the helper the scan itself is reached on every path
        fst = fcall
        while not isinstance(fst, ast.stmt):
            fst = pm[id(fst)]
        ft = cfg.node_of(fst)
        hp = cfg.path_avoiding([(cfg.entry, None)], {cfg.exit}, lambda nd: nd.id == ft)
        rep.oblige('the helper scans the line it is given on every path', hp is None, '', fi.loc(), key='_lex helper scans')
    # inner loop over matches
    inner = None
    for n in (ast.walk(outer) if deleg is None else walk_local(fi.node)):
        if isinstance(n, ast.For) and n is not outer:
            itx = single_def(ctx, fi, n.iter)
            if itx is fcall:
                inner = n
    if inner is None or not isinstance(inner.target, ast.Name):
        if rep.violations():
            return rep
        raise AnalysisError('_lex: no `for m in <finditer result>` loop found')
    v_m = inner.target.id
    # Token construction and yield
    tok = None
    for n in ast.walk(inner):
        if isinstance(n, ast.Call):
            ts = ctx.cg.resolve_call(n, fi)
            if any(t.kind == 'class' and t.cls.name == 'Token' for t in ts):
                tok = n
    if tok is None:
        raise AnalysisError('_lex: no Token(...) construction in the match loop')
    fields = ['type', 'text', 'lineno', 'offset', 'line']
    args: Dict[str, ast.AST] = {}
    for f, a in zip(fields, tok.args):
        args[f] = a
    for kw in tok.keywords:
        args[kw.arg] = kw.value
    if set(args) != set(fields):
        raise AnalysisError(f'_lex: Token(...) does not bind exactly {fields}')
    a = {k: single_def(ctx, fi, v) for k, v in args.items()}
    rep.oblige('Token.type is m.lastgroup',
               isinstance(a['type'], ast.Attribute) and a['type'].attr == 'lastgroup'
               and isinstance(a['type'].value, ast.Name) and a['type'].value.id == v_m,
               norm(a['type']), where, key='Token.type provenance', positive=True)
    t = a['text']
    text_ok = (_is_call(t, v_m, 'group') and _zero_or_none(t.args)) or (
        isinstance(t, ast.Subscript) and isinstance(t.value, ast.Name) and t.value.id == v_m
        and isinstance(t.slice, ast.Constant) and t.slice.value == 0)
    rep.oblige('Token.text is the whole match', text_ok, norm(t), where, key='Token.text provenance', positive=True)
    rep.oblige('Token.lineno is the loop index', isinstance(a['lineno'], ast.Name) and a['lineno'].id == v_i,
               norm(a['lineno']), where, key='Token.lineno provenance', positive=True)
    o = a['offset']
    off_ok = (_is_call(o, v_m, 'start') and _zero_or_none(o.args)) or (
        isinstance(o, ast.Subscript) and _is_call(o.value, v_m, 'span') and _zero_or_none(o.value.args)
        and isinstance(o.slice, ast.Constant) and o.slice.value == 0)
    rep.oblige('Token.offset is the start of the match', off_ok, norm(o), where, key='Token.offset provenance', positive=True)
    rep.oblige('Token.line is the scanned line', isinstance(a['line'], ast.Name) and a['line'].id == v_line,
               norm(a['line']), where, key='Token.line provenance', positive=True)
    # every match is yielded
    ynode = None
    for n in ast.walk(inner):
        if isinstance(n, ast.Yield) and n.value is not None:
            yv = single_def(ctx, fi, n.value)
            if yv is tok:
                ynode = n
    if ynode is None:
        rep.oblige('every match is yielded as its token', False, 'the constructed Token is not yielded', where,
                   key='_lex yields token', positive=True)
    else:
        yst = ynode
        while not isinstance(yst, ast.stmt):
            yst = pm[id(yst)]
        ih = cfg.node_of(inner)
        ytarget = cfg.node_of(yst)
        path = cfg.path_avoiding([(ih, 'T')], {ih, cfg.exit}, lambda nd: nd.id == ytarget)
        rep.oblige('every match is yielded as its token', path is None,
                   'a match can be dropped: ' + ' -> '.join(repr(cfg.nodes[p]) for p in path) if path else '',
                   where, key='_lex yields token', positive=True)
    # variables not reassigned between definition and use
    for n in walk_local(fi.node):
        if isinstance(n, ast.Assign) and isinstance(n.targets[0], ast.Name) and n.targets[0].id == v_line and isinstance(n.value, ast.Call) \
                and isinstance(n.value.func, ast.Attribute) and norm(n.value.func.value) == v_line:
            rep.violation(f'_lex scans the line as it was given', fi.loc(n),
                          f'`{norm(n)}` rewrites the line before it is scanned: token texts (including the inside of quoted strings), columns and '
                          f'Token.line no longer are those of the input')
    for v in (v_i, v_line, v_m):
        n_defs = len(ctx.cg.local_assigns(fi).get(v, []))
        want = 0 if (deleg is not None and v in (v_i, v_line)) else 1       # helper parameters are bound by the call
        rep.oblige(f'{v} is bound only by its loop', n_defs == want, f'{n_defs} bindings', where, key=f'_lex {v} single binding')
    return rep


# ---------------------------------------------------------------------------------------------
# R6: line terminators
# ---------------------------------------------------------------------------------------------

UNIVERSAL = {'\n', '\r\n', '\r'}
SPLITLINES_EXTRA = ['\x0b', '\x0c', '\x1c', '\x1d', '\x1e', '\x85', ' ', ' ']


def _terminators_of_regex(pattern: str, flags: int):
    """(set of terminator strings if finite and small, problem text or None)"""
    pp = ParsedPattern(pattern, flags)
    lang = Lang(pp.rx)
    ref = Lang.from_pattern('\r\n|\r|\n')
    eq, only_code, only_ref = lang.equivalent(ref)
    if not eq:
        msg = []
        if only_code is not None:
            msg.append(f'also splits at {only_code!r}')
        if only_ref is not None:
            msg.append(f'does not split at {only_ref!r}')
        return False, '; '.join(msg)
    # ordered alternation: CRLF must be tried before CR (else CRLF counts as two line ends)
    alts = pp.alternatives()
    langs = [Lang(rx) for _, rx, _ in alts]
    for i, li in enumerate(langs):
        for lj in langs[i + 1:]:
            ext = Lang.from_pattern('.+', re.DOTALL)
            w = li.cat(ext).witness_intersection(lj)
            if w is not None:
                return False, f'alternative order splits {w!r} after a proper prefix (CRLF would count as two line ends)'
    return True, None


@rule('R6', 'string input is split at LF, CRLF and CR only - the terminators of text-file iteration')
def r6(ctx: Ctx) -> RuleReport:
    rep = RuleReport('R6', r6.title, floor=3)
    fi = ctx.repo.func('penman._lexer', 'lex')
    p_lines = fi.positional[0]
    cfg = CFG(fi.node)
    IN = cond_facts(cfg)
    pm = ctx.repo.parent_map(fi.node)
    found = 0
    for n in walk_local(fi.node):
        val = None
        if isinstance(n, ast.Assign) and any(isinstance(t, ast.Name) and t.id == p_lines for t in n.targets):
            val = n.value
        if val is None:
            continue
        facts = facts_at(cfg, IN, pm, n)
        guarded = any(f == (f'isinstance({p_lines}, str)', True) for f in facts)
        if not guarded:
            continue
        found += 1
        key = f'penman._lexer:lex: {norm(n)}'
        where = fi.loc(n)
        verdict, msg = _classify_splitter(ctx, fi, val, p_lines)
        if verdict is None:
            raise AnalysisError(f'R6: splitter expression not in the table: {norm(val)}')
        (rep.ok if verdict else rep.violation)(key, where, msg)
    if not found:
        rep.undecided('penman._lexer:lex: str input is not split into lines', fi.loc(),
                      'no assignment to the lines parameter under isinstance(lines, str): a string would be '
                      'iterated character by character or lexed as one line')
    # the (possibly re-bound) lines value is what reaches _lex
    for call, ts in ctx.cg.calls_in(fi):
        if any(t.kind == 'func' and t.func.qualname == '_lex' for t in ts):
            a0 = call.args[0] if call.args else None
            rep.add(f'penman._lexer:lex: {norm(call)}', fi.loc(call),
                    'ok' if isinstance(a0, ast.Name) and a0.id == p_lines else 'undecided',
                    '' if isinstance(a0, ast.Name) and a0.id == p_lines else 'the split lines are not what is lexed')
    # open() calls on read paths: text mode, universal newlines
    for mod, qn in (('penman.codec', '_load'), ('penman.__main__', 'main')):
        f2 = ctx.repo.func(mod, qn)
        for call, ts in ctx.cg.calls_in(f2):
            if not any(t.kind == 'ext' and t.name == 'builtins.open' for t in ts):
                continue
            mode = call.args[1] if len(call.args) > 1 else next((k.value for k in call.keywords if k.arg == 'mode'), None)
            okm, vm = try_fold(mode) if mode is not None else (True, 'r')
            if not okm:
                raise AnalysisError(f'R6: open() mode is not a literal: {norm(call)}')
            if 'w' in vm or 'a' in vm or 'x' in vm:
                continue   # output stream (e.g. --quiet's devnull)
            newline = next((k.value for k in call.keywords if k.arg == 'newline'), None)
            oknl, vnl = try_fold(newline) if newline is not None else (True, None)
            good = 'b' not in vm and oknl and vnl is None
            key = f'{mod}:{qn}: {norm(call)}'
            (rep.ok if good else rep.violation)(
                key, f2.loc(call),
                '' if good else f'input file opened with mode={vm!r} newline={norm(newline) if newline is not None else None}: '
                                f'not universal-newline text mode')
    rep.assumptions.append('text-mode files opened without newline= translate LF, CRLF and CR to LF (io.TextIOWrapper)')
    return rep


def _rename(e: ast.AST, old: str, new: str) -> ast.AST:
    import copy
    e = copy.deepcopy(e)
    for x in ast.walk(e):
        if isinstance(x, ast.Name) and x.id == old:
            x.id = new
    return e


def _classify_splitter(ctx, fi, val: ast.AST, p: str):
    """(True/False/None, message)"""
    # a module-level helper that returns the split text: read its return expression with the argument put in
    if isinstance(val, ast.Call) and isinstance(val.func, ast.Name) and len(val.args) == 1 and not val.keywords and isinstance(val.args[0], ast.Name) \
            and val.args[0].id == p and val.func.id in fi.module.functions:
        h = fi.module.functions[val.func.id]
        rets = [n for n in walk_local(h.node) if isinstance(n, ast.Return) and n.value is not None]
        if len(rets) == 1 and len(h.positional) == 1:
            from ..resolve import expand
            e = expand(ctx, h, rets[0].value, rets[0])
            e = _rename(e, h.positional[0], p)
            return _classify_splitter(ctx, h, e, p)
        return None, ''
    if isinstance(val, ast.Call) and isinstance(val.func, ast.Attribute):
        recv, attr = val.func.value, val.func.attr
        # s.replace('\r\n', '\n').replace('\r', '\n').split('\n')
        if attr == 'split' and len(val.args) == 1 and not val.keywords and try_fold(val.args[0]) == (True, '\n'):
            reps, x = [], recv
            while isinstance(x, ast.Call) and isinstance(x.func, ast.Attribute) and x.func.attr == 'replace' and len(x.args) == 2 and not x.keywords:
                oa, a_ = try_fold(x.args[0])
                ob, b_ = try_fold(x.args[1])
                if not (oa and ob):
                    return None, ''
                reps.insert(0, (a_, b_))
                x = x.func.value
            if reps and isinstance(x, ast.Name) and x.id == p:
                if reps == [('\r\n', '\n'), ('\r', '\n')]:
                    return True, 'CRLF, then CR, rewritten to LF and the text split at LF: splits exactly at LF, CRLF, CR'
                if all(b_ == '\n' for _, b_ in reps):
                    olds = [a_ for a_, _ in reps]
                    if '\r' in olds and '\r\n' in olds and olds.index('\r') < olds.index('\r\n'):
                        return False, 'CR is rewritten to LF before CRLF is: CRLF becomes two line ends'
                    if set(olds) < {'\r\n', '\r'}:
                        missing = sorted({'\r\n', '\r'} - set(olds))
                        if missing == ['\r'] or missing == ['\r\n', '\r'] or missing == ['\r', '\r\n']:
                            return False, f'lines are not ended at a bare CR'
                return None, ''
        if attr == 'splitlines' and isinstance(recv, ast.Name) and recv.id == p:
            return False, ('str.splitlines() also ends lines at ' +
                           ', '.join(f'U+{ord(c):04X}' for c in SPLITLINES_EXTRA) +
                           ' - file iteration does not')
        if attr == 'split' and isinstance(recv, ast.Name) and recv.id == p:
            if len(val.args) == 1:
                ok, sep = try_fold(val.args[0])
                if ok and isinstance(sep, str):
                    missing = sorted(UNIVERSAL - {sep})
                    return False, f'str.split({sep!r}) does not end lines at {missing}'
            return None, ''
        # <module-level compiled pattern>.split(s)
        if attr == 'split' and isinstance(recv, ast.Name) and recv.id != p and len(val.args) >= 1 \
                and isinstance(val.args[0], ast.Name) and val.args[0].id == p:
            r = ctx.repo.resolve_name(fi.module, recv.id)
            if r[0] == 'const':
                cexpr = r[1].constants[r[2]]
                if isinstance(cexpr, ast.Call) and dotted(cexpr.func) == 're.compile' and cexpr.args:
                    ok, pat = try_fold(cexpr.args[0], {}, ctx.repo, r[1])
                    if ok and isinstance(pat, str):
                        from ..lexmodel import fold_flags
                        fl = cexpr.args[1] if len(cexpr.args) > 1 else next((k.value for k in cexpr.keywords if k.arg == 'flags'), None)
                        if len(val.args) > 1 or val.keywords:
                            return False, 'split with maxsplit leaves later lines unsplit'
                        good, msg = _terminators_of_regex(pat, fold_flags(fl))
                        return (True, f'{recv.id}.split with pattern {pat!r} splits exactly at LF, CRLF, CR') if good else \
                            (False, f'{recv.id} = re.compile({pat!r}): {msg}')
            return None, ''
        d = dotted(val.func)
        if d == 're.split' and len(val.args) >= 2 and isinstance(val.args[1], ast.Name) and val.args[1].id == p:
            ok, pat = try_fold(val.args[0], {}, ctx.repo, fi.module)
            if not ok or not isinstance(pat, str):
                return None, ''
            flags_expr = val.args[3] if len(val.args) > 3 else next((k.value for k in val.keywords if k.arg == 'flags'), None)
            from ..lexmodel import fold_flags
            good, msg = _terminators_of_regex(pat, fold_flags(flags_expr))
            maxsplit = val.args[2] if len(val.args) > 2 else next((k.value for k in val.keywords if k.arg == 'maxsplit'), None)
            if maxsplit is not None:
                return False, 're.split with maxsplit leaves later lines unsplit'
            return (True, f're.split({pat!r}) splits exactly at LF, CRLF, CR') if good else (False, f're.split({pat!r}): {msg}')
        if d in ('io.StringIO', 'StringIO') and val.args and isinstance(val.args[0], ast.Name) and val.args[0].id == p:
            nl = val.args[1] if len(val.args) > 1 else next((k.value for k in val.keywords if k.arg == 'newline'), None)
            if nl is None:
                return False, "io.StringIO(s) with the default newline='\\n' ends lines at LF only (bare CR does not end a line)"
            ok, v = try_fold(nl)
            if ok and (v is None or v == ''):
                return True, 'io.StringIO with universal newlines'
            return False, f'io.StringIO(newline={norm(nl)}) does not recognise LF, CRLF and CR alike'
    return None, ''


# ---------------------------------------------------------------------------------------------
# R34 / R8i: constant.quote / evaluate / type
# ---------------------------------------------------------------------------------------------

JSON_STR = r'"(?:[ !#-\[\]-~]|\\["\\bfnrt]|\\u[0-9a-f]{4})*"'


@rule('R34', 'quote emits exactly json.dumps(str(x)), whose language is inside STRING; evaluate/type discipline')
def r34(ctx: Ctx) -> RuleReport:
    rep = RuleReport('R34', r34.title, floor=12)
    repo = ctx.repo
    CON = 'penman/constant.py'
    q = repo.func('penman.constant', 'quote')
    p = q.positional[0]
    cfg = CFG(q.node)
    IN = cond_facts(cfg)
    pm = repo.parent_map(q.node)
    rets = [n for n in walk_local(q.node) if isinstance(n, ast.Return)]
    if not rets:
        raise AnalysisError('quote has no return')
    json_seen = False
    # (value expression, facts under which it is returned): conditional expressions are split into their arms
    arms = []
    for r in rets:
        facts0 = facts_at(cfg, IN, pm, r)

        def split(e, facts):
            if isinstance(e, ast.Call) and dotted(e.func) == 'json.dumps' and len(e.args) == 1 and isinstance(e.args[0], ast.Name) and e.args[0].id != p and not e.keywords:
                d0 = single_def(ctx, q, e.args[0])
                if isinstance(d0, (ast.IfExp, ast.Call)):
                    e = ast.copy_location(ast.Call(func=e.func, args=[d0], keywords=[]), e)
            if isinstance(e, ast.IfExp):
                from ..cfg import _split
                split(e.body, facts | _split(e.test, True))
                split(e.orelse, facts | _split(e.test, False))
            elif isinstance(e, ast.Call) and dotted(e.func) == 'json.dumps' and len(e.args) == 1 and isinstance(e.args[0], ast.IfExp) and not e.keywords:
                # json.dumps(a if c else b)  ==  json.dumps(a) if c else json.dumps(b);  json.dumps('') is the text ""
                from ..cfg import _split
                for arm, pol in ((e.args[0].body, True), (e.args[0].orelse, False)):
                    if isinstance(arm, ast.Constant) and arm.value == '':
                        arms.append((r, ast.Constant(value='""'), facts | _split(e.args[0].test, pol)))
                    else:
                        arms.append((r, ast.Call(func=e.func, args=[arm], keywords=[]), facts | _split(e.args[0].test, pol)))
            else:
                arms.append((r, e, facts))
        split(single_def(ctx, q, r.value) if r.value is not None else ast.Constant(value=None), set(facts0))
    for r, v, facts in arms:
        v = single_def(ctx, q, v)
        key = f'penman.constant:quote: returns {norm(v)[:60]}'
        if isinstance(v, ast.Constant) and isinstance(v.value, str):
            none_guard = (f'{p} is None', True) in facts or (f'{p} is not None', False) in facts
            good = v.value == '""' and none_guard
            # a constant result under a test that is also true for other values (truthiness, == '', equality with 0 ...)
            wider = [f for f, pol in facts if (f == p and not pol) or (f == f'not {p}' and pol)]
            rep.oblige('None is quoted as the empty string constant ""', good,
                       '' if good else f'returns {v.value!r} ' + (f'whenever `{p}` is falsy: the numbers 0 and 0.0 (and False) are quoted as {v.value!r} '
                                                                  f'instead of their string form' if wider else
                                                                  ('' if none_guard else 'outside the `is None` branch')),
                       q.loc(r), key=key, positive=(v.value != '""' or bool(wider)))
            continue
        d = dotted(v.func) if isinstance(v, ast.Call) else None
        raw = [x for x in ast.walk(v) if isinstance(x, ast.Call) and dotted(x.func) == 'json.dumps' and len(x.args) == 1
               and isinstance(x.args[0], ast.Name) and x.args[0].id == p and len(ctx.cg.local_assigns(q).get(p, [])) == 0]
        str_only = (f'isinstance({p}, str)', True) in facts
        if raw and not str_only:
            json_seen = True
            rep.add(key, q.loc(r), 'violation',
                    f'`{norm(raw[0])}` encodes the value itself, not its string form: JSON spells float("inf") as Infinity, float("nan") as NaN and True as true, '
                    f'where str() gives inf, nan and True - for those constants quote(x) is no longer the quoting of str(x), and evaluate(quote(x)) != str(x)')
            continue
        if d == 'json.dumps':
            json_seen = True
            arg = v.args[0] if v.args else None
            if isinstance(arg, ast.Name) and arg.id != p:
                d_ = single_def(ctx, q, arg)
                if isinstance(d_, ast.Call):
                    arg = d_                    # text = str(constant); json.dumps(text)
            arg_ok = len(v.args) == 1 and isinstance(arg, ast.Call) and isinstance(arg.func, ast.Name) \
                and arg.func.id == 'str' and len(arg.args) == 1 and isinstance(arg.args[0], ast.Name) \
                and arg.args[0].id == p and len(ctx.cg.local_assigns(q).get(p, [])) == 0
            rep.oblige('quote(x) is json.dumps(str(x)) of the argument itself', arg_ok, norm(v), q.loc(r), key=key, positive=False)
            bad_kw = []
            for kw in v.keywords:
                okk, val = try_fold(kw.value)
                if kw.arg == 'ensure_ascii' and okk and val is True:
                    continue
                bad_kw.append(norm(kw.value) if kw.arg is None else f'{kw.arg}={norm(kw.value)}')
            rep.oblige('json.dumps is called without options that change the output alphabet', not bad_kw,
                       f'keywords {bad_kw} (the JSON string model below assumes the defaults)', q.loc(r),
                       key=key + ' keywords', positive=True)
            continue
        rep.oblige('every return of quote is "" (for None) or json.dumps(str(x))', False,
                   f'returns {norm(v)[:60]}', q.loc(r), key=key, positive=False)
    if not json_seen:
        rep.oblige('quote goes through json.dumps', False, 'no json.dumps(str(x)) return', q.loc(), key='quote uses json.dumps', positive=False)
    # language facts (R8i)
    J = Lang.from_pattern(JSON_STR, 0, 'json.dumps(str)')
    lm = ctx.lex
    for cp in _patterns(ctx):
        if not cp.has('STRING'):
            continue
        S = cp.lang('STRING')
        w = J.witness_not_subset(S)
        rep.oblige(f'every JSON string is one {cp.name}.STRING token (J subset of L(STRING))', w is None,
                   f'{w!r} is emitted by quote but is not a STRING' if w else '', LEX, key=f'{cp.name} J subset STRING', positive=True)
        ext = S.cat(Lang.from_pattern('.+', re.DOTALL))
        w2 = ext.witness_intersection(J)
        rep.oblige(f'no JSON string has a shorter {cp.name}.STRING as a proper prefix', w2 is None,
                   f'{w2!r}' if w2 else '', LEX, key=f'{cp.name} J prefix-free wrt STRING', positive=True)
    term = CS.of('\n', '\r', '\x0b', '\x0c', '\x1c', '\x1d', '\x1e', '\x85', ' ', ' ')
    meet = J.alphabet() & term
    rep.oblige('a quoted constant contains no line terminator of any kind', not meet, meet.describe() if meet else '',
               CON, key='J excludes line terminators', positive=True)
    rep.oblige('a quoted constant starts and ends with a double quote',
               J.first_set() == CS.of('"') and J.last_set() == CS.of('"'), '', CON, key='J delimited', positive=True)
    # evaluate
    ev = repo.func('penman.constant', 'evaluate')
    _check_evaluate(ctx, rep, ev)
    ty = repo.func('penman.constant', 'type')
    calls_eval = any(any(t.kind == 'func' and t.func.fq == ev.fq for t in ts) for _, ts in ctx.cg.calls_in(ty))
    own_loads = [c for c, ts in ctx.cg.calls_in(ty) if any(t.kind == 'ext' and t.name in ('json.loads', 'json.JSONDecoder') for t in ts)]
    bare = [c for c in own_loads if not any(k.arg == 'parse_constant' for k in c.keywords)]
    if not calls_eval and bare:
        rep.add('type calls evaluate', ty.loc(bare[0]), 'violation',
                f'type() decodes the constant itself with `{norm(bare[0])[:50]}`, without the parse_constant=str hook evaluate() uses: the decoder then turns the spellings '
                f'NaN, Infinity and -Infinity into floats, so type("NaN") is FLOAT while evaluate("NaN") is the symbol "NaN" - the reported type and the evaluated value disagree')
    else:
        rep.oblige('type() derives the type from evaluate()', calls_eval, '', ty.loc(), key='type calls evaluate', positive=False)
    ok, tm = try_fold_typemap(ctx)
    # a hand-written number grammar in type()/evaluate() must be the JSON number grammar that evaluate() decodes with
    m = repo.module('penman.constant')
    pats = {}
    for f in (ty, ev):
        for n in walk_local(f.node):
            if isinstance(n, ast.Call) and isinstance(n.func, ast.Attribute) and n.func.attr in ('fullmatch', 'match') and isinstance(n.func.value, ast.Name):
                cv = m.constants.get(n.func.value.id)
                if isinstance(cv, ast.Call) and norm(cv.func) == 're.compile' and cv.args:
                    okp, pv = try_fold(cv.args[0], {}, repo, m)
                    if okp and isinstance(pv, str):
                        pats[n.func.value.id] = (pv, n)
    if pats:
        json_num = Lang.from_pattern(r'-?(?:0|[1-9][0-9]*)(?:\.[0-9]+)?(?:[eE][-+]?[0-9]+)?')
        union = None
        for nm, (pv, n) in sorted(pats.items()):
            l = Lang.from_pattern(pv)
            union = l if union is None else union.union(l)
        eq, only_code, only_json = union.equivalent(json_num)
        rep.add('penman.constant:type: a number grammar written by hand equals the JSON number grammar of evaluate()', ty.loc(),
                'ok' if eq else 'violation',
                '' if eq else f'the patterns {sorted(pats)} together ' + (f'do not match {only_json!r}, which json.loads reads as a number: type() and '
                                                                      f'evaluate() then disagree about it' if only_json is not None else
                                                                      f'match {only_code!r}, which is not JSON number syntax'))
    else:
        rep.oblige('the type map sends str/int/float/None to Symbol/Integer/Float/Null', ok, tm, CON, key='_typemap', positive=False)
    # raw_decode accepts a JSON value that is only a prefix of the text
    for f in (ty, ev):
        for n in walk_local(f.node):
            if isinstance(n, ast.Call) and isinstance(n.func, ast.Attribute) and n.func.attr == 'raw_decode':
                rep.violation(f'{f.fq}: the whole atom is decoded', f.loc(n), f'`{norm(n)[:60]}` stops at the end of the first JSON value and the rest of the atom is '
                              f'ignored: "1st" evaluates to 1, "trueness" to True, "nullify" to None')
    rep.assumptions += ['json.dumps(s) for a str s with default options emits: quote, then printable ASCII other than '
                        'quote/backslash, or \\" \\\\ \\b \\f \\n \\r \\t, or \\uXXXX with lower-case hex, then quote '
                        '(CPython json.encoder.ESCAPE_ASCII)',
                        'json.loads(j) inverts json.dumps for strings']
    return rep


def _check_evaluate(ctx, rep, ev: FuncInfo):
    """evaluate may be split into sequential phases: `return _check(_read(text))` with module-level one-argument helpers.  Each obligation is
    then looked for in the phase that holds the construct it is about; a later phase's parameter is "the value so far"."""
    body = [x for x in ev.node.body if not (isinstance(x, ast.Expr) and isinstance(x.value, ast.Constant))]
    chain = []
    if len(body) == 1 and isinstance(body[0], ast.Return) and isinstance(body[0].value, ast.Call):
        e = body[0].value
        while isinstance(e, ast.Call) and isinstance(e.func, ast.Name) and len(e.args) == 1 and not e.keywords:
            f = ctx.repo.maybe_func('penman.constant', e.func.id)
            if f is None or len(f.positional) != 1:
                chain = []
                break
            chain.append(f)
            e = e.args[0]
        if not (chain and isinstance(e, ast.Name) and e.id == ev.positional[0]):
            chain = []
    if not chain:
        return _check_evaluate_one(ctx, rep, ev, first=True, last=True)
    chain.reverse()
    seen_loads = any(any(t.kind == 'ext' and t.name == 'json.loads' for t in ts) for f in chain for _, ts in ctx.cg.calls_in(f)) or any(_decoder_alias_calls(ctx, f) for f in chain)
    rep.oblige('evaluate parses with json.loads', seen_loads, '', ev.loc(), key='evaluate uses json.loads', positive=False)
    filt_any = False
    for i, f in enumerate(chain):
        filt_any = _check_evaluate_one(ctx, rep, f, first=(i == 0), last=False, quiet=True) or filt_any
    rep.oblige('values other than None/str/int/float are refused with ConstantError', filt_any, '', ev.loc(),
               key='penman.constant:evaluate: isinstance filter', positive=False)


def _decoder_alias_calls(ctx, ev: FuncInfo):
    """calls of a module-level name bound to json.JSONDecoder(<hooks>).decode: the same decoder as json.loads(text, <hooks>); -> [(call, keywords)]"""
    out = []
    for c in walk_local(ev.node):
        if isinstance(c, ast.Call) and isinstance(c.func, ast.Name) and c.func.id in ev.module.constants:
            d = ev.module.constants[c.func.id]
            if isinstance(d, ast.Attribute) and d.attr == 'decode' and isinstance(d.value, ast.Call) and norm(d.value.func) in ('json.JSONDecoder', 'JSONDecoder') and not d.value.args:
                out.append((c, d.value.keywords))
    return out


def _check_evaluate_one(ctx, rep, ev: FuncInfo, first: bool, last: bool, quiet: bool = False):
    p = ev.positional[0]
    loads = [c for c, ts in ctx.cg.calls_in(ev) if any(t.kind == 'ext' and t.name == 'json.loads' for t in ts)]
    alias_kw = {}
    for c_, kws_ in _decoder_alias_calls(ctx, ev):
        if len(c_.args) == 1 and not c_.keywords:
            loads.append(c_)
            alias_kw[id(c_)] = kws_
    if not quiet:
        rep.oblige('evaluate parses with json.loads', len(loads) >= 1, '', ev.loc(), key='evaluate uses json.loads', positive=False)
    cfg = CFG(ev.node)
    IN = cond_facts(cfg)
    pm = ctx.repo.parent_map(ev.node)
    for c in loads:
        a0 = single_def(ctx, ev, c.args[0]) if c.args else None
        arg_ok = isinstance(a0, ast.Name) and a0.id == p
        rep.oblige('json.loads receives the constant text unchanged', arg_ok, norm(c), ev.loc(c),
                   key=f'penman.constant:evaluate: {norm(c)} argument', positive=False)
        kws = {k.arg: norm(k.value) for k in (alias_kw[id(c)] if id(c) in alias_kw else c.keywords)}
        good = kws == {'parse_constant': 'str'}
        rep.oblige('json.loads hooks: parse_constant=str and nothing else (NaN/Infinity stay text; no float/int/object hooks)',
                   good, f'keywords {kws}', ev.loc(c), key=f'penman.constant:evaluate: json.loads hooks', positive=True)
        facts = facts_at(cfg, IN, pm, c)
        guard = None
        for f, pol in facts:
            try:
                e = ast.parse(f, mode='eval').body
            except SyntaxError:
                continue
            if isinstance(e, ast.Compare) and len(e.ops) == 1 and isinstance(e.left, ast.Name) and e.left.id == p:
                okv, vals = try_fold(e.comparators[0], {}, ctx.repo, ev.module)
                if okv and isinstance(vals, (tuple, list, set, frozenset)):
                    if (isinstance(e.ops[0], ast.NotIn) and pol) or (isinstance(e.ops[0], ast.In) and not pol):
                        guard = set(vals)
        need = {'true', 'false', 'null'}
        # nothing but the spelling decides whether the decoder runs: a test of the LENGTH of the constant lets long quoted strings through undecoded
        for f, pol in facts:
            if pol and f.replace(' ', '').startswith(f'len({p})') and any(op in f for op in ('<', '>')):
                rep.add('penman.constant:evaluate: what reaches the decoder', ev.loc(c), 'violation',
                        f'json.loads only runs when `{f}`: a quoted string whose written form is longer than that comes back WITH its quotes and escapes (the same call is what '
                        f'unquotes strings), so evaluate(quote(s)) != s for a long s, while type() still says STRING')
        sub = None
        for f, pol in facts:
            try:
                e = ast.parse(f, mode='eval').body
            except SyntaxError:
                continue
            for cmp_ in [x for x in ast.walk(e) if isinstance(x, ast.Compare) and len(x.ops) == 1 and isinstance(x.ops[0], (ast.In, ast.NotIn))]:
                if isinstance(cmp_.comparators[0], ast.Name) and cmp_.comparators[0].id == p and not (isinstance(cmp_.left, ast.Name) and cmp_.left.id == p):
                    sub = (f, pol)
        if guard is None and sub is not None:
            rep.add('penman.constant:evaluate: literal-name guard', ev.loc(c), 'violation',
                    f'json.loads is guarded by `{sub[0]}` being {sub[1]}: that asks whether a word is CONTAINED in the constant, not whether the constant IS the word - every '
                    f'constant that has "true", "false" or "null" inside it ("untrue", "annulled", a quoted sentence) skips the decoder and comes back with its quotes and escapes, '
                    f'so evaluate(quote(x)) != x')
            continue
        rep.oblige('the JSON literal names true/false/null never reach json.loads', guard is not None and need <= guard,
                   f'guard set {sorted(guard) if guard else None}', ev.loc(c), key='penman.constant:evaluate: literal-name guard',
                   positive=guard is not None)
        # inside try/except JSONDecodeError (or ValueError)
        handled = False
        n = c
        while id(n) in pm:
            par = pm[id(n)]
            if isinstance(par, ast.Try) and n in par.body:
                for h in par.handlers:
                    t = norm(h.type) if h.type is not None else ''
                    if t in ('json.JSONDecodeError', 'JSONDecodeError', 'ValueError', 'Exception', '') or \
                            'JSONDecodeError' in t or 'ValueError' in t:
                        handled = True
            if isinstance(par, ast.With):
                # with contextlib.suppress(json.JSONDecodeError): value keeps the symbol text it already holds
                for item in par.items:
                    ce = item.context_expr
                    if isinstance(ce, ast.Call) and norm(ce.func) in ('suppress', 'contextlib.suppress') and \
                            any('JSONDecodeError' in norm(a) or norm(a) in ('ValueError', 'Exception') for a in ce.args):
                        handled = True
            n = par
        rep.oblige('a JSON syntax error falls back to the symbol text', handled, '', ev.loc(c),
                   key='penman.constant:evaluate: JSONDecodeError handled', positive=False)
    # final isinstance filter dominates every return of a loaded value
    filt = False
    mconst = ctx.repo.module('penman.constant')

    def type_names(x, depth=0):
        """names of the classes in the second argument of isinstance, through module-level tuples / tuple(<dict of types>)"""
        if depth > 8:
            return None
        if isinstance(x, ast.Tuple):
            out = set()
            for e in x.elts:
                t = type_names(e, depth + 1)
                if t is None:
                    return None
                out |= t
            return out
        if isinstance(x, ast.Call) and norm(x.func) in ('type', 'pytype') and len(x.args) == 1 and isinstance(x.args[0], ast.Constant) and x.args[0].value is None:
            return {'NoneType'}
        if isinstance(x, ast.Name) and x.id in ('str', 'int', 'float', 'bool', 'list', 'dict', 'tuple', 'object'):
            return {x.id}
        if isinstance(x, ast.Name) and x.id in mconst.constants:
            return type_names(mconst.constants[x.id], depth + 1)
        if isinstance(x, ast.Call) and norm(x.func) == 'tuple' and len(x.args) == 1:
            return type_names(x.args[0], depth + 1)
        if isinstance(x, ast.Dict):
            return type_names(ast.Tuple(elts=list(x.keys), ctx=ast.Load()), depth + 1)
        return None
    for n in walk_local(ev.node):
        if isinstance(n, ast.If) and any(isinstance(b, ast.Raise) for b in n.body):
            calls_ = [x for x in ast.walk(n.test) if isinstance(x, ast.Call) and norm(x.func) == 'isinstance' and len(x.args) == 2]
            if len(calls_) != 1:
                continue
            tn = type_names(calls_[0].args[1])
            raised = [norm(b.exc.func) for b in n.body if isinstance(b, ast.Raise) and isinstance(b.exc, ast.Call)]
            if tn is not None and {'str', 'int', 'float'} <= tn <= {'str', 'int', 'float', 'NoneType'} and 'ConstantError' in raised:
                filt = True
    if not quiet:
        rep.oblige('values other than None/str/int/float are refused with ConstantError', filt, '', ev.loc(),
                   key='penman.constant:evaluate: isinstance filter', positive=False)
    # every returned value is: the text itself, None, or what json.loads returned (through locals)
    from ..resolve import view as _view
    from ..cfg import def_value as _defv
    vw = _view(ctx, ev)
    rets = [n for n in walk_local(ev.node) if isinstance(n, ast.Return)]
    bad_src = []

    def ok_source(e, at, depth=0) -> bool:
        if depth > 6:
            return False
        if e is None or (isinstance(e, ast.Constant) and e.value is None):
            return True
        if isinstance(e, ast.Call) and dotted(e.func) == 'json.loads':
            return True
        if isinstance(e, ast.Call) and any(e is c_ for c_, _ in _decoder_alias_calls(ctx, ev)):
            return True
        if isinstance(e, ast.IfExp):
            return ok_source(e.body, at, depth + 1) and ok_source(e.orelse, at, depth + 1)
        if isinstance(e, ast.Name):
            if e.id == p and not ctx.cg.local_assigns(ev).get(p):
                return True
            try:
                defs = vw.rd.get(vw.node_of(at), {}).get(e.id) or ()
            except Exception:
                return False
            if not defs:
                return False
            for d in defs:
                if d == vw.cfg.entry:
                    if e.id != p:
                        return False
                    continue
                dv = _defv(vw.cfg, d, e.id)
                if dv is None or not ok_source(dv, vw.cfg.nodes[d].ast, depth + 1):
                    return False
            return True
        return False
    for r in rets:
        if not ok_source(r.value, r):
            bad_src.append(norm(r.value)[:40] if r.value is not None else 'None')
    rep.oblige('every value evaluate returns is the text itself, None, or what json.loads returned', not bad_src,
               '' if not bad_src else f'other sources: {bad_src}', ev.loc(), key=f'penman.constant:{ev.qualname}: result provenance', positive=False)
    conv = [n for n in walk_local(ev.node) if isinstance(n, ast.Call) and isinstance(n.func, ast.Name) and n.func.id in ('int', 'float', 'complex', 'eval')
            ]
    rep.oblige('numbers are recognised by the JSON number grammar only (no int()/float() on the text)', not conv,
               '' if not conv else f'{[norm(c)[:40] for c in conv]}: int()/float() accept texts that are not JSON numbers (leading zeros, '
                                   f'non-ASCII digits, underscores, surrounding blanks) and raise ValueError on others',
               ev.loc(), key=f'penman.constant:{ev.qualname}: no ad-hoc number conversion', positive=True)
    raises = set()
    pm_r = ctx.repo.parent_map(ev.node)
    for n in walk_local(ev.node):
        if isinstance(n, ast.Raise) and n.exc is not None:
            raises.add(norm(n.exc.func) if isinstance(n.exc, ast.Call) else norm(n.exc))
        elif isinstance(n, ast.Raise):
            # a bare raise hands on what the enclosing handler caught
            h = n
            while id(h) in pm_r and not isinstance(h, ast.ExceptHandler):
                h = pm_r[id(h)]
            raises.add(f're-raise of {norm(h.type) if isinstance(h, ast.ExceptHandler) and h.type is not None else "the caught exception"}')
    rep.oblige('evaluate raises only ConstantError explicitly', raises <= {'ConstantError'}, f'{sorted(raises)}',
               ev.loc(), key=f'penman.constant:{ev.qualname}: explicit raises', positive=True)
    return filt


def try_fold_typemap(ctx):
    m = ctx.repo.module('penman.constant')
    tm = m.constants.get('_typemap')
    if not isinstance(tm, ast.Dict):
        return False, '_typemap is not a dict literal'
    got = {}
    for k, v in zip(tm.keys, tm.values):
        got[norm(k)] = norm(v)
    want = {'str': {'SYMBOL', 'Type.SYMBOL'}, 'int': {'INTEGER', 'Type.INTEGER'},
            'float': {'FLOAT', 'Type.FLOAT'}, 'type(None)': {'NULL', 'Type.NULL'}}
    bad = [k for k in want if got.get(k) not in want[k]]
    extra = [k for k in got if k not in want]
    return (not bad and not extra), f'{got}'


# ---------------------------------------------------------------------------------------------
@rule('R129', 'lex() hands an iterable of lines on item by item: items are neither glued together nor cut at their first line break')
def r129(ctx: Ctx) -> RuleReport:
    from ..resolve import facts_ex
    rep = RuleReport('R129', r129.title, floor=1)
    fi = ctx.repo.func('penman._lexer', 'lex')
    lp = fi.positional[0]
    rebinds = [n for n in walk_local(fi.node) if isinstance(n, ast.Assign) and any(isinstance(t, ast.Name) and t.id == lp for t in n.targets)]
    if not rebinds:
        rep.ok(f'{fi.fq}: `{lp}` is passed on as it is for non-string input', fi.loc())
    for n in rebinds:
        fx = {(f.replace(' ', ''), pol) for f, pol in facts_ex(ctx, fi, n)}
        is_str = (f'isinstance({lp},str)', True) in fx
        v = n.value
        key = f'{fi.fq}: `{norm(n)[:60]}`'
        if is_str:
            rep.ok(key, fi.loc(n), 'string input (R6 judges the splitter)')
            continue
        # non-string input (or both kinds)
        if isinstance(v, ast.Call) and isinstance(v.func, ast.Attribute) and v.func.attr == 'join' and v.args and norm(v.args[0]) == lp:
            oks, sep = try_fold(v.func.value)
            rep.violation(key, fi.loc(n), f'the items of the iterable are glued together with {sep!r}: a list of lines WITHOUT terminators (text.split("\\n"), a generator of stripped '
                          f'lines) becomes one long line - a comment then swallows the graph that follows it, tokens of neighbouring lines merge - while the same lines given '
                          f'as one string, or read from a file, still decode')
            continue
        if isinstance(v, (ast.GeneratorExp, ast.ListComp)) and len(v.generators) == 1 and norm(v.generators[0].iter) == lp and isinstance(v.generators[0].target, ast.Name):
            tv = v.generators[0].target.id
            if v.generators[0].ifs:
                rep.violation(key, fi.loc(n), f'items are filtered with {[norm(c) for c in v.generators[0].ifs]}: lines disappear before they are counted and scanned')
                continue
            e = v.elt
            first_part = [x for x in ast.walk(e) if isinstance(x, ast.Subscript) and try_fold(x.slice) == (True, 0) and isinstance(x.value, ast.Call)
                          and isinstance(x.value.func, ast.Attribute) and x.value.func.attr in ('split', 'partition', 'splitlines', 'rsplit')]
            if first_part:
                rep.violation(key, fi.loc(n), f'each item is replaced by `{norm(first_part[0])[:50]}`, the text BEFORE its first line break: an item that holds more than one physical line '
                              f'(a multi-line graph block in a list) loses everything after the first break - no tokens are produced for the rest, characters are silently skipped')
            elif isinstance(e, ast.Name) and e.id == tv:
                rep.ok(key, fi.loc(n), 'items unchanged')
            elif isinstance(e, ast.Call) and isinstance(e.func, ast.Attribute) and e.func.attr in ('rstrip',) and norm(e.func.value) == tv:
                rep.add(key, fi.loc(n), 'info', 'trailing characters are stripped from each item (R111 judges the character set)')
            else:
                rep.undecided(key, fi.loc(n), norm(e)[:60])
            continue
        if isinstance(v, ast.Call) and (norm(v.func) in ('re.split',) or (isinstance(v.func, ast.Attribute) and v.func.attr in ('split', 'splitlines'))):
            rep.add(key, fi.loc(n), 'info', 'a split of the whole text (R6 judges the splitter and the condition it stands under)')
            continue
        rep.undecided(key, fi.loc(n), norm(v)[:60])
    return rep
