"""R14 (no documented-pure call mutates an argument or module state), R14g_constant (constant.* does not
depend on mutable module state)."""
from __future__ import annotations

import ast
import json
from pathlib import Path
from typing import Dict, List, Optional, Set, Tuple

from ..core import Ctx, RuleReport, rule
from ..effects import EffectsEngine
from ..src import AnalysisError, FuncInfo, norm, walk_local

SPEC = Path(__file__).resolve().parent.parent.parent / 'spec'


def load_api():
    d = json.loads((SPEC / 'pure_api.json').read_text())
    entries = []
    for fq in d['pure']:
        entries.append({'func': fq, 'designated': d['in_place'].get(fq, [])})
    for fq, des in d['in_place'].items():
        if fq not in d['pure']:
            entries.append({'func': fq, 'designated': des})
    return entries


def effects(ctx: Ctx) -> EffectsEngine:
    if 'effects' not in ctx._cache:
        ctx._cache['effects'] = EffectsEngine(ctx.repo, ctx.cg, ctx.types, load_api())
    return ctx._cache['effects']


def call_chain(ctx: Ctx, src: FuncInfo, dst: FuncInfo) -> List[str]:
    from collections import deque
    prev: Dict[str, Optional[str]] = {src.fq: None}
    q = deque([src])
    while q:
        f = q.popleft()
        if f.fq == dst.fq:
            out = [f.fq]
            while prev[out[-1]] is not None:
                out.append(prev[out[-1]])
            return [x.split(':')[1] for x in reversed(out)]
        for c in ctx.cg.callees(f):
            if c.fq not in prev:
                prev[c.fq] = f.fq
                q.append(c)
    return [src.qualname, '...', dst.qualname]


_ALLOC_CALLS = {'dict', 'list', 'set', 'defaultdict', 'collections.defaultdict', 'OrderedDict', 'collections.OrderedDict', 'Counter', 'collections.Counter', 'deque'}


def _fresh_local_root(ctx: Ctx, fi: FuncInfo, ev) -> bool:
    try:
        e = ast.parse(ev.recv_src, mode='eval').body
    except SyntaxError:
        return False
    while isinstance(e, (ast.Subscript, ast.Attribute, ast.Call)):
        if isinstance(e, ast.Call):
            # x.setdefault(k, <fresh>) / x.get(k): rooted at x
            if isinstance(e.func, ast.Attribute) and e.func.attr in ('setdefault', 'get', '__getitem__'):
                e = e.func.value
                continue
            return False
        e = e.value
    if not isinstance(e, ast.Name) or e.id in fi.params:
        return False
    if any(isinstance(x, (ast.Global, ast.Nonlocal)) and e.id in x.names for x in walk_local(fi.node)):
        return False
    vals = ctx.cg.local_assigns(fi).get(e.id, [])
    if not vals:
        return False
    for v in vals:
        if isinstance(v, (ast.Dict, ast.List, ast.Set, ast.ListComp, ast.DictComp, ast.SetComp)):
            continue
        if isinstance(v, ast.Call) and norm(v.func) in _ALLOC_CALLS and all(isinstance(a, (ast.Constant, ast.Name)) and (isinstance(a, ast.Constant) or a.id in ('list', 'set', 'dict', 'int'))
                                                                        for a in v.args):
            continue
        return False
    return True


def _allocated_in(o, fi: FuncInfo) -> bool:
    w = getattr(o, 'where', '') or ''
    if ':' not in w:
        return False
    path, _, ln = w.rpartition(':')
    return path == fi.module.relpath and ln.isdigit() and fi.node.lineno <= int(ln) <= (fi.node.end_lineno or fi.node.lineno)


@rule('R14', 'no call documented as returning a new object mutates one of its arguments or module-level state')
def r14(ctx: Ctx) -> RuleReport:
    rep = RuleReport('R14', r14.title, floor=60)
    eng = effects(ctx)
    api = {e['func']: set(e['designated']) for e in load_api()}
    globals_ = eng.global_reachable()
    pms: Dict[str, dict] = {}
    n_events = 0
    seen_keys: Set[str] = set()
    for ev in eng.events:
        n_events += 1
        fi = ev.fi
        if fi.fq not in pms:
            pms[fi.fq] = ctx.repo.parent_map(fi.node)
        stmt = ev.stmt_src(pms[fi.fq])
        hits: List[Tuple[str, str, str]] = []
        for o in ev.receivers:
            # a constructor initialising the object it is building (or helpers it allocated itself) is not
            # a mutation of pre-existing state, wherever the finished object ends up
            if ev.ctx is not None and ev.ctx[0] == 'ctor' and (o.actx == ev.ctx or eng.ctor_self.get(ev.ctx) is o):
                continue
            # a function filling a container it allocated itself in this activation: the receiver is rooted at a local name whose every definition
            # is an allocation expression of this function, and the object was allocated inside this function
            if _fresh_local_root(ctx, fi, ev) and o.origin is None and o.is_param is None and _allocated_in(o, fi):
                continue
            if o.is_param is not None:
                efq, p = o.is_param
                if p not in api.get(efq, set()):
                    hits.append((efq, p, o.label))
            if o in globals_ and fi.module.name != 'penman.__main__':
                hits.append(('<module state>', globals_[o], o.label))
        base = f'{fi.module.name}:{fi.qualname}: {stmt}'
        if not hits:
            if base not in seen_keys and ev.receivers:
                seen_keys.add(base)
                rep.ok(base, fi.loc(ev.node), f'{ev.kind} on {sorted(o.label for o in ev.receivers)[:3]}')
            continue
        for efq, p, lab in sorted(set(hits)):
            key = f'{base} [mutates {efq.split(":")[-1]}({p})]'
            if key in seen_keys:
                continue
            seen_keys.add(key)
            if efq == '<module state>':
                rep.violation(key, fi.loc(ev.node),
                              f'{ev.kind} on `{ev.recv_src}` may write the module-level object {p}: later calls (and other '
                              f'threads) see the change, so results depend on call history')
            else:
                entry = eng.funcs[efq]
                chain = call_chain(ctx, entry, fi)
                rep.violation(key, fi.loc(ev.node),
                              f'{ev.kind} on `{ev.recv_src}` may write {lab}: the argument `{p}` of {efq.split(":")[1]} is documented '
                              f'to be left unchanged. Call chain: {" -> ".join(chain)}')
    rep.analysed = eng.stats()
    rep.analysed['entry_points'] = len(api)
    rep.analysed['events_examined'] = n_events
    rep.assumptions += ['no reflection on rule paths; standard-library calls other than the summarised container/copy/json '
                        'functions are pure on their arguments and return fresh values',
                        'consuming an iterator or reading/writing a file object argument is not a mutation',
                        'copy.deepcopy returns a structure that shares nothing with its argument']
    return rep


@rule('R14g_constant', 'quote / evaluate / type read no mutable module state (their result depends on the argument only)')
def r14g_constant(ctx: Ctx) -> RuleReport:
    rep = RuleReport('R14g_constant', r14g_constant.title, floor=3)
    m = ctx.repo.module('penman.constant')
    mutable = {}
    for name, v in m.constants.items():
        if isinstance(v, (ast.Dict, ast.List, ast.Set, ast.ListComp, ast.DictComp, ast.SetComp)) or \
                (isinstance(v, ast.Call) and isinstance(v.func, ast.Name) and v.func.id in ('dict', 'list', 'set', 'defaultdict')):
            mutable[name] = v
    # which of them are written anywhere in the package?
    written: Dict[str, List[str]] = {}
    for fi in ctx.repo.all_functions():
        if fi.module.name != 'penman.constant':
            continue
        for n in walk_local(fi.node):
            tg = []
            if isinstance(n, ast.Assign):
                tg = n.targets
            elif isinstance(n, (ast.AugAssign, ast.AnnAssign)):
                tg = [n.target]
            elif isinstance(n, ast.Delete):
                tg = n.targets
            flat = []
            for t in tg:
                flat += list(t.elts) if isinstance(t, (ast.Tuple, ast.List)) else [t]
            for t in flat:
                if isinstance(t, ast.Subscript) and isinstance(t.value, ast.Name) and t.value.id in mutable:
                    written.setdefault(t.value.id, []).append(fi.loc(n))
            if isinstance(n, ast.Call) and isinstance(n.func, ast.Attribute) and isinstance(n.func.value, ast.Name) \
                    and n.func.value.id in mutable and n.func.attr in ('update', 'setdefault', 'pop', 'clear', 'append', 'add', 'popitem'):
                written.setdefault(n.func.value.id, []).append(fi.loc(n))
            if isinstance(n, ast.Global):
                for g in n.names:
                    written.setdefault(g, []).append(fi.loc(n))
    for fn in ('quote', 'evaluate', 'type'):
        fi = ctx.repo.func('penman.constant', fn)
        reads = sorted({n.id for n in walk_local(fi.node) if isinstance(n, ast.Name) and isinstance(n.ctx, ast.Load)
                        and n.id in mutable and n.id not in fi.params})
        bad = [r for r in reads if r in written]
        rep.add(f'penman.constant:{fn}: depends on its argument only', fi.loc(), 'violation' if bad else 'ok',
                f'reads module-level {bad}, which is written at {written[bad[0]]}: the result depends on earlier calls '
                f'(and dict keys conflate 1, 1.0 and True)' if bad else (f'reads constant table(s) {reads} that are never written' if reads else ''))
    return rep


# ---------------------------------------------------------------------------------------------
FRESH_TREE_RESULTS = ['penman.transform:canonicalize_roles', 'penman.layout:configure', 'penman.layout:reconfigure', 'penman._parse:parse']


@rule('R14r', 'a call documented as returning a new tree returns no branch list of its argument (rearrange and reset_variables work in place on what they are given)')
def r14r(ctx: Ctx) -> RuleReport:
    rep = RuleReport('R14r', r14r.title, floor=2)
    eng = effects(ctx)

    def closure(roots):
        out, stack = set(), list(roots)
        while stack:
            o = stack.pop()
            if o in out:
                continue
            out.add(o)
            fs = set(o.fields) | (set(o.origin.fields) if o.origin is not None else set())
            for f in fs:
                for t in eng.getf(o, f):
                    if t not in out:
                        stack.append(t)
        return out
    for fq in FRESH_TREE_RESULTS:
        if fq not in eng.funcs:
            rep.undecided(f'{fq}: analysed by the points-to engine', 'penman/', 'function not found')
            continue
        fi = eng.funcs[fq]
        rets = set()
        for (f2, c2), objs in eng.ret_pts.items():
            if f2 == fq:
                rets |= objs
        reach = closure(rets)
        shared = sorted((o for o in reach if o.is_param is not None and o.is_param[0] == fq and o.kind == 'list'), key=lambda o: o.label)
        key = f'{fq}: the result shares no list with an argument'
        if shared:
            o = shared[0]
            rep.violation(key, fi.loc(), f'the returned tree can contain {o.label} (argument `{o.is_param[1]}`): the caller then holds two trees with common branch lists, and the documented '
                          f'in-place operations on the result (layout.rearrange, Tree.reset_variables) silently rewrite the original as well')
        else:
            rep.ok(key, fi.loc(), f'{len(reach)} abstract objects reachable from the result')
    return rep
