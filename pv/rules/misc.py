"""R18 (exception closure of the parse entry points), R35 (recursion frames per nesting level),
R37 (all containers reach one lexer; dump/dumps framing), R17 (loop progress, syntactic part)."""
from __future__ import annotations

import ast
from typing import Dict, List, Optional, Set, Tuple

from ..cfg import CFG, cond_facts, facts_at, owner_node
from ..core import Ctx, RuleReport, rule
from ..src import AnalysisError, FuncInfo, norm, try_fold, walk_local
from .lexical import single_def
from .parser import error_builders, exception_classes, token_ops, _is_tokit

PARSE_ENTRIES = [('penman._parse', 'parse'), ('penman._parse', 'iterparse'), ('penman._parse', 'parse_triples')]


def _reach(ctx: Ctx, roots: List[FuncInfo]) -> List[FuncInfo]:
    return [f for f in ctx.cg.reachable(roots) if f.module.name.startswith('penman')]


def _lastgroup_is_none(ctx: Ctx, f, raise_node) -> bool:
    """The raise is guarded by `<m.lastgroup> is None` (possibly through a local): R8a shows that cannot happen."""
    from ..resolve import facts_ex
    for fact, pol in facts_ex(ctx, f, raise_node):
        if pol and fact.endswith(' is None') and '.lastgroup' in fact:
            return True
        if not pol and fact.endswith(' is not None') and '.lastgroup' in fact:
            return True
    return False


@rule('R18', 'only DecodeError can be raised explicitly on the parse paths; implicit raise sites are inventoried')
def r18(ctx: Ctx) -> RuleReport:
    rep = RuleReport('R18', r18.title, floor=6)
    roots = [ctx.repo.func(m, q) for m, q in PARSE_ENTRIES]
    funcs = _reach(ctx, roots)
    # constructors reached only through Tree(...) etc. are data classes; keep functions of the parse/lex modules and Tree
    funcs = [f for f in funcs if f.module.name in ('penman._parse', 'penman._lexer', 'penman.tree', 'penman.exceptions')]
    builders = {f.fq for f in error_builders(ctx)}
    exc = exception_classes(ctx)
    rep.analysed['functions'] = sorted(f.fq for f in funcs)
    discharged = {
        ('penman._lexer:_lex', 'ValueError'): 'R8a: every alternative is a named group, so m.lastgroup is never None',
        ('penman._lexer:TokenIterator.next', 'StopIteration'): 'R16/R19: next() is only called after a successful peek, or inside '
                                                               'try/except StopIteration (expect) / behind `_next is not None` (accept)',
    }
    for f in funcs:
        pm = ctx.repo.parent_map(f.node)
        for n in walk_local(f.node):
            if not isinstance(n, ast.Raise):
                continue
            key = f'{f.module.name}:{f.qualname}: {norm(n)[:80]}'
            if n.exc is None:
                # re-raise inside a handler: the class of the handler
                h = n
                cls = None
                while id(h) in pm:
                    h = pm[id(h)]
                    if isinstance(h, ast.ExceptHandler):
                        cls = norm(h.type) if h.type is not None else 'BaseException'
                        if cls in ('Exception', 'BaseException'):
                            # a bare re-raise under a blanket handler lets through exactly what the guarded statements raise
                            tr = pm.get(id(h))
                            body = tr.body if isinstance(tr, ast.Try) else []
                            from .small import _explicit_raises
                            lib = _explicit_raises(ctx, f, body)
                            nxt = any(isinstance(x, ast.Call) and isinstance(x.func, ast.Name) and x.func.id == 'next' for st in body for x in ast.walk(st))
                            if nxt and not (lib - {'DecodeError'}):
                                cls = 'StopIteration'
                            elif lib and not (lib - {'DecodeError'}):
                                cls = 'DecodeError'
                        break
                cls = cls or '?'
            else:
                v = single_def(ctx, f, n.exc)
                cls = None
                if isinstance(v, ast.Call):
                    ts = ctx.cg.resolve_call(v, f)
                    for t in ts:
                        if t.kind == 'func' and t.func.fq in builders:
                            cls = 'DecodeError'
                        elif t.kind == 'class':
                            cls = t.cls.name
                        elif t.kind == 'ext':
                            cls = t.name.split('.')[-1]
                        elif t.kind == 'func':
                            # a helper that builds the exception: the class it returns
                            for r in [x for x in walk_local(t.func.node) if isinstance(x, ast.Return) and isinstance(x.value, ast.Call)]:
                                for t2 in ctx.cg.resolve_call(r.value, t.func):
                                    if t2.kind == 'ext':
                                        cls = t2.name.split('.')[-1]
                                    elif t2.kind == 'class':
                                        cls = t2.cls.name
                cls = cls or norm(n.exc)
            if cls == 'DecodeError':
                rep.ok(key, f.loc(n), 'the documented decode error')
            elif (f.fq, cls) in discharged or (cls == 'ValueError' and f.module.name == 'penman._lexer' and _lastgroup_is_none(ctx, f, n)):
                rep.exception(key, f.loc(n), discharged.get((f.fq, cls), discharged[('penman._lexer:_lex', 'ValueError')]))
            else:
                rep.violation(key, f.loc(n), f'{cls} can be raised on a parse path: callers are promised DecodeError only')
        # implicit sites
        for n in walk_local(f.node):
            if isinstance(n, ast.Subscript) and isinstance(n.ctx, ast.Load) and not isinstance(n.slice, ast.Slice):
                t = ctx.types.type_of(f, n.value)
                rep.info(f'{f.module.name}:{f.qualname}: implicit {norm(n)[:50]}', f.loc(n), 'subscript load (IndexError/KeyError if out of range)')
            if isinstance(n, ast.Call) and isinstance(n.func, ast.Name) and n.func.id in ('int', 'float') and n.args:
                rep.info(f'{f.module.name}:{f.qualname}: implicit {norm(n)[:50]}', f.loc(n), 'conversion may raise ValueError')
            if isinstance(n, ast.Call) and isinstance(n.func, ast.Attribute) and n.func.attr in ('index', 'rindex'):
                rep.info(f'{f.module.name}:{f.qualname}: implicit {norm(n)[:50]}', f.loc(n), 'index() may raise ValueError')
            if isinstance(n, ast.Assert):
                rep.info(f'{f.module.name}:{f.qualname}: implicit {norm(n)[:50]}', f.loc(n), 'assert')
    return rep


@rule('R35', 'the parser recursion uses few enough frames per nesting level for 200 levels under the default recursion limit')
def r35(ctx: Ctx) -> RuleReport:
    rep = RuleReport('R35', r35.title, floor=2)
    root = ctx.repo.func('penman._parse', 'parse')
    funcs = {f.fq: f for f in _reach(ctx, [root])}
    graph: Dict[str, List[str]] = {fq: [c.fq for c in ctx.cg.callees(f) if c.fq in funcs] for fq, f in funcs.items()}
    # strongly connected components (Tarjan, iterative-free: graph is tiny)
    index: Dict[str, int] = {}
    low: Dict[str, int] = {}
    onstack: Set[str] = set()
    stack: List[str] = []
    sccs: List[List[str]] = []
    counter = [0]

    def strong(v):
        index[v] = low[v] = counter[0]
        counter[0] += 1
        stack.append(v)
        onstack.add(v)
        for w in graph[v]:
            if w not in index:
                strong(w)
                low[v] = min(low[v], low[w])
            elif w in onstack:
                low[v] = min(low[v], index[w])
        if low[v] == index[v]:
            comp = []
            while True:
                w = stack.pop()
                onstack.discard(w)
                comp.append(w)
                if w == v:
                    break
            sccs.append(comp)
    for v in graph:
        if v not in index:
            strong(v)
    cyc = [c for c in sccs if len(c) > 1 or c[0] in graph[c[0]]]
    if not cyc:
        raise AnalysisError('R35: the parser is no longer recursive')
    LEVELS, LIMIT, CALLER_ALLOWANCE = 200, 1000, 120
    for comp in cyc:
        comp_set = set(comp)
        # longest simple cycle through the component = frames per nesting level (upper bound: its size)
        per_level = len(comp)
        # longest acyclic chain below the component
        memo: Dict[str, int] = {}

        def depth_below(v, seen=()):
            if v in memo:
                return memo[v]
            best = 0
            for w in graph[v]:
                if w in comp_set or w in seen:
                    continue
                best = max(best, 1 + depth_below(w, seen + (v,)))
            memo[v] = best
            return best
        below = max(depth_below(v) for v in comp) + 2      # + builtin next() and the _lex generator frame
        # chain from the entry to the component
        from collections import deque
        dist = {root.fq: 1}
        q = deque([root.fq])
        while q:
            v = q.popleft()
            for w in graph[v]:
                if w not in dist:
                    dist[w] = dist[v] + 1
                    q.append(w)
        above = min(dist[v] for v in comp if v in dist)
        total = above + per_level * LEVELS + below + CALLER_ALLOWANCE
        key = 'penman._parse: recursion cycle ' + ' -> '.join(sorted(x.split(':')[1] for x in comp))
        rep.add(key, 'penman/_parse.py', 'ok' if total < LIMIT else 'undecided',
                f'{per_level} frame(s) per nesting level x {LEVELS} levels + {above} above + {below} below + {CALLER_ALLOWANCE} '
                f'caller allowance = {total} (limit {LIMIT})')
    rep.ok('penman._parse: parse is recursive descent over _parse_node/_parse_edge', 'penman/_parse.py')
    rep.assumptions.append('CPython default recursion limit 1000; callers use at most 120 frames')
    return rep


@rule('R37', 'every container of text reaches the one lexer; comments and node come from one token stream; dump and dumps frame alike')
def r37(ctx: Ctx) -> RuleReport:
    rep = RuleReport('R37', r37.title, floor=8)
    lex = ctx.repo.func('penman._lexer', 'lex')
    entries = [('penman.codec', 'PENMANCodec.decode'), ('penman.codec', 'PENMANCodec.iterdecode'), ('penman.codec', 'PENMANCodec.parse'),
               ('penman.codec', 'PENMANCodec.iterparse'), ('penman.codec', '_decode'), ('penman.codec', '_iterdecode'),
               ('penman.codec', '_loads'), ('penman.codec', '_load'), ('penman._parse', 'parse'), ('penman._parse', 'iterparse')]
    for m, q in entries:
        fi = ctx.repo.func(m, q)
        reach = {f.fq for f in ctx.cg.reachable([fi])}
        rep.add(f'{fi.fq}: reaches penman._lexer:lex', fi.loc(), 'ok' if lex.fq in reach else 'undecided',
                '' if lex.fq in reach else 'this entry point does not go through the common lexer')
    # lex is the only caller of _lex, and _lex the only place that scans
    callers = [f.fq for f, _ in ctx.cg.callers.get('penman._lexer:_lex', [])]
    rep.add('penman._lexer:_lex is called from lex only', lex.loc(), 'ok' if set(callers) == {lex.fq} else 'undecided', str(sorted(set(callers))))
    scans = []
    for f in ctx.repo.all_functions():
        for n in walk_local(f.node):
            if isinstance(n, ast.Call) and isinstance(n.func, ast.Attribute) and n.func.attr in ('finditer', 'scanner'):
                scans.append(f.fq)
    lexer_local = {f.fq for f in ctx.cg.reachable([ctx.repo.func('penman._lexer', '_lex')]) if f.module.name == 'penman._lexer'}
    rep.add('token scanning happens in one place (the lexer generator and its helpers)', lex.loc(),
            'ok' if scans and set(scans) <= lexer_local and len(set(scans)) == 1 else 'undecided', str(sorted(set(scans))))
    # the text handed to lex is the caller's argument itself (no rewriting before lexing)
    for m, q in (('penman._parse', 'parse'), ('penman._parse', 'iterparse'), ('penman._parse', 'parse_triples')):
        fi = ctx.repo.func(m, q)
        p0 = fi.positional[0]
        for call, ts in ctx.cg.calls_in(fi):
            if any(t.kind == 'func' and t.func.fq == lex.fq for t in ts):
                a0 = call.args[0] if call.args else next((k.value for k in call.keywords if k.arg == lex.positional[0]), None)
                good = isinstance(a0, ast.Name) and a0.id == p0 and not ctx.cg.local_assigns(fi).get(p0)
                rewritten = [v for v in (ctx.cg.local_assigns(fi).get(p0) or []) if isinstance(v, ast.Call)
                             and any(isinstance(x, ast.Name) and x.id == p0 for x in ast.walk(v))]
                inline_rewrite = isinstance(a0, ast.Call) and any(isinstance(x, ast.Name) and x.id == p0 for x in ast.walk(a0))
                rep.add(f'{fi.fq}: the input reaches the lexer unmodified', fi.loc(call),
                        'ok' if good else ('violation' if rewritten or inline_rewrite else 'undecided'),
                        '' if good else f'lex() receives {norm(a0) if a0 is not None else None}; the parameter {p0} is rewritten before lexing '
                                        f'(a textual rewrite also applies inside quoted strings)')
                pat = next((k.value for k in call.keywords if k.arg == 'pattern'), call.args[1] if len(call.args) > 1 else None)
                want = 'TRIPLE_RE' if q == 'parse_triples' else 'PENMAN_RE'
                rep.add(f'{fi.fq}: lexes with {want}', fi.loc(call), 'ok' if pat is not None and norm(pat) == want else 'undecided',
                        norm(pat) if pat is not None else 'default')
    # _parse: comments, then node, from the same stream
    p = ctx.repo.func('penman._parse', '_parse')
    calls = [(c, ts) for c, ts in ctx.cg.calls_in(p)]
    order = []
    tp = p.positional[0]
    for c, ts in calls:
        for t in ts:
            if t.kind == 'func' and t.func.module.name == 'penman._parse' and c.args and norm(c.args[0]) == tp:
                kind = 'node' if t.func.qualname == '_parse_node' else ('comments' if any(
                    isinstance(x, ast.Constant) and x.value == 'COMMENT' for x in ast.walk(t.func.node)) else None)
                if kind:
                    order.append((c.lineno, c.col_offset, kind, norm(c.args[0])))
    # comments consumed inline: `while tokens.peek().type == 'COMMENT': ... tokens.next() ...`
    for n in walk_local(p.node):
        if isinstance(n, ast.While) and "'COMMENT'" in norm(n.test) and norm(n.test).startswith(f'{tp}.') and \
                any(isinstance(x, ast.Call) and norm(x.func) == f'{tp}.next' for x in ast.walk(n)):
            order.append((n.lineno, n.col_offset, 'comments', tp))
    order.sort()
    good = [o[2] for o in order] == ['comments', 'node'] and len({o[3] for o in order}) == 1
    rep.add('penman._parse:_parse: metadata comments are read, then the node, from the same token stream', p.loc(), 'ok' if good else 'undecided', str(order))
    tr = [c for c, ts in calls if any(t.kind == 'class' and t.cls.name == 'Tree' for t in ts)]
    good = bool(tr) and any(k.arg == 'metadata' for k in tr[0].keywords)
    rep.add('penman._parse:_parse: the metadata is attached to the tree of that node', p.loc(), 'ok' if good else 'undecided')
    # framing
    d = ctx.repo.func('penman.codec', '_dumps')
    rets = [n for n in walk_local(d.node) if isinstance(n, ast.Return) and n.value is not None]
    good = len(rets) == 1 and isinstance(rets[0].value, ast.Call) and isinstance(rets[0].value.func, ast.Attribute) \
        and rets[0].value.func.attr == 'join' and try_fold(rets[0].value.func.value) == (True, '\n\n')
    rep.add('penman.codec:_dumps: graphs are separated by exactly one empty line', d.loc(), 'ok' if good else 'undecided')
    ds = ctx.repo.func('penman.codec', '_dump_stream')
    fhp = ds.positional[0]
    loop = next((n for n in walk_local(ds.node) if isinstance(n, ast.For)), None)

    def pieces_of(e: ast.AST):
        if isinstance(e, ast.BinOp) and isinstance(e.op, ast.Add):
            return pieces_of(e.left) + pieces_of(e.right)
        if isinstance(e, ast.JoinedStr):
            out = []
            for v in e.values:
                out += [v.value] if isinstance(v, ast.Constant) else ['S' if True else None]
            return out
        if isinstance(e, ast.Constant) and isinstance(e.value, str):
            return [e.value]
        return ['S']            # a graph's text (next(ss) / the loop variable)

    def emitted(stmts):
        """text pieces written to the stream by a straight-line statement list; None if a write goes elsewhere / has extra keywords"""
        out = []
        for st in stmts:
            for c in [x for x in ast.walk(st) if isinstance(x, ast.Call)]:
                if isinstance(c.func, ast.Name) and c.func.id == 'print':
                    f = next((k.value for k in c.keywords if k.arg == 'file'), None)
                    if f is None or norm(f) != fhp or any(k.arg in ('end', 'sep') for k in c.keywords) or len(c.args) > 1:
                        return None
                    out += (pieces_of(c.args[0]) if c.args else []) + ['\n']
                elif isinstance(c.func, ast.Attribute) and c.func.attr == 'write' and norm(c.func.value) == fhp and len(c.args) == 1:
                    out += pieces_of(c.args[0])
        # merge adjacent literals
        merged = []
        for x in out:
            if merged and x != 'S' and merged[-1] != 'S':
                merged[-1] += x
            else:
                merged.append(x)
        return merged
    key = 'penman.codec:_dump_stream: first graph, then (empty line, graph) for each further one'
    if loop is None:
        rep.undecided(key, ds.loc(), 'no loop over the remaining graphs')
    else:
        pre = [st for st in ds.node.body if st is not loop and st.lineno < loop.lineno]
        head, body = emitted(pre), emitted(loop.body)
        if head is None or body is None:
            rep.undecided(key, ds.loc(), 'a write does not go to the stream argument with default separators')
        elif head == ['S', '\n'] and body == ['\n', 'S', '\n']:
            rep.ok(key, ds.loc(), f'{head} then {body} per further graph')
        elif head.count('S') == 1 and body.count('S') == 1:
            rep.violation(key, ds.loc(loop), f'the stream receives {head} for the first graph and {body} for each further one; dumps() joins the same '
                          f'texts with exactly one empty line and dump() adds a final newline, i.e. ["S", "\\n"] then ["\\n", "S", "\\n"]')
        else:
            rep.undecided(key, ds.loc(), f'{head} / {body}')
    # an empty sequence of graphs writes nothing (and does not raise)
    for n in walk_local(ds.node):
        if isinstance(n, ast.Call) and isinstance(n.func, ast.Name) and n.func.id == 'next' and len(n.args) == 1 and not n.keywords:
            guarded = False
            pmap = ctx.repo.parent_map(ds.node)
            x = n
            while id(x) in pmap:
                x = pmap[id(x)]
                if isinstance(x, ast.Try) and any(h.type is None or 'StopIteration' in norm(h.type) or norm(h.type) in ('Exception', 'BaseException')
                                                  for h in x.handlers) and any(n is y for b in x.body for y in ast.walk(b)):
                    guarded = True
            rep.add('penman.codec:_dump_stream: dumping no graphs at all writes nothing', ds.loc(n), 'ok' if guarded else 'violation',
                    '' if guarded else f'`{norm(n)}` has no default and no StopIteration handler: dump([]) raises StopIteration where dumps([]) returns ""')
    # dumps and dump encode with the same call
    from ..resolve import local_callees
    enc = {}
    for q in ('_dumps', '_dump'):
        f = ctx.repo.func('penman.codec', q)
        sites = set()
        for h in local_callees(ctx, f, depth=2):
            for c, ts in ctx.cg.calls_in(h):
                if any(t.kind == 'func' and t.func.qualname == 'PENMANCodec.encode' for t in ts):
                    sites.add((h.fq, norm(c), tuple(sorted(k.arg for k in c.keywords))))
        enc[q] = sites
    same_site = bool(enc['_dumps']) and enc['_dumps'] == enc['_dump']
    opts = {s[2] for v_ in enc.values() for s in v_}
    rep.add('penman.codec: dump and dumps encode each graph with the same options', d.loc(),
            'ok' if all(enc.values()) and opts == {('compact', 'indent')} else 'undecided',
            ('one shared call site: ' if same_site else '') + str(sorted(opts)))
    return rep
