"""Formatter rules: R20 (formatting options influence whitespace only), R8g (adjacent written
pieces cannot merge when lexed), R45 (metadata line writer/reader agreement), R56 (triple
conjunction writer), R19w (the writer's token grammar is inside the reader's)."""
from __future__ import annotations

import ast
import itertools
from typing import Dict, List, Optional, Set, Tuple

from ..core import Ctx, RuleReport, rule
from ..rx import CS
from ..src import AnalysisError, FuncInfo, norm, try_fold, walk_local
from .lexical import single_def

F = 'penman._format'

# abstract values of the option-taint domain
U = 'U'            # untainted value (content string, or any non-option data)
WS = 'WS'          # whitespace-only string, independent of the options
WST = 'WST'        # whitespace-only string that depends on the options
NT = 'NT'          # non-string value that depends on the options (number, bool, set, list)
BAD = 'BAD'        # a string with visible characters that depends on the options


def _is_ws_literal(s: str) -> bool:
    return s != '' and s.strip(' \t\n\r\x0b\x0c') == ''


class Taint:
    """Flow-insensitive option-taint analysis of the three formatter functions."""

    def __init__(self, ctx: Ctx, rep: RuleReport):
        self.ctx = ctx
        self.rep = rep
        from ..resolve import local_callees
        fmt0 = ctx.repo.func(F, 'format')
        self.funcs = {f.qualname: f for f in local_callees(ctx, fmt0, depth=4) if f.module.name == F}
        for q in ('_format_node', '_format_edge'):
            self.funcs.setdefault(q, ctx.repo.func(F, q))
        self.tainted_params: Dict[str, Set[str]] = {q: set() for q in self.funcs}
        self.ret_vals: Dict[str, Set[str]] = {q: set() for q in self.funcs}
        fmt = self.funcs['format']
        for p in fmt.positional[1:]:
            self.tainted_params['format'].add(p)          # indent, compact (everything but the tree)
        self.env: Dict[str, Dict[str, Set[str]]] = {q: {} for q in self.funcs}
        self.minlen: Dict[Tuple[str, str], int] = {}
        self.problems: List[Tuple[FuncInfo, ast.AST, str]] = []
        self.solve()

    def solve(self):
        for _ in range(12):
            before = (repr(self.env), repr(self.tainted_params), repr(self.ret_vals))
            for q, fi in self.funcs.items():
                env = self.env[q]
                for p in fi.params:
                    env.setdefault(p, set()).add(NT if p in self.tainted_params[q] else U)
                for n in walk_local(fi.node):
                    if isinstance(n, ast.Assign):
                        v = self.val(q, n.value)
                        for t in n.targets:
                            self.bind(q, t, v, n)
                    elif isinstance(n, ast.AugAssign) and isinstance(n.target, ast.Name):
                        v = self.val(q, n.value) | env.get(n.target.id, set())
                        ctl = self.control_tainted(fi, n)
                        env.setdefault(n.target.id, set()).update({NT} if (NT in v or ctl) else v)
                    elif isinstance(n, (ast.For, ast.comprehension)):
                        itv = self.val(q, n.iter)
                        for nm in [x.id for x in ast.walk(n.target) if isinstance(x, ast.Name)]:
                            env.setdefault(nm, set()).update({NT} if NT in itv else {U})
                    elif isinstance(n, ast.Call):
                        self.flow_call(q, n)
                    elif isinstance(n, ast.Return) and n.value is not None:
                        self.ret_vals[q] |= self.val(q, n.value)
            if (repr(self.env), repr(self.tainted_params), repr(self.ret_vals)) == before:
                break

    def bind(self, q, target, v: Set[str], stmt):
        fi = self.funcs[q]
        ctl = self.control_tainted(fi, stmt)
        names = [target.id] if isinstance(target, ast.Name) else [x.id for x in ast.walk(target) if isinstance(x, ast.Name)]
        for nm in names:
            cur = self.env[q].setdefault(nm, set())
            vv = set(v)
            if ctl:
                # a value chosen under an option-dependent test depends on the options
                vv = {WST if x in (WS, WST) else (NT if x in (NT, 'N') else ('CT' if x == U else x)) for x in vv}
            cur.update(vv)

    def flow_call(self, q, call: ast.Call):
        fi = self.funcs[q]
        for t in self.ctx.cg.resolve_call(call, fi):
            if t.kind == 'func' and t.func.module.name == F and t.func.qualname in self.funcs:
                callee = t.func
                for i, a in enumerate(call.args):
                    if i < len(callee.positional):
                        if self.val(q, a) & {NT, WST}:
                            self.tainted_params[callee.qualname].add(callee.positional[i])
                for kw in call.keywords:
                    if kw.arg in callee.params and self.val(q, kw.value) & {NT, WST}:
                        self.tainted_params[callee.qualname].add(kw.arg)

    def control_tainted(self, fi: FuncInfo, node: ast.AST) -> bool:
        pm = self.ctx.repo.parent_map(fi.node)
        n = node
        q = fi.qualname
        while id(n) in pm:
            par = pm[id(n)]
            if isinstance(par, (ast.If, ast.While)) and not any(x is n for x in ast.walk(par.test)):
                if self.val(q, par.test) & {NT, WST, BAD, 'CT'}:
                    return True
            if isinstance(par, ast.IfExp) and (n is par.body or n is par.orelse):
                if self.val(q, par.test) & {NT, WST, BAD, 'CT'}:
                    return True
            n = par
        return False

    def val(self, q: str, e: ast.AST) -> Set[str]:
        env = self.env[q]
        if isinstance(e, ast.Constant):
            if isinstance(e.value, str):
                return {WS} if _is_ws_literal(e.value) else {U}
            return {'N'}            # a literal number / flag / None
        if isinstance(e, ast.Name):
            if e.id not in env:
                from ..resolve import module_value
                ok, v = module_value(self.ctx, self.funcs[q].module, e.id)
                if ok and isinstance(v, str):
                    return {WS} if _is_ws_literal(v) else {U}
                if ok and not isinstance(v, (list, dict, set)):
                    return {'N'}
            return set(env.get(e.id, {U}))
        if isinstance(e, ast.BinOp):
            l, r = self.val(q, e.left), self.val(q, e.right)
            both = l | r
            if isinstance(e.op, (ast.Add, ast.Mult)):
                if (l & {WS, WST}) and not (l - {WS, WST}) and (isinstance(e.op, ast.Mult) or ((r & {WS, WST}) and not (r - {WS, WST}))):
                    return {WST} if (both & {WST, NT, 'CT'}) else {WS}
                if both & {NT, 'CT'} and not (both & {U, BAD}):
                    return {NT}
            if both & {NT, WST, BAD, 'CT'}:
                # arithmetic on option values stays a non-string; mixing into content is judged where it is formatted
                return {NT} if not self._is_stringy(e) else {BAD}
            return {U}
        if isinstance(e, ast.JoinedStr):
            out = {U}
            for v in e.values:
                if isinstance(v, ast.FormattedValue):
                    pv = self.val(q, v.value)
                    if pv & {NT, BAD, 'CT'}:
                        out = {BAD}
            return out
        if isinstance(e, ast.Call):
            fn = e.func
            args = [self.val(q, a) for a in e.args]
            anyt = set().union(*args) if args else set()
            if isinstance(fn, ast.Name) and fn.id in ('len', 'bool', 'set', 'int', 'isinstance', 'is_atomic', 'list', 'sorted', 'min', 'max'):
                return {NT} if anyt & {NT, WST, 'CT'} else {U}
            if isinstance(fn, ast.Name) and fn.id == 'str':
                return {BAD} if anyt & {NT, 'CT'} else ({WST} if anyt & {WST} else {U})
            if isinstance(fn, ast.Attribute) and fn.attr == 'join':
                recv = self.val(q, fn.value)
                if anyt & {NT, BAD}:
                    return {BAD}
                return {U}
            if isinstance(fn, ast.Attribute) and fn.attr == 'format':
                return {BAD} if anyt & {NT, BAD, 'CT'} else {U}
            if isinstance(fn, ast.Attribute):
                recv = self.val(q, fn.value)
                return {NT} if (recv | anyt) & {NT, 'CT'} else {U}
            # repo call: what the callee returns (the formatter functions return content)
            for t in self.ctx.cg.resolve_call(e, self.funcs[q]):
                if t.kind == 'func' and t.func.module.name == F and t.func.qualname in self.ret_vals:
                    rv = self.ret_vals[t.func.qualname]
                    return set(rv) if rv else {U}
            return {U}
        if isinstance(e, (ast.Compare, ast.BoolOp, ast.UnaryOp)):
            vals = set()
            for c in ast.iter_child_nodes(e):
                if isinstance(c, ast.expr):
                    vals |= self.val(q, c)
            return {NT} if vals & {NT, WST, 'CT'} else {U}
        if isinstance(e, ast.IfExp):
            t = self.val(q, e.test)
            b = self.val(q, e.body) | self.val(q, e.orelse)
            if t & {NT, WST, 'CT'}:
                if not (b - {WS, WST}):
                    return {WST}
                return {NT} if self._nonstring(e.body) and self._nonstring(e.orelse) else {'CT'}
            return b
        if isinstance(e, (ast.List, ast.Tuple, ast.Set)):
            vals = set()
            for x in e.elts:
                vals |= self.val(q, x)
            return vals or {U}
        if isinstance(e, (ast.ListComp, ast.GeneratorExp, ast.SetComp)):
            vals = self.val(q, e.elt)
            for g in e.generators:
                vals |= {NT} if self.val(q, g.iter) & {NT} else set()
            return vals
        if isinstance(e, ast.Subscript):
            return self.val(q, e.value)
        if isinstance(e, ast.Attribute):
            return self.val(q, e.value) if not isinstance(e.value, ast.Name) or e.value.id in env else {U}
        return {U}

    def _is_stringy(self, e) -> bool:
        return any(isinstance(x, (ast.JoinedStr,)) or (isinstance(x, ast.Constant) and isinstance(x.value, str)) for x in ast.walk(e))

    def _nonstring(self, e) -> bool:
        return isinstance(e, (ast.List, ast.ListComp, ast.Set, ast.Tuple, ast.Dict)) or \
            (isinstance(e, ast.Constant) and not isinstance(e.value, str)) or \
            (isinstance(e, ast.Call) and isinstance(e.func, ast.Name) and e.func.id in ('set', 'list', 'bool', 'len', 'int'))


def _min_ws_len(ctx: Ctx, fi: FuncInfo, e: ast.AST, depth: int = 0, at: Optional[ast.AST] = None) -> Optional[int]:
    """Lower bound on the length of a whitespace-only string expression (None: not provably whitespace-only)."""
    from ..resolve import helper_returns, module_value, view
    from ..cfg import def_value
    if depth > 8:
        return None
    at = at if at is not None else e
    if isinstance(e, ast.Constant) and isinstance(e.value, str):
        return len(e.value) if e.value == '' or _is_ws_literal(e.value) else None
    if isinstance(e, ast.BinOp) and isinstance(e.op, ast.Add):
        a, b = _min_ws_len(ctx, fi, e.left, depth + 1, at), _min_ws_len(ctx, fi, e.right, depth + 1, at)
        return None if a is None or b is None else a + b
    if isinstance(e, ast.BinOp) and isinstance(e.op, ast.Mult):
        a = _min_ws_len(ctx, fi, e.left, depth + 1, at)
        return None if a is None else 0
    if isinstance(e, ast.IfExp):
        a, b = _min_ws_len(ctx, fi, e.body, depth + 1, at), _min_ws_len(ctx, fi, e.orelse, depth + 1, at)
        return None if a is None or b is None else min(a, b)
    if isinstance(e, ast.Name):
        v = view(ctx, fi)
        try:
            here = v.node_of(at)
            defs = v.rd.get(here, {}).get(e.id)
        except Exception:
            defs = None
        if not defs:
            ok, mv = module_value(ctx, fi.module, e.id)
            if ok and isinstance(mv, str):
                return len(mv) if mv == '' or _is_ws_literal(mv) else None
            return None
        lens = []
        for d in defs:
            if d == v.cfg.entry:
                return None
            nd = v.cfg.nodes[d]
            val = def_value(v.cfg, d, e.id)
            if val is not None:
                lens.append(_min_ws_len(ctx, fi, val, depth + 1, nd.ast))
                continue
            st = nd.ast
            if nd.kind == 'stmt' and isinstance(st, ast.Assign) and isinstance(st.targets[0], ast.Tuple):
                names = [x.id if isinstance(x, ast.Name) else None for x in st.targets[0].elts]
                i = names.index(e.id) if e.id in names else None
                if i is None:
                    return None
                if isinstance(st.value, ast.Tuple) and len(st.value.elts) == len(names):
                    lens.append(_min_ws_len(ctx, fi, st.value.elts[i], depth + 1, st))
                    continue
                if isinstance(st.value, ast.Call):
                    ts = ctx.cg.resolve_call(st.value, fi)
                    hs = [t.func for t in ts if t.kind == 'func']
                    if len(hs) == 1:
                        h = hs[0]
                        for r in (x for x in walk_local(h.node) if isinstance(x, ast.Return) and x.value is not None):
                            if isinstance(r.value, ast.Tuple) and i < len(r.value.elts):
                                lens.append(_min_ws_len(ctx, h, r.value.elts[i], depth + 1, r))
                            else:
                                return None
                        continue
            return None
        return None if (not lens or any(x is None for x in lens)) else min(lens)
    if isinstance(e, ast.Call):
        ts = ctx.cg.resolve_call(e, fi)
        hs = [t.func for t in ts if t.kind == 'func']
        if len(hs) == 1:
            lens = [_min_ws_len(ctx, hs[0], r.value, depth + 1, r) for r in walk_local(hs[0].node)
                    if isinstance(r, ast.Return) and r.value is not None]
            return None if (not lens or any(x is None for x in lens)) else min(lens)
    return None


@rule('R20', 'indent and compact influence only the whitespace between written pieces, never their content, order or presence')
def r20(ctx: Ctx) -> RuleReport:
    rep = RuleReport('R20', r20.title, floor=10)
    ta = Taint(ctx, rep)
    rep.analysed['option_parameters'] = {q: sorted(v) for q, v in ta.tainted_params.items()}
    need = {'format': {'indent', 'compact'}, '_format_node': {'indent'}, '_format_edge': {'indent'}}
    for q, want in need.items():
        if not want <= ta.tainted_params[q]:
            raise AnalysisError(f'R20: option parameters of {q} are no longer {sorted(want)} (found {sorted(ta.tainted_params[q])})')
    # content producers: the three formatter functions and helpers whose result is written into the text
    producers = {'format', '_format_node', '_format_edge'}
    changed = True
    while changed:
        changed = False
        for q in list(producers):
            fi = ta.funcs.get(q)
            if fi is None:
                continue
            pm0 = ctx.repo.parent_map(fi.node)
            for call, ts in ctx.cg.calls_in(fi):
                for t in ts:
                    if t.kind == 'func' and t.func.module.name == F and t.func.qualname in ta.funcs and t.func.qualname not in producers:
                        par = pm0.get(id(call))
                        as_text = isinstance(par, (ast.Return, ast.FormattedValue, ast.JoinedStr)) or \
                            (isinstance(par, ast.Call) and isinstance(par.func, ast.Attribute) and par.func.attr in ('append', 'extend', 'join', 'format')) or \
                            (isinstance(par, ast.Assign) and isinstance(par.targets[0], ast.Name)
                             and any(isinstance(x, ast.Name) and x.id == par.targets[0].id and isinstance(pm0.get(id(x)), (ast.Return, ast.FormattedValue))
                                     for x in walk_local(fi.node)))
                        if as_text:
                            producers.add(t.func.qualname)
                            changed = True
    for q, fi in ta.funcs.items():
        pm = ctx.repo.parent_map(fi.node)
        joined_lists = {norm(n.args[0]) for n in walk_local(fi.node) if isinstance(n, ast.Call) and isinstance(n.func, ast.Attribute)
                        and n.func.attr == 'join' and len(n.args) == 1 and isinstance(n.args[0], ast.Name)}
        if q not in producers:
            continue        # a helper whose result is not placed into the text (e.g. it computes the joiner and the column)
        # (1) every string placed into the output is free of option-dependent visible characters
        for n in walk_local(fi.node):
            sinks: List[Tuple[ast.AST, str]] = []
            if isinstance(n, ast.Return) and n.value is not None:
                sinks.append((n.value, 'returned text'))
            if isinstance(n, ast.Call) and isinstance(n.func, ast.Attribute) and n.func.attr in ('append', 'extend', 'insert') and n.args \
                    and norm(n.func.value) in joined_lists:
                sinks.append((n.args[-1], f'appended to {norm(n.func.value)}'))
            for e, what in sinks:
                v = ta.val(q, e)
                key = f'{fi.module.name}:{fi.qualname}: {what}: {norm(e)[:70]}'
                if v & {BAD, 'CT'} or (v & {NT} and what == 'returned text'):
                    rep.violation(key, fi.loc(n), 'a formatting option reaches the visible characters of the output '
                                  '(an option value is formatted into the text, or content is chosen by an option)')
                else:
                    rep.ok(key, fi.loc(n))
                # (2) the statement itself is not controlled by an option test
                if ta.control_tainted(fi, n):
                    rep.violation(key + ' [control]', fi.loc(n),
                                  'whether this piece is written depends on a formatting option: outputs for different options '
                                  'would differ in more than whitespace')
        # (2b) jumps under an option test change which pieces are written
        for n in walk_local(fi.node):
            if isinstance(n, (ast.Continue, ast.Break, ast.Raise)) and ta.control_tainted(fi, n):
                rep.violation(f'{fi.module.name}:{fi.qualname}: {type(n).__name__.lower()} under an option test', fi.loc(n),
                              'a formatting option decides whether the rest of the loop body runs: pieces can be skipped for some '
                              'option values')
            if isinstance(n, ast.Return) and ta.control_tainted(fi, n):
                rep.violation(f'{fi.module.name}:{fi.qualname}: return under an option test: {norm(n)[:50]}', fi.loc(n),
                              'which text is returned depends on a formatting option')
        # (3) option-controlled assignments to content variables: only the projection-preserving regrouping is allowed
        for n in walk_local(fi.node):
            if isinstance(n, ast.Assign) and ta.control_tainted(fi, n):
                tgt = n.targets[0]
                v = ta.val(q, n.value)
                key = f'{fi.module.name}:{fi.qualname}: under an option test: {norm(n)[:70]}'
                if not (v - {WS, WST, NT, 'N'}) and not _mentions_content(ta, q, n.value):
                    rep.ok(key, fi.loc(n), 'assigns whitespace / a number / a flag')
                    continue
                regroup = isinstance(tgt, ast.Name) and isinstance(n.value, ast.List) and len(n.value.elts) == 1 and \
                    isinstance(n.value.elts[0], ast.Call) and isinstance(n.value.elts[0].func, ast.Attribute) and \
                    n.value.elts[0].func.attr == 'join' and len(n.value.elts[0].args) == 1 and \
                    norm(n.value.elts[0].args[0]) == tgt.id and (_min_ws_len(ctx, fi, n.value.elts[0].func.value, 0, n) or 0) >= 1
                # the same regrouping applied to a slice:  parts[a:b] = [ws.join(parts[a:b])]  (or parts[:] = ...)
                if not regroup and isinstance(tgt, ast.Subscript) and isinstance(tgt.slice, ast.Slice) and isinstance(n.value, ast.List) \
                        and len(n.value.elts) == 1 and isinstance(n.value.elts[0], ast.Call) and isinstance(n.value.elts[0].func, ast.Attribute) \
                        and n.value.elts[0].func.attr == 'join' and len(n.value.elts[0].args) == 1:
                    joined = n.value.elts[0].args[0]
                    same = norm(joined) == norm(ast.Subscript(value=tgt.value, slice=tgt.slice, ctx=ast.Load())) or \
                        (norm(joined) == norm(tgt.value) and tgt.slice.lower is None and tgt.slice.upper is None)
                    regroup = same and (_min_ws_len(ctx, fi, n.value.elts[0].func.value, 0, n) or 0) >= 1
                alias = isinstance(tgt, ast.Name) and isinstance(n.value, ast.Name)     # `current = rest`: switches which list later pieces go to
                if isinstance(tgt, ast.Name) and _only_an_option_argument(ctx, ta, fi, tgt.id):
                    rep.ok(key, fi.loc(n), f'`{tgt.id}` only travels on as an option argument of the formatter helpers')
                    continue
                if regroup:
                    rep.ok(key, fi.loc(n), 'projection-preserving regrouping: parts = [<whitespace>.join(parts)]')
                elif alias:
                    rep.undecided(key, fi.loc(n), 'an option decides which list the following pieces are collected in; whether all lists are written, in order, is not analysed')
                else:
                    rep.violation(key, fi.loc(n), 'content is re-bound under an option-dependent test in a way that is not the '
                                  'whitespace-only regrouping `parts = [ws.join(parts)]`')
        # (4) joins: the separator is whitespace of length >= 1 on every path
        for n in walk_local(fi.node):
            if isinstance(n, ast.Call) and isinstance(n.func, ast.Attribute) and n.func.attr == 'join' and fi.qualname != 'format_triples':
                ml = _min_ws_len(ctx, fi, n.func.value, 0, n)
                key = f'{fi.module.name}:{fi.qualname}: separator of {norm(n)[:50]}'
                if ml is not None and ml >= 1:
                    rep.ok(key, fi.loc(n), f'whitespace of length >= {ml}')
                elif ml == 0 and n.args and _pieces_end_in_whitespace(n.args[0]):
                    rep.ok(key, fi.loc(n), 'every joined piece ends in whitespace of its own')
                elif ml == 0:
                    rep.violation(key, fi.loc(n), 'the separator is whitespace that can be empty (e.g. `\' \' * column` with column 0): two written '
                                  'pieces are glued together and lex as one token')
                else:
                    rep.undecided(key, fi.loc(n), 'the separator is not provably a whitespace string')
    # (5) formatter calls: options are passed on unchanged to the recursive calls
    for q, fi in ta.funcs.items():
        for call, ts in ctx.cg.calls_in(fi):
            for t in ts:
                if t.kind == 'func' and t.func.module.name == F and t.func.qualname in ('_format_node', '_format_edge'):
                    callee = t.func
                    idx = callee.positional.index('indent') if 'indent' in callee.positional else None
                    a = call.args[idx] if idx is not None and idx < len(call.args) else None
                    if a is None:
                        a = next((k.value for k in call.keywords if k.arg == 'indent'), None)
                    good = a is not None and norm(a) == 'indent'
                    rep.add(f'{fi.module.name}:{fi.qualname}: {norm(call)[:60]} passes indent on', fi.loc(call), 'ok' if good else 'undecided')
    return rep


def _only_an_option_argument(ctx: Ctx, ta: Taint, fi: FuncInfo, name: str) -> bool:
    """every read of `name` is (possibly inside set(...)/frozenset(...)/tuple(...)) an argument of a formatter helper in the position of one of its option parameters"""
    pm = ctx.repo.parent_map(fi.node)
    reads = [x for x in walk_local(fi.node) if isinstance(x, ast.Name) and x.id == name and isinstance(x.ctx, ast.Load)]
    if not reads:
        return False
    for x in reads:
        arg = x
        par = pm.get(id(arg))
        if isinstance(par, ast.Call) and isinstance(par.func, ast.Name) and par.func.id in ('set', 'frozenset', 'tuple', 'list') and par.args == [arg]:
            arg, par = par, pm.get(id(par))
        kwname = None
        if isinstance(par, ast.keyword):
            kwname, par = par.arg, pm.get(id(par))
        if not isinstance(par, ast.Call):
            return False
        ts = [t.func for t in ctx.cg.resolve_call(par, fi) if t.kind == 'func' and t.func.qualname in ta.tainted_params]
        if len(ts) != 1:
            return False
        callee = ts[0]
        if kwname is None:
            if arg not in par.args:
                return False
            i = par.args.index(arg)
            if i >= len(callee.positional):
                return False
            kwname = callee.positional[i]
        if kwname not in ta.tainted_params[callee.qualname]:
            return False
    return True


def _pieces_end_in_whitespace(arg: ast.AST) -> bool:
    """the joined iterable is a comprehension / display whose every element is a template that ends in a whitespace literal"""
    def ends_ws(e) -> bool:
        if isinstance(e, ast.Constant) and isinstance(e.value, str):
            return bool(e.value) and e.value[-1].isspace() and e.value[-1] in ' \t\n\r'
        if isinstance(e, ast.JoinedStr) and e.values:
            return ends_ws(e.values[-1]) if isinstance(e.values[-1], ast.Constant) else False
        if isinstance(e, ast.BinOp) and isinstance(e.op, ast.Add):
            return ends_ws(e.right)
        if isinstance(e, ast.Call) and isinstance(e.func, ast.Attribute) and e.func.attr == 'format' and isinstance(e.func.value, ast.Constant) \
                and isinstance(e.func.value.value, str):
            t = e.func.value.value
            return bool(t) and t[-1] in ' \t\n\r'
        return False
    if isinstance(arg, (ast.GeneratorExp, ast.ListComp)):
        return ends_ws(arg.elt)
    if isinstance(arg, (ast.List, ast.Tuple)) and arg.elts:
        return all(ends_ws(x) for x in arg.elts)
    return False


def _mentions_content(ta: Taint, q: str, e: ast.AST) -> bool:
    for x in ast.walk(e):
        if isinstance(x, ast.Name) and U in ta.env[q].get(x.id, set()) and not (ta.env[q].get(x.id, set()) & {NT}):
            if any(isinstance(c, ast.Call) and isinstance(c.func, ast.Attribute) and c.func.attr == 'join' and c.args
                   and norm(c.args[0]) == x.id for c in walk_local(ta.funcs[q].node)):
                return True
    return False


# ---------------------------------------------------------------------------------------------
# R8g / R19w: the templates of the writer
# ---------------------------------------------------------------------------------------------
WRITER_FIELDS = {
    # field expression in the f-string -> token classes its text ends with / starts with
    'var': {'first': ['SYMBOL'], 'last': ['SYMBOL']},
    'role': {'first': ['ROLE'], 'last': ['ROLE', 'ALIGNMENT']},
    'target': {'first': ['SYMBOL', 'STRING', 'LPAREN'], 'last': ['SYMBOL', 'STRING', 'ALIGNMENT', 'RPAREN']},
}


def _template(e: ast.AST) -> Optional[List[Tuple[str, str]]]:
    """f-string -> [('lit', text) | ('field', name)]"""
    if isinstance(e, ast.Call) and isinstance(e.func, ast.Attribute) and e.func.attr == 'format' and e.keywords and not e.args \
            and isinstance(e.func.value, ast.Constant) and isinstance(e.func.value.value, str):
        # '{role}({source}, {target})'.format(role=..., source=..., target=...): named fields, no conversion, no format spec
        import string
        kw = {k.arg: k.value for k in e.keywords if k.arg}
        try:
            parsed = list(string.Formatter().parse(e.func.value.value))
        except ValueError:
            return None
        out = []
        for lit, field, spec, conv in parsed:
            if lit:
                out.append(('lit', lit))
            if field is None:
                continue
            if field not in kw or spec or conv is not None:
                return None
            out.append(('field', norm(kw[field])))
        return out
    if isinstance(e, ast.Call) and isinstance(e.func, ast.Attribute) and e.func.attr == 'format' and not e.keywords \
            and isinstance(e.func.value, ast.Constant) and isinstance(e.func.value.value, str):
        # '{}({}, {})'.format(a, b, c) with plain positional fields only
        parts = e.func.value.value.split('{}')
        if len(parts) == len(e.args) + 1 and '{' not in ''.join(parts) and '}' not in ''.join(parts):
            out = []
            for i, lit in enumerate(parts):
                if lit:
                    out.append(('lit', lit))
                if i < len(e.args):
                    out.append(('field', norm(e.args[i])))
            return out
        return None
    if not isinstance(e, ast.JoinedStr):
        if isinstance(e, ast.Constant) and isinstance(e.value, str):
            return [('lit', e.value)]
        return None
    out = []
    for v in e.values:
        if isinstance(v, ast.Constant):
            out.append(('lit', v.value))
        elif isinstance(v, ast.FormattedValue):
            out.append(('field', norm(v.value)))
    return out


@rule('R8g', 'two pieces the formatter writes next to each other without whitespace are lexed as the two pieces')
def r8g(ctx: Ctx) -> RuleReport:
    rep = RuleReport('R8g', r8g.title, floor=4)
    cp = ctx.lex.compiled['PENMAN_RE']
    cont = {n: l.continuation_set() for n, l, _ in cp.alts if n}
    first = {n: l.first_set() for n, l, _ in cp.alts if n}
    single = {'(': 'LPAREN', ')': 'RPAREN', '/': 'SLASH'}
    for q in ('_format_node', '_format_edge'):
        fi = ctx.repo.func(F, q)
        for n in walk_local(fi.node):
            if not (isinstance(n, ast.Return) and n.value is not None):
                continue
            tpl = _template(n.value)
            if tpl is None:
                raise AnalysisError(f'R8g: {fi.fq} returns something that is not an f-string/literal: {norm(n.value)[:50]}')
            # expand into boundary list: sequence of items, whitespace literals split items
            items: List[Tuple[str, str]] = []
            for kind, x in tpl:
                if kind == 'lit':
                    for ch in x:
                        items.append(('ws', ch) if ch in ' \t\n' else ('ch', ch))
                else:
                    items.append(('field', x))
            for a, b in zip(items, items[1:]):
                if a[0] == 'ws' or b[0] == 'ws':
                    continue
                key = f'{fi.module.name}:{fi.qualname}: {a[1]!r} directly followed by {b[1]!r} in {norm(n.value)[:40]}'
                lasts = _classes(a, 'last', single)
                firsts = _classes(b, 'first', single)
                if lasts is None or firsts is None:
                    # separator / joined parts: whitespace-or-empty fields are handled by R20 (4)
                    rep.info(key, fi.loc(n), 'field without token class (separator or joined parts)')
                    continue
                bad = []
                for la in lasts:
                    for fb in firsts:
                        fcs = first[fb] if fb in first else CS.of(fb)
                        # a STRING is prefix-unique: nothing can extend it
                        meet = cont[la] & fcs if la in cont else CS()
                        if meet:
                            bad.append(f'{la} can be extended by the first character of {fb}: {meet.describe()}')
                rep.add(key, fi.loc(n), 'violation' if bad else 'ok', '; '.join(bad[:3]))
    # the separator between role and target is empty only when the target is empty too
    fe = ctx.repo.func(F, '_format_edge')
    tpl = None
    for n in walk_local(fe.node):
        if isinstance(n, ast.Return) and n.value is not None:
            tpl = _template(n.value)
    if tpl is None or [k for k, _ in tpl] != ['field', 'field', 'field']:
        # other shapes (e.g. an early `return f'{role}'` and a final f'{role} {target}') have no separator variable:
        # the adjacency loop above has already judged every boundary of every returned template
        return rep
    sepname = tpl[1][1].replace('!s', '')
    tgtname = tpl[2][1].replace('!s', '')
    for n in walk_local(fe.node):
        if isinstance(n, ast.Assign) and any(isinstance(t, ast.Name) and t.id == sepname for t in n.targets):
            ok, v = try_fold(n.value)
            key = f'penman._format:_format_edge: {norm(n)}'
            if not ok or not isinstance(v, str):
                rep.undecided(key, fe.loc(n), 'the role/target separator is not a literal')
            elif v == '':
                both = any(isinstance(t, ast.Name) and t.id == tgtname for t in n.targets)
                rep.add(key, fe.loc(n), 'ok' if both else 'violation',
                        'empty separator only together with an empty target' if both else
                        'the separator can be empty while a target is written: role and target would be glued into one token')
            else:
                rep.add(key, fe.loc(n), 'ok' if v.strip() == '' else 'undecided', f'separator {v!r}')
    return rep


def _classes(item, side: str, single) -> Optional[List[str]]:
    kind, x = item
    if kind == 'ch':
        return [single[x]] if x in single else None
    base = x.replace('!s', '').strip()
    if base in WRITER_FIELDS:
        return WRITER_FIELDS[base][side]
    if base.endswith('.join(parts)'):
        # the joined edges of a node: starts with a role, ends with what an edge can end with
        return ['ROLE'] if side == 'first' else sorted(set(WRITER_FIELDS['target']['last']) | set(WRITER_FIELDS['role']['last']))
    return None


# ---------------------------------------------------------------------------------------------
# R45: metadata lines
# ---------------------------------------------------------------------------------------------
class Pieces:
    """Symbolic string: list of ('lit', s) | ('field', name) under truthiness assumptions."""


def sym_str(e: ast.AST, truthy: Dict[str, bool], binds: Dict[str, ast.AST]) -> Optional[List[Tuple[str, str]]]:
    """Evaluate a string-building expression to pieces under assumptions about which fields are non-empty.
    None = not understood."""
    if isinstance(e, ast.Constant) and isinstance(e.value, str):
        return [('lit', e.value)] if e.value else []
    if isinstance(e, ast.Name):
        if e.id in truthy:
            return [('field', e.id)] if truthy[e.id] else []
        if e.id in binds:
            b = binds[e.id]
            if isinstance(b, str):
                return [('lit', b)] if b else []
            return sym_str(b, truthy, binds)
        return None
    if isinstance(e, ast.BinOp) and isinstance(e.op, ast.Add):
        a, b = sym_str(e.left, truthy, binds), sym_str(e.right, truthy, binds)
        return None if a is None or b is None else a + b
    if isinstance(e, ast.IfExp):
        t = sym_truth(e.test, truthy)
        if t is None:
            return None
        return sym_str(e.body if t else e.orelse, truthy, binds)
    if isinstance(e, ast.BoolOp) and isinstance(e.op, ast.Or) and len(e.values) == 2:
        t = sym_truth(e.values[0], truthy)
        if t is None:
            return None
        return sym_str(e.values[0] if t else e.values[1], truthy, binds)
    if isinstance(e, ast.BoolOp) and isinstance(e.op, ast.And) and len(e.values) == 2:
        t = sym_truth(e.values[0], truthy)              # `value and ' ' + value`: the (empty) value itself when it is empty
        if t is None:
            return None
        return sym_str(e.values[1] if t else e.values[0], truthy, binds)
    if isinstance(e, ast.JoinedStr):
        out = []
        for v in e.values:
            if isinstance(v, ast.Constant):
                out.append(('lit', v.value))
            else:
                p = sym_str(v.value, truthy, binds)
                if p is None:
                    return None
                out += p
        return out
    if isinstance(e, ast.Call) and isinstance(e.func, ast.Attribute) and e.func.attr == 'format':
        ok, fmt = try_fold(e.func.value)
        if (not ok or not isinstance(fmt, str)) and isinstance(e.func.value, ast.Name) and isinstance(binds.get(e.func.value.id), str):
            ok, fmt = True, binds[e.func.value.id]                # a module-level template
        if ok and isinstance(fmt, str) and e.keywords and not e.args:
            # '{role}({source}, {target})'.format(role=..., source=..., target=...): named fields without conversion or format spec
            import string
            kw = {k.arg: k.value for k in e.keywords if k.arg}
            out = []
            try:
                parsed = list(string.Formatter().parse(fmt))
            except ValueError:
                return None
            for lit, field, spec, conv in parsed:
                if lit:
                    out.append(('lit', lit))
                if field is None:
                    continue
                if field not in kw or spec or conv not in (None, 's'):
                    return None
                p = sym_str(kw[field], truthy, binds)
                if p is None:
                    return None
                out += p
            return out
        if not ok or not isinstance(fmt, str) or e.keywords:
            return None
        parts = fmt.split('{}')
        if len(parts) != len(e.args) + 1 or '{' in ''.join(parts):
            return None
        out = []
        for i, lit in enumerate(parts):
            if lit:
                out.append(('lit', lit))
            if i < len(e.args):
                p = sym_str(e.args[i], truthy, binds)
                if p is None:
                    return None
                out += p
        return out
    if isinstance(e, ast.Call) and isinstance(e.func, ast.Attribute) and e.func.attr == 'join' and len(e.args) == 1:
        sep = sym_str(e.func.value, truthy, binds)
        arg = e.args[0]
        elems: Optional[List[ast.AST]] = None
        if isinstance(arg, (ast.Tuple, ast.List)):
            elems = list(arg.elts)
        elif isinstance(arg, (ast.GeneratorExp, ast.ListComp)) and len(arg.generators) == 1 and \
                isinstance(arg.generators[0].iter, (ast.Tuple, ast.List)) and isinstance(arg.generators[0].target, ast.Name):
            g = arg.generators[0]
            elems = []
            for x in g.iter.elts:
                keep = True
                for c in g.ifs:
                    if isinstance(c, ast.Name) and c.id == g.target.id:
                        t = sym_truth(x, truthy)
                        if t is None:
                            return None
                        keep = keep and t
                    else:
                        return None
                if keep:
                    if not (isinstance(arg.elt, ast.Name) and arg.elt.id == g.target.id):
                        return None
                    elems.append(x)
        if sep is None or elems is None:
            return None
        out = []
        for i, x in enumerate(elems):
            p = sym_str(x, truthy, binds)
            if p is None:
                return None
            if i:
                out += sep
            out += p
        return out
    return None


def sym_truth(e: ast.AST, truthy: Dict[str, bool]) -> Optional[bool]:
    if isinstance(e, ast.Name) and e.id in truthy:
        return truthy[e.id]
    if isinstance(e, ast.Constant):
        return bool(e.value)
    if isinstance(e, ast.UnaryOp) and isinstance(e.op, ast.Not):
        t = sym_truth(e.operand, truthy)
        return None if t is None else not t
    return None


def _merge(p: List[Tuple[str, str]]) -> List[Tuple[str, str]]:
    out: List[Tuple[str, str]] = []
    for k, x in p:
        if k == 'lit' and out and out[-1][0] == 'lit':
            out[-1] = ('lit', out[-1][1] + x)
        elif not (k == 'lit' and x == ''):
            out.append((k, x))
    return out


@rule('R45', 'a metadata line is written as "# ::" key [space value]: exactly what the comment scanner splits back')
def r45(ctx: Ctx) -> RuleReport:
    rep = RuleReport('R45', r45.title, floor=4)
    fi = ctx.repo.func(F, 'format')
    from ..resolve import module_value
    # the graph itself comes after all of its comment lines
    for n in walk_local(fi.node):
        if isinstance(n, ast.Call) and isinstance(n.func, ast.Attribute) and n.func.attr in ('append', 'insert') and n.args \
                and isinstance(n.args[-1], ast.Call) and norm(n.args[-1].func) == '_format_node':
            kx = 'penman._format:format: the text of the graph is written after its metadata lines'
            if n.func.attr == 'append':
                rep.ok(kx, fi.loc(n))
            else:
                okp, pos = try_fold(n.args[0])
                rep.add(kx, fi.loc(n), 'violation' if okp and pos == 0 else 'undecided',
                        f'`{norm(n)[:50]}` puts the graph in front of its own "# ::" lines: read back, the comments are attached to the NEXT graph (or lost at the end of the input)')
    line_expr = None
    filt = []
    k = v = None
    where = fi.loc()
    binds: Dict[str, object] = {}
    for nm in fi.module.constants:
        ok, mv = module_value(ctx, fi.module, nm)
        if ok and isinstance(mv, str):
            binds[nm] = mv
    for n in walk_local(fi.node):
        if isinstance(n, (ast.ListComp, ast.GeneratorExp)) and any('metadata.items()' in norm(g.iter) for g in n.generators):
            g = n.generators[0]
            if isinstance(g.target, ast.Tuple) and len(g.target.elts) == 2 and all(isinstance(x, ast.Name) for x in g.target.elts):
                k, v = g.target.elts[0].id, g.target.elts[1].id
                line_expr, filt, where = n.elt, list(g.ifs), fi.loc(n)
        if isinstance(n, ast.For) and 'metadata.items()' in norm(n.iter) and isinstance(n.target, ast.Tuple) \
                and len(n.target.elts) == 2 and all(isinstance(x, ast.Name) for x in n.target.elts):
            k, v = n.target.elts[0].id, n.target.elts[1].id
            apps = [c for c in ast.walk(n) if isinstance(c, ast.Call) and isinstance(c.func, ast.Attribute) and c.func.attr == 'append' and c.args]
            if len(apps) == 1:
                line_expr, where = apps[0].args[0], fi.loc(n)
                # locals defined once inside the loop body stand for their definitions
                for st in ast.walk(n):
                    if isinstance(st, ast.Assign) and len(st.targets) == 1 and isinstance(st.targets[0], ast.Name):
                        binds[st.targets[0].id] = st.value
                # a guarded append would drop entries
                pmf = ctx.repo.parent_map(fi.node)
                par = pmf.get(id(pmf.get(id(apps[0]))))
                filt = [par.test] if isinstance(par, ast.If) else []
    if line_expr is None:
        rep.undecided('penman._format:format: metadata lines are built per (key, value) of tree.metadata.items()', fi.loc(),
                      'neither a comprehension nor a loop with one append over metadata.items() was found')
        return rep
    rep.add('penman._format:format: every metadata entry is written', where, 'ok' if not filt else 'violation',
            '' if not filt else f'entries are filtered by {[norm(c) for c in filt]}')
    # the line may be made by a helper(key, value): its body stands for the expression, unless it rewrites the value first
    if isinstance(line_expr, ast.Call) and isinstance(line_expr.func, ast.Name) and len(line_expr.args) == 2 and [norm(a) for a in line_expr.args] == [k, v]:
        hs0 = [t.func for t in ctx.cg.resolve_call(line_expr, fi) if t.kind == 'func']
        if len(hs0) == 1 and len(hs0[0].positional) == 2:
            h0 = hs0[0]
            hk, hv = h0.positional
            rew = [n for n in walk_local(h0.node) if isinstance(n, ast.Assign) and any(isinstance(t, ast.Name) and t.id in (hk, hv) for t in n.targets)
                   and any(isinstance(c, ast.Call) for c in ast.walk(n.value)) and any(isinstance(x, ast.Name) and x.id in (hk, hv) for x in ast.walk(n.value))]
            if rew:
                rep.violation('penman._format:format: a metadata key and value are written as they are', h0.loc(rew[0]),
                              f'`{norm(rew[0])[:60]}` rewrites the {"value" if any(isinstance(t, ast.Name) and t.id == hv for t in rew[0].targets) else "key"} before the comment line is '
                              f'built: what is read back is not what the graph held (interior runs of blanks, tabs and other white space collapse / characters are replaced), '
                              f'so dumps followed by loads does not return equal metadata')
                return rep
            hrets = [n for n in walk_local(h0.node) if isinstance(n, ast.Return) and n.value is not None]
            if len(hrets) == 1 and not [n for n in walk_local(h0.node) if isinstance(n, ast.Assign) and any(isinstance(t, ast.Name) and t.id in (hk, hv) for t in n.targets)]:
                class _Ren(ast.NodeTransformer):
                    def visit_Name(self, n):
                        return ast.copy_location(ast.Name(id={hk: k, hv: v}.get(n.id, n.id), ctx=n.ctx), n)
                import copy as _copy
                line_expr = _Ren().visit(_copy.deepcopy(hrets[0].value))
                for st in walk_local(h0.node):
                    if isinstance(st, ast.Assign) and len(st.targets) == 1 and isinstance(st.targets[0], ast.Name):
                        binds[st.targets[0].id] = _Ren().visit(_copy.deepcopy(st.value))
    terminated = False
    for kt, vt in itertools.product([True, False], repeat=2):
        truthy = {k: kt, v: vt}
        got = sym_str(line_expr, truthy, binds)
        want = [('lit', '# ::')] + ([('field', k)] if kt else []) + ([('lit', ' '), ('field', v)] if vt else [])
        key = f'penman._format:format: metadata line when key is {"non-empty" if kt else "empty"} and value is {"non-empty" if vt else "empty"}'
        if got is None:
            rep.undecided(key, where, f'the metadata line expression is not understood: {norm(line_expr)[:80]}')
            continue
        good = _merge(got) == _merge(want)
        if not good and _merge(got) == _merge(want + [('lit', '\n')]):
            # each line carries its own line feed (the lines are then concatenated, not joined): the same text
            good = terminated = True
        rep.add(key, where, 'ok' if good else 'violation',
                '' if good else f'writes {_merge(got)} but the comment scanner (split at "::", then key up to the first space) needs {_merge(want)}')
    # metadata lines come before the node, one per line
    rets = [n for n in walk_local(fi.node) if isinstance(n, ast.Return) and n.value is not None]
    good = len(rets) == 1 and isinstance(rets[0].value, ast.Call) and isinstance(rets[0].value.func, ast.Attribute) \
        and rets[0].value.func.attr == 'join' and try_fold(rets[0].value.func.value) == (True, '\n')
    kj = 'penman._format:format: metadata lines and the node are joined by single line feeds'
    decided = False
    if not good and len(rets) == 1 and isinstance(rets[0].value, ast.Call) and isinstance(rets[0].value.func, ast.Attribute) and rets[0].value.func.attr == 'join':
        sepx = rets[0].value.func.value
        # the separator comes from a helper: which strings can it return?
        if isinstance(sepx, ast.Call):
            hs = [t.func for t in ctx.cg.resolve_call(sepx, fi) if t.kind == 'func']
            if len(hs) == 1:
                from ..resolve import symbolic_returns
                try:
                    paths = symbolic_returns(hs[0])
                except AnalysisError:
                    paths = []
                for conds, val, st_ in paths:
                    okv, sv = try_fold(val) if val is not None else (False, None)
                    if okv and isinstance(sv, str) and '\n' not in sv:
                        cs = [norm(c) if pol else f'not ({norm(c)})' for c, pol in conds]
                        rep.violation(kj, hs[0].loc(st_), f'the separator between the metadata comments and the graph is `{norm(sepx)[:40]}`, and {hs[0].qualname} returns {sv!r} when '
                                      f'{cs or "called"}: a comment runs to the end of its line, so with that separator the first "# ::key value" line swallows every later '
                                      f'comment and the graph itself - the text no longer parses to the graphs that were written')
                        decided = True
                        break
        else:
            sx_ = single_def(ctx, fi, sepx) if isinstance(sepx, ast.Name) else sepx
            alts_ = [sx_.body, sx_.orelse] if isinstance(sx_, ast.IfExp) else [sx_]
            for alt_ in alts_:
                oks_, sv_ = try_fold(alt_)
                if oks_ and isinstance(sv_, str) and '\n' not in sv_ and not decided:
                    when_ = f' (when `{norm(sx_.test)}` is {alt_ is sx_.body})' if isinstance(sx_, ast.IfExp) else ''
                    rep.violation(kj, fi.loc(rets[0]), f'the parts are joined with {sv_!r}{when_}: a comment runs to the end of its line, so the first "# ::key value" line swallows every '
                                  f'later comment and the graph itself - what format() wrote no longer parses to the tree it was written from')
                    decided = True
    if not decided and not good and terminated and len(rets) == 1 and isinstance(rets[0].value, ast.BinOp) and isinstance(rets[0].value.op, ast.Add):
        # header + node, with header = ''.join(<lines that end in a line feed>)
        hd = single_def(ctx, fi, rets[0].value.left) if isinstance(rets[0].value.left, ast.Name) else rets[0].value.left
        if isinstance(hd, ast.Call) and isinstance(hd.func, ast.Attribute) and hd.func.attr == 'join' and try_fold(hd.func.value) == (True, '') \
                and isinstance(rets[0].value.right, ast.Call) and norm(rets[0].value.right.func) == '_format_node':
            good = True
    if not decided:
        rep.add(kj, fi.loc(), 'ok' if good else 'undecided')
    # reader side
    # the comment scanner: the function of penman._parse that splits comment text at "::"
    cands = [f for f in ctx.repo.module('penman._parse').all_funcs if any(
        isinstance(n, ast.Call) and isinstance(n.func, ast.Attribute) and n.func.attr in ('rpartition', 'rsplit', 'split', 'partition')
        and n.args and try_fold(n.args[0]) == (True, '::') for n in walk_local(f.node))]
    if len(cands) != 1:
        raise AnalysisError(f'R45: expected one function in penman._parse that splits comments at "::", found {[f.qualname for f in cands]}')
    pc = cands[0]
    rp = [n for n in walk_local(pc.node) if isinstance(n, ast.Call) and isinstance(n.func, ast.Attribute) and n.func.attr == 'rpartition'
          and n.args and try_fold(n.args[0]) == (True, '::')]
    pt = [n for n in walk_local(pc.node) if isinstance(n, ast.Call) and isinstance(n.func, ast.Attribute) and n.func.attr == 'partition'
          and n.args and try_fold(n.args[0]) == (True, ' ')]
    sp = [n for n in walk_local(pc.node) if isinstance(n, ast.Call) and isinstance(n.func, ast.Attribute) and n.func.attr in ('rsplit', 'split')
          and len(n.args) == 1 and try_fold(n.args[0]) == (True, '::')]
    rep.add('penman._parse: the comment scanner: a comment is split at "::" and each piece at its first space', pc.loc(),
            'ok' if (rp or sp) and pt else 'undecided')
    stores = [n for n in walk_local(pc.node) if isinstance(n, ast.Assign) and isinstance(n.targets[0], ast.Subscript)
              and norm(n.targets[0].value) == 'metadata']
    for st in stores:
        kx, vx = st.targets[0].slice, st.value
        unp = None
        for n in walk_local(pc.node):
            if isinstance(n, ast.Assign) and isinstance(n.targets[0], ast.Tuple) and len(n.targets[0].elts) == 3 and n in (x for x in [n]) \
                    and isinstance(n.value, ast.Call) and isinstance(n.value.func, ast.Attribute) and n.value.func.attr == 'partition' \
                    and try_fold(n.value.args[0]) == (True, ' '):
                unp = [norm(e) for e in n.targets[0].elts]
        if unp is None:
            raise AnalysisError('_parse_comments: key/value are not taken from meta.partition(" ")')
        key_ok = norm(kx) == unp[0]
        val_ok = isinstance(vx, ast.Call) and isinstance(vx.func, ast.Attribute) and vx.func.attr == 'rstrip' and not vx.args \
            and norm(vx.func.value) == unp[2]
        key_stripped = isinstance(kx, ast.Call) and isinstance(kx.func, ast.Attribute) and kx.func.attr in ('strip', 'lstrip', 'rstrip', 'lower', 'upper')
        rep.add('penman._parse: the comment scanner: the key is stored as written', pc.loc(st), 'ok' if key_ok else ('violation' if key_stripped else 'undecided'),
                '' if key_ok else f'key expression {norm(kx)}')
        raw_piece = isinstance(vx, ast.Name) and norm(vx) == unp[2]
        left_strip = isinstance(vx, ast.Call) and isinstance(vx.func, ast.Attribute) and vx.func.attr in ('strip', 'lstrip') \
            and norm(vx.func.value) == unp[2]
        rep.add('penman._parse: the comment scanner: each value is stored with trailing blanks removed and leading content kept', pc.loc(st),
                'ok' if val_ok else ('violation' if raw_piece or left_strip else 'undecided'),
                '' if val_ok else f'stored value is {norm(vx)}: the formatter writes the value verbatim after one space, so a value that '
                                  f'keeps a trailing blank (segments before another "::") or loses leading blanks does not survive format then parse')
    return rep


@rule('R56', 'format_triples writes role(source, target) per triple, joined by " ^" and a line feed or space, and returns it unprocessed')
def r56(ctx: Ctx) -> RuleReport:
    from ..resolve import expand, fold_in, view
    from ..cfg import def_value
    rep = RuleReport('R56', r56.title, floor=4)
    fi = ctx.repo.func(F, 'format_triples')
    v = view(ctx, fi)
    rets = [n for n in walk_local(fi.node) if isinstance(n, ast.Return) and n.value is not None]
    if len(rets) != 1:
        rep.undecided('penman._format:format_triples: one return', fi.loc(), f'{len(rets)} returns')
        return rep
    rv = expand(ctx, fi, rets[0].value, rets[0])
    # accept  delim.join(items)  where delim may still be a name with several reaching definitions
    raw = rets[0].value
    if isinstance(raw, ast.Name):
        # all definitions that can reach the return: a re-binding that post-processes the assembled text is a concrete defect
        try:
            defs = v.rd.get(v.node_of(rets[0]), {}).get(raw.id) or ()
        except Exception:
            defs = ()
        vals = [def_value(v.cfg, d, raw.id) for d in defs if d != v.cfg.entry]
        for dv in vals:
            if dv is None:
                continue
            reuses = any(isinstance(x, ast.Name) and x.id == raw.id for x in ast.walk(dv))
            rewrites = any(isinstance(x, ast.Call) and ((isinstance(x.func, ast.Attribute) and x.func.attr in ('split', 'replace', 'strip', 'translate', 'expandtabs'))
                                                          or norm(x.func) in ('re.sub', 're.split')) for x in ast.walk(dv))
            if reuses and rewrites:
                rep.violation('penman._format:format_triples: the result is <delimiter>.join(<one text per triple>)', fi.loc(rets[0]),
                              f'`{raw.id} = {norm(dv)[:60]}` post-processes the assembled text: whitespace (or other characters) inside quoted '
                              f'string targets is rewritten as well')
                return rep
        raw = single_def(ctx, fi, raw)
    is_join = isinstance(raw, ast.Call) and isinstance(raw.func, ast.Attribute) and raw.func.attr == 'join' and len(raw.args) == 1
    post = None
    if not is_join and isinstance(raw, ast.Call):
        post = norm(raw)[:70]
    if not is_join:
        if post and any(isinstance(x, ast.Call) and isinstance(x.func, ast.Attribute) and x.func.attr == 'join' for x in ast.walk(raw)):
            rep.violation('penman._format:format_triples: the result is <delimiter>.join(<one text per triple>)', fi.loc(rets[0]),
                          f'returns {post}: the joined text is post-processed, which also rewrites the inside of quoted strings')
        else:
            rep.undecided('penman._format:format_triples: the result is <delimiter>.join(<one text per triple>)', fi.loc(rets[0]), norm(raw)[:70])
        return rep
    if any(isinstance(x, ast.Call) and isinstance(x.func, ast.Attribute) and x.func.attr in ('split', 'replace', 'strip', 'translate', 'sub')
           for x in ast.walk(raw.args[0])) or (isinstance(raw.func.value, ast.Constant) and raw.func.value.value.strip() != '^'
                                                  and any(isinstance(x, ast.Call) and isinstance(x.func, ast.Attribute) and x.func.attr == 'join'
                                                          for x in ast.walk(raw.args[0]))):
        rep.violation('penman._format:format_triples: the result is <delimiter>.join(<one text per triple>)', fi.loc(rets[0]),
                      f'returns {norm(raw)[:70]}: the joined text is post-processed, which also rewrites the inside of quoted strings')
        return rep
    rep.ok('penman._format:format_triples: the result is <delimiter>.join(<one text per triple>)', fi.loc(rets[0]))
    # delimiter values: every reaching definition, folded with module constants
    delim = raw.func.value
    lits: List[object] = []

    def collect(e, at):
        if isinstance(e, ast.IfExp):
            collect(e.body, at)
            collect(e.orelse, at)
            return
        ok, val = fold_in(ctx, fi, e)
        if ok:
            lits.append(val)
            return
        if isinstance(e, ast.Subscript):
            okd, table = fold_in(ctx, fi, e.value)
            if okd and isinstance(table, dict) and table:
                lits.extend(table.values())         # a lookup table: any of its values may be chosen
                return
        if isinstance(e, ast.Name):
            try:
                defs = v.rd.get(v.node_of(at), {}).get(e.id) or ()
            except Exception:
                defs = ()
            got = False
            for d in defs:
                if d == v.cfg.entry:
                    continue
                dv = def_value(v.cfg, d, e.id)
                if dv is not None:
                    collect(dv, v.cfg.nodes[d].ast)
                    got = True
            if got:
                return
        lits.append(None)
    collect(delim, rets[0])
    good = bool(lits) and all(isinstance(x, str) and x.strip() == '^' and x.startswith(' ') and x[-1] in ' \n' for x in lits)
    rep.add('penman._format:format_triples: the delimiter is " ^" followed by a line feed or a space', fi.loc(rets[0]),
            'ok' if good else ('violation' if lits and all(isinstance(x, str) for x in lits) else 'undecided'), f'{lits}')
    # the joined items: comprehension over the argument, or a list filled by one append in a loop over the argument
    items = raw.args[0]
    wrapped = items if not isinstance(items, ast.Name) else single_def(ctx, fi, items)
    if isinstance(wrapped, ast.Call) and norm(wrapped.func) in ('dict.fromkeys', 'set', 'frozenset', 'sorted', 'OrderedDict.fromkeys') and wrapped.args:
        rep.violation('penman._format:format_triples: every triple of the argument is written, in order', fi.loc(rets[0]),
                      f'the conjuncts go through `{norm(wrapped.func)}(...)` before they are joined: a triple that occurs twice in the list is written once '
                      f'(or the order changes), so parsing the text back gives a different list')
        return rep
    it_src = elt = names = None
    filtered = False
    if isinstance(items, ast.Name):
        idef = single_def(ctx, fi, items)
        if isinstance(idef, (ast.ListComp, ast.GeneratorExp)):
            items = idef
        else:
            for n in walk_local(fi.node):
                if isinstance(n, ast.For):
                    apps = [c for c in ast.walk(n) if isinstance(c, ast.Call) and isinstance(c.func, ast.Attribute) and c.func.attr == 'append'
                            and norm(c.func.value) == items.id and c.args]
                    if len(apps) == 1:
                        it_src = norm(n.iter)
                        names = [norm(x) for x in n.target.elts] if isinstance(n.target, ast.Tuple) else []
                        elt = expand(ctx, fi, apps[0].args[0], apps[0], pure_only=False)
                        par = ctx.repo.parent_map(fi.node).get(id(ctx.repo.parent_map(fi.node).get(id(apps[0]))))
                        filtered = isinstance(par, ast.If)
    if isinstance(items, ast.Call) and norm(items.func) == 'map' and len(items.args) == 2 and isinstance(items.args[0], ast.Name):
        # map(helper, triples): one text per triple, produced by the helper
        it_src, filtered, names = norm(items.args[1]), False, []
        elt = ast.copy_location(ast.Call(func=items.args[0], args=[ast.Name(id='_triple', ctx=ast.Load())], keywords=[]), items)
        ast.fix_missing_locations(elt)
    if isinstance(items, (ast.ListComp, ast.GeneratorExp)) and len(items.generators) == 1:
        g = items.generators[0]
        it_src, elt, filtered = norm(g.iter), items.elt, bool(g.ifs)
        names = [norm(x) for x in g.target.elts] if isinstance(g.target, ast.Tuple) else []
    if it_src is None or elt is None:
        rep.undecided('penman._format:format_triples: every triple of the argument is written, in order', fi.loc(), norm(raw.args[0])[:60])
        return rep
    if it_src != fi.positional[0] and not filtered and isinstance(items, (ast.ListComp, ast.GeneratorExp)):
        # the triples pass through map(helper, triples) before they are written: does the helper hand every triple back unchanged?
        g_it = items.generators[0].iter
        if isinstance(g_it, ast.Call) and norm(g_it.func) == 'map' and len(g_it.args) == 2 and norm(g_it.args[1]) == fi.positional[0]:
            probe = ast.copy_location(ast.Call(func=g_it.args[0], args=[ast.Name(id='_t', ctx=ast.Load())], keywords=[]), g_it)
            ast.fix_missing_locations(probe)
            hs_ = [t.func for t in ctx.cg.resolve_call(probe, fi) if t.kind == 'func']
            if len(hs_) == 1:
                from ..resolve import symbolic_returns
                try:
                    paths_ = symbolic_returns(hs_[0])
                except AnalysisError:
                    paths_ = []
                hp = hs_[0].positional[0] if hs_[0].positional else None
                slot_ = {f'{hp}[{i_}]': i_ for i_ in range(3)}
                for n_ in walk_local(hs_[0].node):
                    if isinstance(n_, ast.Assign) and isinstance(n_.targets[0], ast.Tuple) and len(n_.targets[0].elts) == 3 and norm(n_.value) == hp:
                        for i_, e_ in enumerate(n_.targets[0].elts):
                            if isinstance(e_, ast.Name):
                                slot_[e_.id] = i_
                for conds_, val_, st_ in paths_:
                    same = val_ is not None and (norm(val_) == hp or (isinstance(val_, ast.Tuple) and [slot_.get(norm(e)) for e in val_.elts] == [0, 1, 2]))
                    if not same and val_ is not None and isinstance(val_, ast.Tuple) and len(val_.elts) == 3:
                        cs_ = [norm(c) if pol else f'not ({norm(c)})' for c, pol in conds_][:4]
                        rep.violation('penman._format:format_triples: every triple of the argument is written, in order', hs_[0].loc(st_),
                                      f'the triples go through {hs_[0].qualname} before they are written, and when {cs_} it returns `{norm(val_)[:70]}` instead of the triple it was '
                                      f'given: the conjunction then states a different triple (another role, source and target exchanged), and parsing it back does not return the list')
                        return rep
    rep.add('penman._format:format_triples: every triple of the argument is written, in order', fi.loc(),
            'ok' if it_src == fi.positional[0] and not filtered else ('violation' if filtered else 'undecided'), it_src)
    # the text of one triple may be produced by a local helper: helper(triple) -> template over the unpacked triple
    if isinstance(elt, ast.Call) and isinstance(elt.func, ast.Name) and len(elt.args) == 1 and not names:
        hs = [t.func for t in ctx.cg.resolve_call(elt, fi) if t.kind == 'func' and t.func.module.name == fi.module.name]
        if len(hs) == 1:
            h = hs[0]
            hp = h.positional[0] if h.positional else None
            hr = [n for n in walk_local(h.node) if isinstance(n, ast.Return) and n.value is not None]
            unp3 = next((n for n in walk_local(h.node) if isinstance(n, ast.Assign) and isinstance(n.targets[0], ast.Tuple)
                         and len(n.targets[0].elts) == 3 and norm(n.value) == hp), None)
            if len(hr) == 1 and unp3 is not None:
                elt = hr[0].value if not isinstance(hr[0].value, ast.Name) else single_def(ctx, h, hr[0].value)
                names = [norm(x) for x in unp3.targets[0].elts]
    tpl = _template(elt)
    helper_fi = None
    if isinstance(elt, ast.AST) and 'h' in dir() and names:
        helper_fi = locals().get('h')
    if tpl is not None and helper_fi is not None:
        # named temporaries of the helper (relation = role.lstrip(':')) stand for their definitions
        tpl2 = []
        for k_, x_ in tpl:
            if k_ == 'field' and x_.isidentifier() and x_ not in names:
                d_ = single_def(ctx, helper_fi, ast.Name(id=x_, ctx=ast.Load()))
                defs_ = [v_ for v_ in ctx.cg.local_assigns(helper_fi).get(x_, []) if isinstance(v_, ast.AST)]
                if len(defs_) == 1:
                    x_ = norm(defs_[0])
            tpl2.append((k_, x_))
        tpl = tpl2
    want = None
    if names and len(names) == 3:
        s_, r_, t_ = names
        want = [('field', f"{r_}.lstrip(':')"), ('lit', '('), ('field', s_), ('lit', ', '), ('field', t_), ('lit', ')')]
    if tpl is None or want is None:
        rep.undecided('penman._format:format_triples: one triple is written as role-without-colon "(" source ", " target ")"', fi.loc(), norm(elt)[:70])
    else:
        tpl = _merge_tpl(tpl)
        # a role never ends in a colon (the lexical grammar keeps ':' out of names), so strip(':') and removeprefix(':') are the same function on roles
        tpl = [(k, f"{r_}.lstrip(':')") if k == 'field' and x in (f"{r_}.strip(':')", f"{r_}.removeprefix(':')") else (k, x) for k, x in tpl]
        good = tpl == want
        # positive only when the template was understood and differs in its literal skeleton or field order
        rep.add('penman._format:format_triples: one triple is written as role-without-colon "(" source ", " target ")"', fi.loc(),
                'ok' if good else 'violation', f'{tpl}')
    return rep


def _merge_tpl(tpl):
    out = []
    for k, x in tpl:
        if k == 'lit' and out and out[-1][0] == 'lit':
            out[-1] = ('lit', out[-1][1] + x)
        elif not (k == 'lit' and x == ''):
            out.append((k, x))
    return out


@rule('R71', 'the codec hands indent and compact to the formatter exactly as it received them')
def r71(ctx: Ctx) -> RuleReport:
    rep = RuleReport('R71', r71.title, floor=4)
    from ..cfg import assigned_names
    for fi in ctx.repo.module('penman.codec').all_funcs:
        opts = [p for p in ('indent', 'compact') if p in fi.params]
        if not opts:
            continue
        for o in opts:
            rebinds = [n for n in walk_local(fi.node) if isinstance(n, (ast.Assign, ast.AugAssign, ast.AnnAssign)) and o in assigned_names(n)]
            key = f'{fi.module.name}:{fi.qualname}: {o} reaches the formatter unchanged'
            if rebinds:
                rep.violation(key, fi.loc(rebinds[0]), f'`{norm(rebinds[0])[:70]}` rewrites the option before it reaches the formatter: the text written then differs from '
                              f'what penman.format(tree, {o}=...) returns for the same value (note that 1 == True and 0 == False, so a test against '
                              f'booleans also catches the widths 1 and 0)')
                continue
            passed = []
            for c in [n for n in walk_local(fi.node) if isinstance(n, ast.Call)]:
                for k in c.keywords:
                    if k.arg == o:
                        passed.append((c, k.value))
            bad = [(c, v) for c, v in passed if norm(v) != o]
            if bad:
                rep.violation(key, fi.loc(bad[0][0]), f'{norm(bad[0][0])[:60]} passes {o}={norm(bad[0][1])[:30]} instead of the value it received')
            else:
                rep.add(key, fi.loc(), 'ok' if passed or fi.qualname == '_dump_stream' else 'info', f'{len(passed)} call(s) pass it on')
    return rep


# ---------------------------------------------------------------------------------------------
@rule('R132', 'the formatter writes an atomic target as it is given: no conversion changes the written form of a constant')
def r132(ctx: Ctx) -> RuleReport:
    from ..resolve import facts_ex
    rep = RuleReport('R132', r132.title, floor=1)
    fe = ctx.repo.func(F, '_format_edge')
    tname = None
    for n in walk_local(fe.node):
        if isinstance(n, ast.Assign) and isinstance(n.targets[0], ast.Tuple) and len(n.targets[0].elts) == 2 and norm(n.value) == fe.positional[0] \
                and isinstance(n.targets[0].elts[1], ast.Name):
            tname = n.targets[0].elts[1].id
    if tname is None:
        rep.undecided(f'{fe.fq}: `role, target = edge`', fe.loc(), 'the edge is not unpacked into (role, target)')
        return rep
    CONV = {'int', 'float', 'round', 'abs', 'bool', 'repr', 'ascii', 'format', 'complex', 'Decimal', 'Fraction'}
    METH = {'lower', 'upper', 'strip', 'lstrip', 'rstrip', 'casefold', 'title', 'capitalize', 'replace', 'translate', 'encode', 'normalize', 'zfill'}
    n_sites = 0
    for n in walk_local(fe.node):
        vals = []
        if isinstance(n, ast.Assign):
            for t in n.targets:
                if isinstance(t, ast.Name) and t.id == tname:
                    vals.append(n.value)
                elif isinstance(t, ast.Tuple) and isinstance(n.value, ast.Tuple) and len(t.elts) == len(n.value.elts):
                    vals += [v for e, v in zip(t.elts, n.value.elts) if isinstance(e, ast.Name) and e.id == tname]
        for v in vals:
            n_sites += 1
            key = f'{fe.fq}: `{norm(n)[:50]}`'
            conv = [c for c in ast.walk(v) if isinstance(c, ast.Call) and ((isinstance(c.func, ast.Name) and c.func.id in CONV) or
                                                                          (isinstance(c.func, ast.Attribute) and c.func.attr in METH))
                    and any(isinstance(x, ast.Name) and x.id == tname for x in ast.walk(c))]
            if conv:
                fx = sorted(f if pol else f'not ({f})' for f, pol in facts_ex(ctx, fe, n))[:3]
                rep.violation(key, fe.loc(n), f'under {fx} the target is replaced by `{norm(conv[0])[:40]}` before it is written: the constant in the text is no longer the constant '
                              f'of the graph (2.0 is written 2, -0.0 is written 0), so decoding gives a different triple - constants are compared by their written form')
            elif isinstance(v, ast.Constant) or (isinstance(v, ast.Call) and norm(v.func).endswith('_format_node')) or (isinstance(v, ast.Name) and v.id != tname):
                rep.ok(key, fe.loc(n))
            else:
                rep.add(key, fe.loc(n), 'info', 'the target is re-bound in a form this rule does not judge')
    if not n_sites:
        rep.ok(f'{fe.fq}: the target is never re-bound', fe.loc())
    return rep
