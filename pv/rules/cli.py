"""Command-line rules: R7 (status accumulation), R12 (model threading), R24 (pipeline order),
R25 (option plumbing), R42 (one output per input)."""
from __future__ import annotations

import ast
import json
from pathlib import Path
from typing import Dict, List, Optional, Set, Tuple

from ..cfg import CFG, Node, assigned_names, cond_facts, def_value, facts_at, owner_node, reaching_defs
from ..core import Ctx, RuleReport, rule
from ..resolve import expand, facts_ex
from ..src import AnalysisError, FuncInfo, dotted, norm, try_fold, walk_local
from .lexical import single_def

SPEC = Path(__file__).resolve().parent.parent.parent / 'spec'


def _enclosing_loops(pm, node) -> List[ast.AST]:
    out = []
    n = node
    while id(n) in pm:
        n = pm[id(n)]
        if isinstance(n, (ast.For, ast.While, ast.AsyncFor)):
            out.append(n)
        if isinstance(n, (ast.FunctionDef, ast.AsyncFunctionDef, ast.Lambda)):
            break
    return out


def _is_accumulating(st: ast.AST, var: str) -> Optional[ast.AST]:
    """If st accumulates into var, return the contributed expression, else None."""
    if isinstance(st, ast.AugAssign) and isinstance(st.target, ast.Name) and st.target.id == var \
            and isinstance(st.op, ast.BitOr):
        return st.value
    if isinstance(st, ast.Assign) and len(st.targets) == 1 and isinstance(st.targets[0], ast.Name) \
            and st.targets[0].id == var:
        v = st.value
        if isinstance(v, ast.BinOp) and isinstance(v.op, ast.BitOr):
            if isinstance(v.left, ast.Name) and v.left.id == var:
                return v.right
            if isinstance(v.right, ast.Name) and v.right.id == var:
                return v.left
        if isinstance(v, ast.BoolOp) and isinstance(v.op, ast.Or) and len(v.values) == 2 \
                and isinstance(v.values[0], ast.Name) and v.values[0].id == var \
                and not any(isinstance(x, ast.Call) for x in ast.walk(v.values[1])):
            # `v = v or f()` would skip f() - and its side effects - once v is set: not an accepted idiom
            return v.values[1]
        if isinstance(v, ast.Call) and isinstance(v.func, ast.Name) and v.func.id == 'max' and len(v.args) == 2:
            if isinstance(v.args[0], ast.Name) and v.args[0].id == var:
                return v.args[1]
            if isinstance(v.args[1], ast.Name) and v.args[1].id == var:
                return v.args[0]
    return None


def _definitely_assigned(cfg: CFG, params) -> Dict[int, frozenset]:
    def transfer(node: Node, label, s):
        if node.kind in ('stmt', 'for') and not (node.kind == 'for' and label == 'F'):
            return s | frozenset(assigned_names(node.ast))
        return s
    return cfg.forward(frozenset(params), transfer, lambda a, b: a & b)


class StatusChain:
    def __init__(self, ctx: Ctx, rep: RuleReport):
        self.ctx = ctx
        self.rep = rep
        self.visited: Set[Tuple[str, str]] = set()
        self.chain: List[str] = []

    def check_var(self, fi: FuncInfo, var: str, use: ast.AST):
        """`var` in fi carries an exit status consumed at `use`."""
        if (fi.fq, var) in self.visited:
            return
        self.visited.add((fi.fq, var))
        ctx, rep = self.ctx, self.rep
        pm = ctx.repo.parent_map(fi.node)
        cfg = CFG(fi.node)
        DA = _definitely_assigned(cfg, fi.params)
        un = owner_node(cfg, pm, use)
        rep.add(f'{fi.module.name}:{fi.qualname}: {var} is assigned on every path to {norm(use)[:50]}', fi.loc(use),
                'ok' if var in DA.get(un, frozenset()) else 'violation',
                '' if var in DA.get(un, frozenset()) else f'{var} may be unbound when it is used as the status')
        defs = [n for n in walk_local(fi.node)
                if isinstance(n, (ast.Assign, ast.AugAssign, ast.AnnAssign)) and var in assigned_names(n)]
        if var in fi.params:
            raise AnalysisError(f'R7: status variable {var} is a parameter of {fi.fq}')
        if not defs:
            raise AnalysisError(f'R7: no definition of status variable {var} in {fi.fq}')
        for d in defs:
            loops = _enclosing_loops(pm, d)
            key = f'{fi.module.name}:{fi.qualname}: {norm(d)[:80]}'
            acc = _is_accumulating(d, var)
            contributed = acc if acc is not None else getattr(d, 'value', None)
            shortcut = isinstance(getattr(d, 'value', None), ast.BoolOp) and isinstance(d.value.op, ast.Or) \
                and isinstance(d.value.values[0], ast.Name) and d.value.values[0].id == var
            if loops and acc is None and shortcut:
                rep.violation(key, fi.loc(d),
                              f'`{norm(d)[:60]}` short-circuits: once a failure was seen the check of every later graph is skipped, '
                              f'so its errors are neither found nor recorded in its metadata')
            elif loops and acc is None and isinstance(d, ast.Assign) and isinstance(d.targets[0], (ast.Tuple, ast.List)):
                # `status, text = helper(...)`: a per-iteration value that is (presumably) accumulated by a following statement
                later = [x for x in ast.walk(loops[0]) if isinstance(x, ast.AugAssign) and any(isinstance(y, ast.Name) and y.id == var for y in ast.walk(x.value))]
                rep.add(key, fi.loc(d), 'info' if later else 'undecided', 'per-iteration value unpacked from a helper result')
            elif loops and acc is None:
                # a plain store inside a loop forgets the status of earlier iterations
                okc, cv = try_fold(contributed) if contributed is not None else (False, None)
                rep.violation(key, fi.loc(d),
                              f'inside `{norm(loops[0]).splitlines()[0]}` the status is overwritten, not accumulated: '
                              f'a failure in an earlier iteration is forgotten when a later one succeeds')
            else:
                rep.ok(key, fi.loc(d), 'accumulating' if acc is not None else 'outside any loop')
            if acc is None and not loops and contributed is not None:
                # the start value: with no failing graph the status must stay 0
                okc, cv = try_fold(contributed)
                if okc and isinstance(cv, (int, bool)) and int(cv) != 0:
                    q, conditional = d, False
                    while id(q) in pm and pm[id(q)] is not fi.node:
                        q = pm[id(q)]
                        if isinstance(q, (ast.If, ast.While, ast.ExceptHandler, ast.IfExp, ast.Match)):
                            conditional = True
                    if conditional:
                        rep.add(key + ' (start value)', fi.loc(d), 'info', f'the status is set to {cv!r} under a condition (not a start value)')
                    else:
                        rep.violation(key + ' (start value)', fi.loc(d), f'the status starts at {cv!r} unconditionally: the tool exits non-zero although no graph '
                                      f'in any input has an error')
            if acc is not None:
                # accumulation needs an initial value that reaches it from outside the loop / before it
                nd = owner_node(cfg, pm, d)
                if var not in DA.get(nd, frozenset()):
                    rep.violation(key + ' (initialisation)', fi.loc(d), f'{var} is accumulated into before it is initialised on some path')
            if contributed is not None:
                self.check_expr(fi, contributed, d)

    def check_expr(self, fi: FuncInfo, expr: ast.AST, at: ast.AST):
        ctx, rep = self.ctx, self.rep
        ok, v = try_fold(expr)
        if ok:
            good = isinstance(v, (int, bool)) and 0 <= int(v) <= 255
            rep.add(f'{fi.module.name}:{fi.qualname}: status literal {v!r}', fi.loc(at), 'ok' if good else 'violation',
                    '' if good else 'not an exit status in 0..255')
            return
        if isinstance(expr, ast.Name):
            self.check_var(fi, expr.id, at)
            return
        if isinstance(expr, ast.Call):
            ts = ctx.cg.resolve_call(expr, fi)
            callees = [t.func for t in ts if t.kind == 'func']
            if callees:
                for c in callees:
                    self.check_producer(c)
                return
            d = dotted(expr.func)
            if d in ('bool', 'int') and len(expr.args) == 1:
                # bool(x) / int(bool) are 0/1 - and in the function that asks the model, x has to be about the report the model gave
                asks = [c for c, ts_ in ctx.cg.calls_in(fi) if any(t.kind == 'func' and t.func.qualname.endswith('Model.errors') for t in ts_)]
                if asks:
                    from ..resolve import expand as _exp7
                    ex = _exp7(ctx, fi, expr.args[0], at)
                    about_report = any(any(y is c for c in asks) for y in ast.walk(ex)) or any(isinstance(y, ast.Call) and isinstance(y.func, ast.Attribute) and y.func.attr == 'errors' for y in ast.walk(ex))
                    if not about_report and any(isinstance(y, ast.Attribute) and y.attr == 'metadata' for y in ast.walk(ex)):
                        rep.violation(f'{fi.module.name}:{fi.qualname}: status value {norm(expr)[:60]}', fi.loc(at),
                                      f'the status is computed from the metadata of the graph (`{norm(expr.args[0])[:50]}`), not from what Model.errors reported: a graph that already '
                                      f'carries "# ::error-1 ..." lines - the output of an earlier --check run fed back - has its entries overwritten, the mapping does not grow, and '
                                      f'the tool exits 0 although the errors are still there')
                return
        if isinstance(expr, ast.IfExp):
            self.check_expr(fi, expr.body, at)
            self.check_expr(fi, expr.orelse, at)
            return
        if isinstance(expr, ast.BoolOp):
            for v in expr.values:
                self.check_expr(fi, v, at)
            return
        if isinstance(expr, ast.BinOp) and isinstance(expr.op, ast.BitOr):
            self.check_expr(fi, expr.left, at)
            self.check_expr(fi, expr.right, at)
            return
        builtin_call = isinstance(expr, ast.Call) and isinstance(expr.func, ast.Name) and expr.func.id in ('len', 'sum', 'int', 'abs', 'max', 'min', 'hash', 'ord', 'round')
        if isinstance(expr, (ast.Tuple, ast.Subscript, ast.Attribute, ast.Call, ast.Name)) and not builtin_call:
            rep.undecided(f'{fi.module.name}:{fi.qualname}: status value {norm(expr)[:60]}', fi.loc(at),
                          'the status travels inside a tuple / through a construct the status chain does not follow')
            return
        rep.violation(f'{fi.module.name}:{fi.qualname}: status value {norm(expr)[:60]}', fi.loc(at),
                      'the status is not drawn from a fixed set of literals in 0..255 (an unbounded value is reduced '
                      'modulo 256 by the operating system, and |= of arbitrary integers is not "any failure")')

    def check_producer(self, fi: FuncInfo):
        if (fi.fq, '<return>') in self.visited:
            return
        self.visited.add((fi.fq, '<return>'))
        self.chain.append(fi.fq)
        rets = [n for n in walk_local(fi.node) if isinstance(n, ast.Return)]
        if not rets:
            raise AnalysisError(f'R7: status producer {fi.fq} has no return')
        lits = []
        for r in rets:
            if r.value is None:
                self.rep.violation(f'{fi.module.name}:{fi.qualname}: bare return', fi.loc(r), 'status producer returns None')
                continue
            ok, v = try_fold(r.value)
            if ok and v is None:
                self.rep.violation(f'{fi.module.name}:{fi.qualname}: return None', fi.loc(r), 'the status producer returns None: `exitcode |= None` raises TypeError, and sys.exit(None) means success')
                continue
            if ok and isinstance(v, (int, bool)):
                lits.append((r, v))
            self.check_expr(fi, r.value, r)
        if lits:
            self._leaf_iff(fi, lits)

    def _leaf_iff(self, fi: FuncInfo, lits):
        """Leaf producer: non-zero literal iff the error report is non-empty."""
        ctx, rep = self.ctx, self.rep
        cfg = CFG(fi.node)
        IN = cond_facts(cfg)
        pm = ctx.repo.parent_map(fi.node)
        # the error value: a local bound once to a call of Model.errors
        errvars = []
        for name, vals in ctx.cg.local_assigns(fi).items():
            if len(vals) == 1 and isinstance(vals[0], ast.Call):
                ts = ctx.cg.resolve_call(vals[0], fi)
                if any(t.kind == 'func' and t.func.qualname.endswith('Model.errors') for t in ts):
                    errvars.append(name)
        if not errvars:
            raise AnalysisError(f'R7: {fi.fq} returns status literals but does not call Model.errors')
        ev = errvars[0]
        for r, v in lits:
            facts = facts_at(cfg, IN, pm, r)
            key = f'{fi.module.name}:{fi.qualname}: return {v!r} iff errors'
            nonempty = (ev, True) in facts or (f'not {ev}', False) in facts or (f'len({ev}) > 0', True) in facts
            empty = (ev, False) in facts or (f'not {ev}', True) in facts or (f'len({ev}) == 0', True) in facts
            # does any condition on the way mention the report at all?  If none does, the literal is returned whatever the report says.
            mentions = any(ev in {x.id for x in ast.walk(ast.parse(f, mode='eval')) if isinstance(x, ast.Name)} for f, _ in facts)
            if int(v) != 0:
                if nonempty:
                    rep.ok(key, fi.loc(r))
                elif empty:
                    rep.violation(key, fi.loc(r), f'the non-zero status is returned exactly when the error report {ev} is EMPTY: a compliant graph fails --check and a non-compliant one passes')
                elif not mentions:
                    rep.violation(key, fi.loc(r), f'the non-zero status is returned without any test of the error report {ev}: --check fails for compliant graphs too')
                else:
                    rep.undecided(key, fi.loc(r), f'non-zero status is not conditional on the error report {ev} being non-empty')
            else:
                if empty:
                    rep.ok(key, fi.loc(r))
                elif nonempty:
                    rep.violation(key, fi.loc(r), f'status 0 is returned exactly when the error report {ev} is NOT empty: the graph has errors (they are even written to its metadata) and --check exits 0')
                elif not mentions:
                    rep.violation(key, fi.loc(r), f'status 0 is returned without any test of the error report {ev}: a graph with errors does not make --check fail')
                else:
                    rep.undecided(key, fi.loc(r), f'zero status can be returned although the error report {ev} is non-empty')


@rule('R7', '--check: the exit status accumulates every failure, over graphs and over files, up to sys.exit')
def r7(ctx: Ctx) -> RuleReport:
    rep = RuleReport('R7', r7.title, floor=6)
    main = ctx.repo.func('penman.__main__', 'main')
    sc = StatusChain(ctx, rep)
    exits = []
    for call, ts in ctx.cg.calls_in(main):
        if any(t.kind == 'ext' and t.name == 'sys.exit' for t in ts) and call.args:
            if isinstance(call.args[0], ast.Constant) and isinstance(call.args[0].value, str):
                continue
            exits.append(call)
    if not exits:
        raise AnalysisError('R7: main() has no sys.exit(<status>)')
    for call in exits:
        sc.check_expr(main, call.args[0], call)
    rep.analysed['chain'] = sc.chain
    need = {'penman.__main__:process', 'penman.__main__:_check'}
    if not need <= set(sc.chain) and not rep.violations():
        raise AnalysisError(f'R7: status chain {sc.chain} no longer reaches process and _check')
    # _check: the status is decided on the complete error report (nothing is removed from it first)
    ck = ctx.repo.func('penman.__main__', '_check')
    ev = [nm for nm, vals in ctx.cg.local_assigns(ck).items() if any(isinstance(v, ast.Call) and isinstance(v.func, ast.Attribute) and v.func.attr == 'errors' for v in vals)]
    for nm in ev:
        muts = [n for n in walk_local(ck.node) if (isinstance(n, ast.Call) and isinstance(n.func, ast.Attribute) and norm(n.func.value) == nm
                                                   and n.func.attr in ('pop', 'popitem', 'clear')) or
                (isinstance(n, ast.Delete) and any(isinstance(t, ast.Subscript) and norm(t.value) == nm for t in n.targets))]
        tests = [nd for nd in CFG(ck.node).nodes if nd.kind == 'cond' and norm(nd.ast) in (nm, f'not {nm}', f'len({nm}) > 0', f'len({nm})')]
        key = 'penman.__main__:_check: the exit status reflects every entry of the error report'
        if muts and tests and min(m.lineno for m in muts) < max(t.ast.lineno for t in tests):
            rep.violation(key, ck.loc(muts[0]), f'`{norm(muts[0])[:50]}` removes entries from the report before `{norm(tests[-1].ast)}` decides the status: a graph whose '
                          f'only problems are graph-level ("graph is empty", "top is not set") gets its error metadata but --check exits 0')
        else:
            rep.add(key, ck.loc(), 'ok' if tests else 'undecided')
    # in process(): the model check depends on the --check flag only (not on the output format or anything else)
    pr = ctx.repo.func('penman.__main__', 'process')
    params = set(pr.params)
    for call, ts in ctx.cg.calls_in(pr):
        if any(t.kind == 'func' and t.func.qualname == '_check' for t in ts):
            fx = facts_ex(ctx, pr, call)
            others = sorted((f, pol) for f, pol in fx if any(isinstance(x, ast.Name) and x.id in params - {'check'} for x in ast.walk(ast.parse(f, mode='eval'))))
            has = ('check', True) in fx
            key = 'penman.__main__:process: the model check runs for every graph exactly when --check is given'
            if ('check', False) in fx and not has:
                rep.violation(key, pr.loc(call), 'the model check runs exactly when --check is NOT given: with --check nothing is checked and the exit status stays 0')
            elif others:
                rep.violation(key, pr.loc(call), f'_check is also conditional on {others}: with that option combination --check checks nothing and '
                              f'the exit status stays 0 whatever the graphs contain')
            else:
                rep.add(key, pr.loc(call), 'ok' if has else 'undecided', str(sorted(fx)))
    return rep


# ---------------------------------------------------------------------------------------------
@rule('R12', 'the session model reaches every model-taking call in __main__ and codec')
def r12(ctx: Ctx) -> RuleReport:
    rep = RuleReport('R12', r12.title, floor=20)
    for modname in ('penman.__main__', 'penman.codec'):
        m = ctx.repo.module(modname)
        for fi in m.all_funcs:
            # a model-taking function handed to map() / starmap() / filter() by reference is called without a model
            for n in walk_local(fi.node):
                if isinstance(n, ast.Call) and norm(n.func).split('.')[-1] in ('map', 'starmap', 'imap') and n.args and isinstance(n.args[0], (ast.Name, ast.Attribute)):
                    probe = ast.Call(func=n.args[0], args=[], keywords=[])
                    ast.copy_location(probe, n)
                    ast.fix_missing_locations(probe)
                    for t in ctx.cg.resolve_call(probe, fi):
                        callee = t.func if t.kind == 'func' else None
                        if callee is not None and 'model' in callee.params and len(n.args) - 1 < len([p_ for p_ in callee.positional[:callee.positional.index('model') + 1]]):
                            rep.violation(f'{fi.module.name}:{fi.qualname}: {norm(n)[:90]}', fi.loc(n),
                                          f'{callee.fq} takes a model, but `{norm(n)[:60]}` calls it with the items only: every graph read through this path is interpreted with the '
                                          f'default model instead of the session model, while decode() uses the codec\'s own - under the AMR model ":consist-of" is then deinverted')
            for call, ts in ctx.cg.calls_in(fi):
                for t in ts:
                    callee = t.func if t.kind == 'func' else (t.cls.find_method('__init__') if t.kind == 'class' else None)
                    if callee is None or 'model' not in callee.params:
                        continue
                    skip = 1 if (t.kind == 'class' or (callee.is_method() and 'staticmethod' not in callee.decorators())) else 0
                    pos = callee.positional[skip:]
                    passed = None
                    if 'model' in pos and pos.index('model') < len(call.args) and not any(
                            isinstance(a, ast.Starred) for a in call.args):
                        passed = call.args[pos.index('model')]
                    for kw in call.keywords:
                        if kw.arg == 'model':
                            passed = kw.value
                        if kw.arg is None and isinstance(kw.value, ast.Name):
                            # **table with table = {'model': model, ...} written once as a dict display
                            dv = [v for v in ctx.cg.local_assigns(fi).get(kw.value.id, []) if isinstance(v, ast.AST)]
                            if len(dv) == 1 and isinstance(dv[0], ast.Dict):
                                for k_, v_ in zip(dv[0].keys, dv[0].values):
                                    if isinstance(k_, ast.Constant) and k_.value == 'model':
                                        passed = v_
                    key = f'{fi.module.name}:{fi.qualname}: {norm(call)[:90]}'
                    if passed is None:
                        star = [norm(k.value) for k in call.keywords if k.arg is None]
                        # a `model = Model()` default in the callee is exactly what must not happen silently
                        if _is_model_source(ctx, fi, call):
                            rep.ok(key, fi.loc(call), 'creates the session model')
                            break
                        from ..resolve import ctor_param_unused
                        if t.kind == 'class' and ctor_param_unused(ctx, fi, call, t.cls, 'model'):
                            rep.add(key, fi.loc(call), 'info', 'no model is passed, but no method called on the new object consults its model')
                            break
                        rep.violation(key, fi.loc(call),
                                      f'{callee.fq} takes a model but this call passes none'
                                      + (f' (**{star[0]} carries sort-key flags only)' if star else '')
                                      + ': the callee falls back to the default model instead of the one the user selected')
                    else:
                        good = _flows_from_session_model(ctx, fi, passed)
                        (rep.ok if good else rep.violation)(
                            key, fi.loc(call), '' if good else f'passes {norm(passed)} which is not the session model')
                    break
    return rep


def _is_model_source(ctx, fi, call) -> bool:
    return False


def _flows_from_session_model(ctx: Ctx, fi: FuncInfo, expr: ast.AST) -> bool:
    if isinstance(expr, ast.Attribute) and norm(expr) == 'self.model':
        return True
    if isinstance(expr, ast.Name):
        f = fi
        while f is not None:
            if expr.id in f.params:
                return expr.id == 'model'
            vals = ctx.cg.local_assigns(f).get(expr.id)
            if vals:
                for v in vals:
                    if isinstance(v, ast.Call):
                        ts = ctx.cg.resolve_call(v, f)
                        if any(t.kind == 'func' and t.func.qualname == '_get_model' for t in ts):
                            continue
                        if any(t.kind == 'class' and t.cls.name == 'Model' for t in ts) and expr.id == 'model':
                            continue   # `if model is None: model = Model()` default
                        return False
                    if isinstance(v, (ast.ImportFrom,)):
                        continue
                    return False
                return True
            f = f.parent
    return False


# ---------------------------------------------------------------------------------------------
def _load_pipeline():
    return json.loads((SPEC / 'pipeline.json').read_text())


def _op_index(spec) -> Dict[str, int]:
    idx = {}
    for i, group in enumerate(spec['order']):
        for fq in group:
            idx[fq] = i
    return idx


def _pipeline_calls(ctx: Ctx, fi: FuncInfo, idx, summaries) -> List[Tuple[ast.Call, int, int, str]]:
    """Calls in fi that perform pipeline operations: (call, min index, max index, label)."""
    out = []
    for call, ts in ctx.cg.calls_in(fi):
        for t in ts:
            if t.kind != 'func':
                continue
            if t.func.fq in idx:
                out.append((call, idx[t.func.fq], idx[t.func.fq], t.func.fq))
                break
            if t.func.fq in summaries and summaries[t.func.fq]:
                lo, hi = summaries[t.func.fq]
                out.append((call, lo, hi, t.func.fq))
                break
    return out


@rule('R24', 'the command applies the operations in the documented pipeline order on every path')
def r24(ctx: Ctx) -> RuleReport:
    rep = RuleReport('R24', r24.title, floor=10)
    spec = _load_pipeline()
    idx = _op_index(spec)
    for fq in idx:
        mod, qn = fq.split(':')
        ctx.repo.func(mod, qn)          # anchors must exist
    allowed = {(a['first'], a['then']) for a in spec['allowed_out_of_order']}
    summaries: Dict[str, Optional[Tuple[int, int]]] = {}
    mm = ctx.repo.module('penman.__main__')
    anchors = [ctx.repo.func('penman.__main__', n) for n in ('_process_in', '_process_out', 'process')]
    # helpers of the three anchored functions come first (bottom-up), so that a call of a helper counts as the operations it performs
    order: List[FuncInfo] = []
    pending = [f for f in mm.all_funcs if f.qualname != 'main']
    for _ in range(5):
        for f in list(pending):
            callees = [c for c in ctx.cg.callees(f) if c.module.name == mm.name and c.fq != f.fq]
            if all(c in order or c not in pending for c in callees):
                order.append(f)
                pending.remove(f)
    funcs = []
    for fi in order:
        probe = _pipeline_calls(ctx, fi, idx, {k: v for k, v in summaries.items()} | {f.fq: (0, 0) for f in funcs})
        if probe or fi in anchors:
            funcs.append(fi)
    funcs = [f for f in order if f in funcs]
    for fi in funcs:
        pcs = _pipeline_calls(ctx, fi, idx, summaries)
        if not pcs:
            if fi in anchors:
                raise AnalysisError(f'R24: {fi.fq} performs no pipeline operation any more')
            continue
        cfg = CFG(fi.node)
        pm = ctx.repo.parent_map(fi.node)
        nodes = [(owner_node(cfg, pm, c), c, lo, hi, lab) for c, lo, hi, lab in pcs]
        back = set(cfg.back_edges())
        for n1, c1, lo1, hi1, lab1 in nodes:
            # forward reachability without taking loop back edges (one graph's pipeline)
            reach = cfg.reachable_from([n1], via=lambda a, b, l: (a, b) not in back)
            for n2, c2, lo2, hi2, lab2 in nodes:
                if c1 is c2 or n2 not in reach:
                    continue
                if n1 == n2 and not (c1.lineno, c1.col_offset) < (c2.lineno, c2.col_offset):
                    continue
                key = f'{fi.module.name}:{fi.qualname}: {lab1.split(":")[1]} then {lab2.split(":")[1]}'
                if hi1 <= lo2 and not (hi1 == lo2 and lab1 == lab2 and n1 != n2 and False):
                    rep.ok(key, fi.loc(c2))
                elif (lab1, lab2) in allowed:
                    rep.exception(key, fi.loc(c2), next(a['reason'] for a in spec['allowed_out_of_order']
                                                          if (a['first'], a['then']) == (lab1, lab2)))
                else:
                    rep.violation(key, fi.loc(c2),
                                  f'{lab2} can run after {lab1}, but the documented pipeline puts it before '
                                  f'(order: {" -> ".join("|".join(x.split(":")[1] for x in g) for g in spec["order"])})')
        labs = {lab for _, _, _, lab in pcs}
        core = [(lo, hi) for _, lo, hi, lab in pcs
                if not any((first, lab) in allowed for first in labs)]   # allowed re-runs do not widen the summary
        summaries[fi.fq] = (min(lo for lo, _ in core), max(hi for _, hi in core))
    # the tree that is formatted always comes out of configure or reconfigure (no path skips the layout step)
    po = ctx.repo.func('penman.__main__', '_process_out')
    cfgo = CFG(po.node)
    pmo = ctx.repo.parent_map(po.node)
    LAYOUT = ('penman.layout:configure', 'penman.layout:reconfigure')

    def always_lays_out(f: FuncInfo, depth: int = 0) -> bool:
        c2 = CFG(f.node)
        pm2 = ctx.repo.parent_map(f.node)
        nodes = set()
        for c, ts in ctx.cg.calls_in(f):
            if any(t.kind == 'func' and (t.func.fq in LAYOUT or (depth < 2 and t.func.module.name == f.module.name and t.func.fq != f.fq
                                                                  and always_lays_out(t.func, depth + 1))) for t in ts):
                nodes.add(owner_node(c2, pm2, c))
        if not nodes:
            return False
        rn = ({nd.id for nd in c2.nodes if nd.kind == 'stmt' and isinstance(nd.ast, ast.Return)} or {c2.exit}) - nodes
        return not rn or c2.path_avoiding([(c2.entry, None)], rn, lambda nd: nd.id in nodes) is None
    lay = {owner_node(cfgo, pmo, c) for c, ts in ctx.cg.calls_in(po)
           if any(t.kind == 'func' and (t.func.fq in LAYOUT or (t.func.module.name == po.module.name and always_lays_out(t.func))) for t in ts)}
    retn = {nd.id for nd in cfgo.nodes if nd.kind == 'stmt' and isinstance(nd.ast, ast.Return)} - lay
    skip = cfgo.path_avoiding([(cfgo.entry, None)], retn or {cfgo.exit}, lambda nd: nd.id in lay) if (retn or not lay) else None
    rep.add('penman.__main__:_process_out: every graph is laid out by configure or reconfigure before it is written', po.loc(),
            'violation' if skip else 'ok',
            'a path returns a tree without configuring the graph (' + ' -> '.join(repr(cfgo.nodes[x]) for x in skip[-4:])[:200] +
            '): the tool then writes something else than the library pipeline (configure normalises "(b / )" to "(b)", :ARG0-of-of ...)' if skip else '')
    # value threading: each graph/tree operation consumes the current value and its result replaces it
    for fi in [f for f in funcs if f.qualname != 'process']:
        for call, lo, hi, lab in _pipeline_calls(ctx, fi, idx, {}):
            pm = ctx.repo.parent_map(fi.node)
            par = pm.get(id(call))
            if lab.endswith(('rearrange', 'reset_variables')):
                continue       # in-place operations
            if lab == 'penman.layout:interpret' and fi.qualname != '_process_in':
                continue       # the allowed re-interpretation (after reconfigure) into an unused local
            key = f'{fi.module.name}:{fi.qualname}: result of {lab.split(":")[1]} is carried forward'
            good = (isinstance(par, ast.Assign) and len(par.targets) == 1 and isinstance(par.targets[0], ast.Name)) or isinstance(par, ast.Return)
            rep.add(key, fi.loc(call), 'ok' if good else 'undecided',
                    '' if good else 'the result of the operation is discarded')
    return rep


def argparse_calls(ctx: Ctx, f: FuncInfo) -> List[ast.Call]:
    """The add_argument calls of f; a call inside `for a, b in <constant table>:` is written out once per row with the loop names replaced
    by the constants of that row (the table is folded from the source, it is not executed)."""
    import copy
    pm = ctx.repo.parent_map(f.node)
    out = []
    for n in walk_local(f.node):
        if not (isinstance(n, ast.Call) and isinstance(n.func, ast.Attribute) and n.func.attr == 'add_argument'):
            continue
        loops = []
        x = n
        while id(x) in pm:
            x = pm[id(x)]
            if isinstance(x, ast.For):
                loops.append(x)
        names = {y.id for a in list(n.args) + [k.value for k in n.keywords] for y in ast.walk(a) if isinstance(y, ast.Name)}
        loops = [lp for lp in loops if names & {y.id for y in ast.walk(lp.target) if isinstance(y, ast.Name)}]
        if not loops:
            out.append(n)
            continue
        if len(loops) != 1:
            out.append(n)
            continue
        lp = loops[0]
        okt, table = try_fold(lp.iter, {}, ctx.repo, f.module)
        if not okt or not isinstance(table, (tuple, list)):
            out.append(n)
            continue
        tnames = [y.id for y in lp.target.elts] if isinstance(lp.target, ast.Tuple) and all(isinstance(y, ast.Name) for y in lp.target.elts) else \
            ([lp.target.id] if isinstance(lp.target, ast.Name) else None)
        if tnames is None:
            out.append(n)
            continue
        for row in table:
            vals = list(row) if isinstance(lp.target, ast.Tuple) and isinstance(row, (tuple, list)) else [row]
            if len(vals) != len(tnames) or not all(isinstance(v, (str, int, float, bool, type(None))) for v in vals):
                out.append(n)
                break
            env = dict(zip(tnames, vals))

            class R(ast.NodeTransformer):
                def visit_Name(self, nd):
                    if nd.id in env and isinstance(nd.ctx, ast.Load):
                        return ast.copy_location(ast.Constant(value=env[nd.id]), nd)
                    return nd
            c2 = R().visit(copy.deepcopy(n))
            ast.fix_missing_locations(c2)
            out.append(c2)
    return out


def _expand_dictcomp(ctx: Ctx, fi: FuncInfo, dc: ast.DictComp):
    """{name: getattr(args, name) for name in NAMES} with NAMES a constant tuple of strings, written out as the dict literal it builds"""
    if len(dc.generators) != 1 or dc.generators[0].ifs or not isinstance(dc.generators[0].target, ast.Name):
        return None
    ok, names = try_fold(dc.generators[0].iter, {}, ctx.repo, fi.module)
    if not ok or not isinstance(names, (tuple, list)) or not all(isinstance(x, str) for x in names):
        return None
    v = dc.generators[0].target.id
    if norm(dc.key) != v:
        return None
    keys, values = [], []
    for nm in names:
        if isinstance(dc.value, ast.Call) and norm(dc.value.func) == 'getattr' and len(dc.value.args) == 2 and norm(dc.value.args[1]) == v and nm.isidentifier():
            val = ast.Attribute(value=dc.value.args[0], attr=nm, ctx=ast.Load())
        else:
            return None
        keys.append(ast.Constant(value=nm))
        values.append(val)
    d = ast.Dict(keys=keys, values=values)
    ast.copy_location(d, dc)
    ast.fix_missing_locations(d)
    return d


@rule('R25', 'each command-line option guards exactly its own operation (no crossed wires, none dropped)')
def r25(ctx: Ctx) -> RuleReport:
    rep = RuleReport('R25', r25.title, floor=16)
    spec = _load_pipeline()
    main = ctx.repo.func('penman.__main__', 'main')
    # 1. argparse destinations
    dests: Dict[str, str] = {}
    mm = ctx.repo.module('penman.__main__')
    for n in [x for f in mm.functions.values() for x in argparse_calls(ctx, f)]:
        if isinstance(n, ast.Call) and isinstance(n.func, ast.Attribute) and n.func.attr == 'add_argument':
            flags = [a.value for a in n.args if isinstance(a, ast.Constant) and isinstance(a.value, str)]
            dest = next((k.value.value for k in n.keywords if k.arg == 'dest' and isinstance(k.value, ast.Constant)), None)
            for fl in flags:
                if fl.startswith('--'):
                    dests[fl] = dest or fl[2:].replace('-', '_')
    # 2. option dict literals
    dicts: Dict[str, Dict[str, ast.AST]] = {}
    for name in ('normalize_options', 'format_options'):
        vals = ctx.cg.local_assigns(main).get(name, [])
        if len(vals) == 1 and isinstance(vals[0], ast.DictComp):
            vals = [_expand_dictcomp(ctx, main, vals[0]) or vals[0]]
        if len(vals) != 1 or not isinstance(vals[0], ast.Dict):
            raise AnalysisError(f'R25: {name} in main() is not a single dict literal')
        dicts[name] = {try_fold(k)[1]: v for k, v in zip(vals[0].keys, vals[0].values)}
    for opt, info in list(spec['options'].items()) + list(spec['format_options'].items()):
        dname = 'normalize_options' if opt in spec['options'] else 'format_options'
        key = info['key']
        k = f'penman.__main__:main: {opt} -> {dname}[{key!r}]'
        if opt not in dests:
            rep.violation(k, main.loc(), f'the documented option {opt} is not defined by the argument parser')
            continue
        if key not in dicts[dname]:
            rep.violation(k, main.loc(), f'{dname} has no entry {key!r}: the option is parsed but never used')
            continue
        v = dicts[dname][key]
        src = _arg_source(ctx, main, v)
        good = src == dests[opt]
        rep.add(k, main.loc(v), 'ok' if good else 'undecided',
                '' if good else f'{dname}[{key!r}] is fed from args.{src}, but {opt} is stored in args.{dests[opt]}')
    # 3. guards in _process_in/_process_out
    guard_of = {info['guards']: info['key'] for info in spec['options'].values()}
    # 3a. every documented operation is still called somewhere in the two functions (or what they call), and its result is used
    from ..resolve import local_callees as _lc
    called = {}
    for fn in ('_process_in', '_process_out'):
        f0 = ctx.repo.func('penman.__main__', fn)
        for f1 in _lc(ctx, f0, depth=1):
            pm1 = ctx.repo.parent_map(f1.node)
            for call, ts in ctx.cg.calls_in(f1):
                for t in ts:
                    if t.kind == 'func' and t.func.fq in guard_of:
                        called.setdefault(t.func.fq, []).append((f1, call, pm1.get(id(call))))
    IN_PLACE = {'penman.layout:rearrange', 'penman.tree:Tree.reset_variables'}
    for fq, okey in guard_of.items():
        k = f'penman.__main__: the operation behind {okey} ({fq.split(":")[1]}) is applied'
        if fq not in called:
            # calls inside lambdas / nested helpers / dispatch tables are not in the resolved call list: look for the name itself
            short = fq.split(':')[1].split('.')[-1]
            raw = [x for fn in ('_process_in', '_process_out') for x in ast.walk(ctx.repo.func('penman.__main__', fn).node)
                   if isinstance(x, (ast.Attribute, ast.Name)) and (getattr(x, 'attr', None) == short or getattr(x, 'id', None) == short)]
            if raw:
                rep.add(k, ctx.repo.func('penman.__main__', '_process_in').loc(raw[0]), 'info', 'referenced indirectly (table / lambda)')
                continue
        if fq not in called:
            rep.violation(k, ctx.repo.func('penman.__main__', '_process_in').loc(), f'no call of {fq.split(":")[1]} is left in _process_in / _process_out: the option is accepted and silently does nothing')
            continue
        f1, call, par = called[fq][0]
        if fq not in IN_PLACE and isinstance(par, ast.Expr):
            rep.violation(k, f1.loc(call), f'the result of `{norm(call)[:50]}` is thrown away: {fq.split(":")[1]} returns a new object, so the option has no effect')
        else:
            rep.ok(k, f1.loc(call))
    for fn in ('_process_in', '_process_out'):
        fi = ctx.repo.func('penman.__main__', fn)
        cfg = CFG(fi.node)
        IN = cond_facts(cfg)
        pm = ctx.repo.parent_map(fi.node)
        optparam = fi.positional[-1]
        for call, ts in ctx.cg.calls_in(fi):
            for t in ts:
                if t.kind != 'func':
                    continue
                fq = t.func.fq
                facts = facts_ex(ctx, fi, call)
                guards_true = {f for f, pol in facts if pol and f.startswith(f'{optparam}[')}
                guards_false = {f for f, pol in facts if not pol and f.startswith(f'{optparam}[')}
                k = f'penman.__main__:{fn}: {fq.split(":")[1]} guarded by its option'
                if fq in guard_of:
                    want = f"{optparam}['{guard_of[fq]}']"
                    good = guards_true == {want} and not guards_false
                    crossed = bool(guards_true) and want not in guards_true
                    # guarded by its own option, but also switched off by another one: with both options given the documented step is skipped
                    crossed = crossed or (guards_true == {want} and bool(guards_false))
                    crossed = crossed or want in guards_false                      # runs exactly when its own option is NOT given
                    try:
                        reachable = owner_node(cfg, pm, call) in cfg.reachable_from([cfg.entry])
                    except Exception:
                        reachable = True
                    crossed = crossed or not reachable                              # `if False:` - the step can never run
                    crossed = crossed or (not guards_true and not guards_false and not any(f.startswith(optparam) for f, _ in facts))   # runs whatever the options say
                    rep.add(k, fi.loc(call), 'ok' if good else ('violation' if crossed else 'undecided'),
                            '' if good else f'runs under {sorted(guards_true) or "no option"}'
                                            f'{" and not " + str(sorted(guards_false)) if guards_false else ""}, documented guard is {want}')
                elif fq in spec['unconditional'] and fn == '_process_in':
                    good = not guards_true and not guards_false
                    rep.add(k.replace('guarded by its option', 'runs unconditionally'), fi.loc(call),
                            'ok' if good else 'undecided', '' if good else f'runs only under {sorted(guards_true)}')
                elif fq in spec['alternative']:
                    want = f"{optparam}['reconfigure']"
                    good = guards_false == {want} and not guards_true
                    rep.add(k.replace('guarded by its option', 'runs exactly without --reconfigure'), fi.loc(call),
                            'ok' if good else 'undecided', '' if good else f'facts: +{sorted(guards_true)} -{sorted(guards_false)}')
        # option values used as arguments come from the option that guards the call
        for call, ts in ctx.cg.calls_in(fi):
            for t in ts:
                if t.kind == 'func' and t.func.fq == 'penman.tree:Tree.reset_variables':
                    a = expand(ctx, fi, call.args[0], call) if call.args else None
                    good = a is not None and norm(a) == f"{optparam}['make_variables']"
                    rep.add(f'penman.__main__:{fn}: reset_variables receives the --make-variables format', fi.loc(call),
                            'ok' if good else 'undecided', '' if good else f'receives {norm(a) if a else None}')
        for n in walk_local(fi.node):
            nv = expand(ctx, fi, n.value, n) if isinstance(n, ast.Assign) else None
            if isinstance(n, ast.Assign) and isinstance(nv, ast.Subscript) and isinstance(nv.value, ast.Name) \
                    and nv.value.id == optparam and isinstance(n.targets[0], ast.Tuple):
                okk, kname = try_fold(nv.slice)
                facts = facts_ex(ctx, fi, n)
                want = f"{optparam}['{kname}']"
                good = (want, True) in facts
                rep.add(f'penman.__main__:{fn}: key/kwargs unpacked from {want} under its own guard', fi.loc(n),
                        'ok' if good else 'undecided', '' if good else 'sort key taken from a different option than the one tested')
    # 4. sort-key tables are used with their own option
    for call, ts in ctx.cg.calls_in(main):
        if any(t.kind == 'func' and t.func.qualname == '_make_sort_key' for t in ts):
            a0, a2 = norm(call.args[0]), norm(call.args[2]) if len(call.args) > 2 else ''
            want = {'rearrange': 'REARRANGE_KEYS', 'reconfigure': 'RECONFIGURE_KEYS'}
            src0 = _arg_source(ctx, main, call.args[0])
            good = want.get(src0) == a2
            par = ctx.repo.parent_map(main.node).get(id(call))
            tgt = par.targets[0] if isinstance(par, ast.Assign) else None
            # the result feeds the option entry of the same name (directly, through args.<x>, or through a local)
            feeds = None
            if tgt is not None:
                if isinstance(tgt, ast.Attribute) and norm(tgt.value) == 'args':
                    feeds = tgt.attr
                elif isinstance(tgt, ast.Name):
                    feeds = next((k for k, v in dicts['normalize_options'].items() if isinstance(v, ast.Name) and v.id == tgt.id), None)
            crossed = src0 in want and (want.get(src0) != a2 or (feeds is not None and feeds != src0))
            good = good and feeds == src0
            a0 = f'args.{src0}'
            rep.add(f'penman.__main__:main: _make_sort_key({a0}, ..., {a2})', main.loc(call),
                    'ok' if good else ('violation' if crossed else 'undecided'),
                    '' if good else f'sort keys of {a0} are resolved with table {a2} and feed the option {feeds!r}')
    return rep


def _arg_source(ctx: Ctx, fi: FuncInfo, v: ast.AST, depth: int = 0) -> Optional[str]:
    """'x' if the value is args.x, possibly through one local computed by a helper from args.x."""
    if isinstance(v, ast.Attribute) and isinstance(v.value, ast.Name) and v.value.id == 'args':
        return v.attr
    if isinstance(v, ast.Call) and len(v.args) >= 1 and depth < 4 and any(t.kind == 'func' for t in ctx.cg.resolve_call(v, fi)):
        return _arg_source(ctx, fi, v.args[0], depth + 1)          # helper(args.x) written in place
    if isinstance(v, ast.Name):
        vals = ctx.cg.local_assigns(fi).get(v.id, [])
        if len(vals) > 1 and depth < 4:
            # x = args.y; if x: x = helper(x, ...)   -- every definition leads back to the same argument
            srcs = set()
            for val in vals:
                if isinstance(val, ast.Call) and val.args and isinstance(val.args[0], ast.Name) and val.args[0].id == v.id:
                    continue
                srcs.add(_arg_source(ctx, fi, val, depth + 1) if isinstance(val, ast.AST) else None)
            if len(srcs) == 1 and None not in srcs:
                return srcs.pop()
        if len(vals) == 1 and isinstance(vals[0], ast.Call) and len(vals[0].args) >= 1:
            return _arg_source(ctx, fi, vals[0].args[0])
        if len(vals) == 1 and isinstance(vals[0], ast.IfExp):
            # x = f(args.y, ...) if args.y else None
            for arm in (vals[0].body, vals[0].orelse):
                r = _arg_source(ctx, fi, arm) if not isinstance(arm, ast.Constant) else None
                if r:
                    return r
        if len(vals) == 1 and isinstance(vals[0], (ast.Attribute, ast.Name)):
            return _arg_source(ctx, fi, vals[0])
        # key, kwargs = helper(args.x, ...)  (tuple unpacking)
        for n in walk_local(fi.node):
            if isinstance(n, ast.Assign) and isinstance(n.targets[0], ast.Tuple) and any(norm(e) == v.id for e in n.targets[0].elts) \
                    and isinstance(n.value, ast.Call) and n.value.args:
                return _arg_source(ctx, fi, n.value.args[0])
    return None


# ---------------------------------------------------------------------------------------------
def _r42_lookahead_form(ctx: Ctx, rep: RuleReport, fi: FuncInfo, cfg, pm, IN, RD) -> bool:
    """t = next(trees, None) / while t is not None: <print the graph>; t = next(trees, None); if t is not None: print()  -
    one tree of look-ahead: the separator is printed after a graph exactly when another one follows."""
    las = ctx.cg.local_assigns(fi)

    def pulls(v):
        """name of the iterator when v is next(IT, None) and IT is (iter of) the iterparse result"""
        if not (isinstance(v, ast.Call) and norm(v.func) == 'next' and len(v.args) == 2 and isinstance(v.args[1], ast.Constant) and v.args[1].value is None
                and isinstance(v.args[0], ast.Name)):
            return None
        src = las.get(v.args[0].id, [])
        if len(src) != 1 or not isinstance(src[0], ast.AST):
            return None
        e = src[0]
        if isinstance(e, ast.Call) and norm(e.func) == 'iter' and len(e.args) == 1:
            e = e.args[0]
        if isinstance(e, ast.Call) and any(t.kind == 'func' and t.func.qualname.endswith('iterparse') for t in ctx.cg.resolve_call(e, fi)):
            return v.args[0].id
        return None
    for lp in [n for n in walk_local(fi.node) if isinstance(n, ast.While)]:
        t_ = lp.test
        if not (isinstance(t_, ast.Compare) and len(t_.ops) == 1 and isinstance(t_.ops[0], ast.IsNot) and isinstance(t_.left, ast.Name)
                and isinstance(t_.comparators[0], ast.Constant) and t_.comparators[0].value is None) or lp.orelse:
            continue
        X = t_.left.id
        defs = [n for n in walk_local(fi.node) if isinstance(n, ast.Assign) and len(n.targets) == 1 and isinstance(n.targets[0], ast.Name) and n.targets[0].id == X and pulls(n.value)]
        inner = [n for n in defs if any(x is n for x in ast.walk(lp))]
        outer = [n for n in defs if n not in inner]
        if len(inner) != 1 or len(outer) != 1 or pulls(inner[0].value) != pulls(outer[0].value):
            continue
        if any(isinstance(x, (ast.Break, ast.Continue)) for x in ast.walk(lp)):
            rep.undecided('penman.__main__:process: loop over codec.iterparse(f)', fi.loc(lp), 'break / continue in the look-ahead loop')
            return True
        head = cfg.node_of(lp)
        cond = cfg.expr_cond.get(id(t_))
        pull = cfg.node_of(inner[0])
        first = cfg.node_of(outer[0])
        # the first pull is what the loop test sees on entry
        if RD.get(cond, {}).get(X, set()) != {first, pull}:
            rep.undecided('penman.__main__:process: loop over codec.iterparse(f)', fi.loc(lp), f'`{X}` has other definitions reaching the loop test')
            return True
        rep.ok('penman.__main__:process: loop over codec.iterparse(f)', fi.loc(lp), f'{X} = next({pulls(inner[0].value)}, None) before the loop and at the end of every round')
        prints = [c for c, ts in ctx.cg.calls_in(fi) if any(t.kind == 'ext' and t.name == 'builtins.print' for t in ts) and any(x is c for x in ast.walk(lp))]
        out_param = fi.positional[2] if len(fi.positional) > 2 else 'out'
        for c in prints:
            f = next((k.value for k in c.keywords if k.arg == 'file'), None)
            good = isinstance(f, ast.Name) and f.id == out_param
            rep.add(f'penman.__main__:process: {norm(c)} goes to the output stream', fi.loc(c), 'ok' if good else 'undecided', '' if good else 'graph text is not written to the `out` argument')
        content = [c for c in prints if c.args]
        seps = [c for c in prints if not c.args]
        if len(content) != 1 or len(seps) != 1:
            rep.undecided('penman.__main__:process: exactly one content print and one separator print in the loop', fi.loc(lp), f'{len(content)} / {len(seps)}')
            return True
        c, sp = content[0], seps[0]
        cn, sn = owner_node(cfg, pm, c), owner_node(cfg, pm, sp)
        skip = cfg.path_avoiding([(cond, 'T')], {head}, lambda nd: nd.id == cn)
        rep.add('penman.__main__:process: every iteration prints its graph', fi.loc(c), 'violation' if skip else 'ok',
                'an iteration can end without output: ' + ' -> '.join(repr(cfg.nodes[p_]) for p_ in skip) if skip else '')
        again = cfg.path_avoiding([(cn, None)], {cn}, lambda nd: nd.id == head)
        rep.add('penman.__main__:process: an iteration prints its graph once', fi.loc(c), 'violation' if again else 'ok', 'the print can repeat within one iteration' if again else '')
        # the graph that is printed is the one pulled for this round: the pull comes after the print
        pulled_before = pull in cfg.reachable_from([cond], avoid=lambda nd: nd.id in (cn, head)) - {cond}
        a = c.args[0]
        srcs = [def_value(cfg, dn, a.id) for dn in RD.get(cn, {}).get(a.id, ())] if isinstance(a, ast.Name) else [a]
        FORMATTERS = ('penman.codec:PENMANCodec.format', 'penman.codec:PENMANCodec.format_triples')
        good = bool(srcs) and all(isinstance(v, ast.Call) and any(t.kind == 'func' and t.func.fq in FORMATTERS for t in ctx.cg.resolve_call(v, fi)) for v in srcs)
        rep.add('penman.__main__:process: the printed text is the formatter result', fi.loc(c), 'ok' if good and not pulled_before else 'undecided',
                '' if good and not pulled_before else 'the printed value is not read as the formatter result of this round')
        # separator: after the pull, exactly when there is a next tree, and nowhere else
        facts = facts_at(cfg, IN, pm, sp)
        kq = 'penman.__main__:process: separator printed between two graphs (when a further tree was pulled)'
        fresh = RD.get(sn, {}).get(X, set()) == {pull}
        if fresh and ((f'{X} is not None', True) in facts or (f'{X} is None', False) in facts):
            rep.ok(kq, fi.loc(sp), f'under `{X} is not None` right after the pull')
        elif fresh and ((f'{X} is not None', False) in facts or (f'{X} is None', True) in facts):
            rep.violation(kq, fi.loc(sp), f'the blank line is printed when NO further tree follows: the output ends with an empty line and the graphs are not separated')
        elif fresh and not any(X in f_ for f_, _ in facts):
            rep.violation(kq, fi.loc(sp), f'the blank line does not depend on whether another tree follows: a stream ends with an empty line that dumps() does not produce')
        else:
            rep.undecided(kq, fi.loc(sp), 'the separator is not tied to the look-ahead')
        order = cn in cfg.reachable_from([sn], avoid=lambda nd: nd.id == head)
        rep.add('penman.__main__:process: separator follows the graph text of its round', fi.loc(sp), 'violation' if order else 'ok',
                'the separator can precede the graph within one round' if order else '')
        return True
    return False


@rule('R42', 'process() prints exactly one graph per parsed tree, in order, with one separator between graphs')
def r42(ctx: Ctx) -> RuleReport:
    rep = RuleReport('R42', r42.title, floor=5)
    fi = ctx.repo.func('penman.__main__', 'process')
    cfg = CFG(fi.node)
    pm = ctx.repo.parent_map(fi.node)
    IN = cond_facts(cfg)
    RD = reaching_defs(cfg, fi.params)
    loops = [n for n in walk_local(fi.node) if isinstance(n, ast.For)]
    main_loop = None
    enum_index = None
    for lp in loops:
        it = lp.iter
        if isinstance(it, ast.Call) and isinstance(it.func, ast.Name) and it.func.id == 'enumerate' and len(it.args) == 1 and not it.keywords \
                and isinstance(lp.target, ast.Tuple) and len(lp.target.elts) == 2 and isinstance(lp.target.elts[0], ast.Name):
            enum_index = lp.target.elts[0].id
            it = it.args[0]
        src = it
        if isinstance(it, ast.Name):
            vals = ctx.cg.local_assigns(fi).get(it.id, [])
            src = vals[0] if len(vals) == 1 else it
        if isinstance(src, ast.Call):
            ts = ctx.cg.resolve_call(src, fi)
            if any(t.kind == 'func' and t.func.qualname.endswith('iterparse') for t in ts):
                main_loop = lp
    if main_loop is None:
        if _r42_lookahead_form(ctx, rep, fi, cfg, pm, IN, RD):
            return rep
        raise AnalysisError('R42: no loop over codec.iterparse(...) in process()')
    rep.ok('penman.__main__:process: loop over codec.iterparse(f)', fi.loc(main_loop))
    head = cfg.node_of(main_loop)
    prints = [c for c, ts in ctx.cg.calls_in(fi) if any(t.kind == 'ext' and t.name == 'builtins.print' for t in ts)
              and any(x is c for x in ast.walk(main_loop))]
    out_param = fi.positional[2] if len(fi.positional) > 2 else 'out'
    content = [c for c in prints if c.args]
    seps = [c for c in prints if not c.args]
    for c in prints:
        f = next((k.value for k in c.keywords if k.arg == 'file'), None)
        good = isinstance(f, ast.Name) and f.id == out_param
        rep.add(f'penman.__main__:process: {norm(c)} goes to the output stream', fi.loc(c), 'ok' if good else 'undecided',
                '' if good else 'graph text is not written to the `out` argument')
    if not content and not [c for c, ts in ctx.cg.calls_in(fi) if any(x is c for x in ast.walk(main_loop)) and isinstance(c.func, ast.Attribute) and c.func.attr in ('write', 'writelines')] \
            and not [c for c, ts in ctx.cg.calls_in(fi) if any(x is c for x in ast.walk(main_loop)) and any(isinstance(a, ast.Name) and a.id == (fi.positional[2] if len(fi.positional) > 2 else 'out') for a in c.args)]:
        rep.violation('penman.__main__:process: every iteration prints its graph', fi.loc(main_loop), 'nothing in the loop over the parsed trees writes to the output stream (no print with '
                      'content, no write, the stream is passed to no call): the graphs are processed and dropped')
        return rep
    if len(content) != 1:
        rep.undecided('penman.__main__:process: exactly one content print in the loop', fi.loc(main_loop),
                      f'{len(content)} content prints')
        return rep
    c = content[0]
    cn = owner_node(cfg, pm, c)
    path = cfg.path_avoiding([(head, 'T')], {head}, lambda nd: nd.id == cn)
    rep.add('penman.__main__:process: every iteration prints its graph', fi.loc(c), 'violation' if path else 'ok',
            'an iteration can end without output: ' + ' -> '.join(repr(cfg.nodes[p]) for p in path) if path else '')
    again = cfg.path_avoiding([(cn, None)], {cn}, lambda nd: nd.id == head)
    rep.add('penman.__main__:process: an iteration prints its graph once', fi.loc(c), 'violation' if again else 'ok',
            'the print can repeat within one iteration' if again else '')
    # what is printed: the text produced by codec.format / codec.format_triples for this iteration
    a = c.args[0]
    srcs = []
    if isinstance(a, ast.Name):
        for dn in RD.get(cn, {}).get(a.id, ()):
            v = def_value(cfg, dn, a.id)
            srcs.append(v)
    else:
        srcs.append(a)
    good = bool(srcs)
    FORMATTERS = ('penman.codec:PENMANCodec.format', 'penman.codec:PENMANCodec.format_triples')

    def is_formatter_result(f: FuncInfo, v, depth=0) -> bool:
        if not isinstance(v, ast.Call):
            return False
        ts = ctx.cg.resolve_call(v, f)
        if any(t.kind == 'func' and t.func.fq in FORMATTERS for t in ts):
            return True
        hs = [t.func for t in ts if t.kind == 'func' and t.func.module.name == f.module.name]
        if len(hs) == 1 and depth < 2:
            h = hs[0]
            rets = [n for n in walk_local(h.node) if isinstance(n, ast.Return)]
            return bool(rets) and all(r.value is not None and is_formatter_result(h, expand(ctx, h, r.value, r), depth + 1) for r in rets)
        return False
    for v in srcs:
        good = good and is_formatter_result(fi, v)
    rep.add('penman.__main__:process: the printed text is the formatter result', fi.loc(c), 'ok' if good else 'undecided',
            '' if good else f'printed value comes from {[norm(v)[:50] if v is not None else None for v in srcs]}')
    # separator: exactly one empty print on every iteration but the first
    if len(seps) != 1:
        rep.undecided('penman.__main__:process: one separator print', fi.loc(main_loop), f'{len(seps)} separator prints')
        return rep
    s = seps[0]
    sn = owner_node(cfg, pm, s)
    facts = facts_at(cfg, IN, pm, s)
    flag = next((f for f, pol in facts if not pol and f.isidentifier()), None)
    ok_flag = False
    kq = 'penman.__main__:process: separator printed before every graph but the first'
    wrong = next((f for f, pol in facts if pol and f.isidentifier() and f not in ('True',)), None)
    if flag is None and wrong is not None:
        # the separator stands under `flag` being TRUE: is that flag a first-iteration flag (True before the loop, False inside)?
        vals_ = [v for v in ctx.cg.local_assigns(fi).get(wrong, []) if isinstance(v, ast.AST)]
        outside = [try_fold(n.value)[1] for n in walk_local(fi.node) if isinstance(n, ast.Assign) and isinstance(n.targets[0], ast.Name) and n.targets[0].id == wrong
                   and not any(x is n for x in ast.walk(main_loop))]
        inside_ = [try_fold(n.value)[1] for n in walk_local(fi.node) if isinstance(n, ast.Assign) and isinstance(n.targets[0], ast.Name) and n.targets[0].id == wrong
                   and any(x is n for x in ast.walk(main_loop))]
        if outside == [True] and inside_ == [False] and len(vals_) == 2:
            rep.violation(kq, fi.loc(s), f'the blank line is printed when `{wrong}` is true, i.e. before the FIRST graph only: the output starts with an empty line and the graphs that follow '
                          f'are not separated')
            return rep
    if flag:
        outside = [try_fold(n.value)[1] for n in walk_local(fi.node) if isinstance(n, ast.Assign) and isinstance(n.targets[0], ast.Name) and n.targets[0].id == flag
                   and not any(x is n for x in ast.walk(main_loop))]
        inside_ = [(n, try_fold(n.value)[1]) for n in walk_local(fi.node) if isinstance(n, ast.Assign) and isinstance(n.targets[0], ast.Name) and n.targets[0].id == flag
                   and any(x is n for x in ast.walk(main_loop))]
        if outside == [False] and all(v is False for _, v in inside_):
            rep.violation(kq, fi.loc(s), f'`{flag}` is False from the start: a blank line is printed before the first graph as well (the output no longer equals what dumps() returns)')
            return rep
        if outside == [True] and not inside_:
            rep.violation(kq, fi.loc(s), f'`{flag}` is set to True before the loop and never cleared: no blank line is ever printed, the graphs of a stream are written without separation')
            return rep
        if outside == [True] and inside_ and all(v is True for _, v in inside_):
            rep.violation(kq, fi.loc(s), f'`{flag}` is only ever set to True: no blank line is ever printed between graphs')
            return rep
    if flag:
        vals = ctx.cg.local_assigns(fi).get(flag, [])
        consts = [try_fold(v)[1] for v in vals if v is not None]
        ok_flag = sorted(map(bool, consts)) == [False, True]
        # the flag is True before the loop and set False on the first iteration
        for n in walk_local(fi.node):
            if isinstance(n, ast.Assign) and isinstance(n.targets[0], ast.Name) and n.targets[0].id == flag:
                inside = any(x is n for x in ast.walk(main_loop))
                val = try_fold(n.value)[1]
                if inside and val is not False:
                    ok_flag = False
                if not inside and val is not True:
                    ok_flag = False
                if inside:
                    f2 = facts_at(cfg, IN, pm, n)
                    if (flag, True) not in f2:
                        ok_flag = False
    if not ok_flag and enum_index is not None and not ctx.cg.local_assigns(fi).get(enum_index, [None])[1:]:
        # counted loop: the separator is printed exactly when the index is positive
        ok_flag = any(((f in (f'{enum_index} > 0', f'{enum_index} >= 1', f'{enum_index} != 0', enum_index)) and pol) or
                      ((f in (f'{enum_index} == 0', f'{enum_index} < 1', f'not {enum_index}')) and not pol) for f, pol in facts)
    before = cfg.path_avoiding([(head, 'T')], {cn}, lambda nd: nd.id == sn)
    rep.add('penman.__main__:process: separator printed before every graph but the first', fi.loc(s),
            'ok' if ok_flag and before is not None else 'undecided',
            '' if ok_flag and before is not None else 'the blank line between graphs is not tied to a first-iteration flag')
    order = sn in cfg.reachable_from([cn], avoid=lambda nd: nd.id == head)
    rep.add('penman.__main__:process: separator precedes the graph text', fi.loc(s), 'violation' if order else 'ok',
            'separator can follow the graph within one iteration' if order else '')
    return rep


@rule('R72', 'a model file given with --model is handed to Model(...) whole')
def r72(ctx: Ctx) -> RuleReport:
    rep = RuleReport('R72', r72.title, floor=1)
    fi = ctx.repo.func('penman.__main__', '_get_model')
    init = ctx.repo.cls('penman.model', 'Model').find_method('__init__')
    params = [p for p in init.positional[1:]]
    calls = [c for c, ts in ctx.cg.calls_in(fi) if any(t.kind == 'class' and t.cls.name == 'Model' for t in ts)]
    seen = False
    for c in calls:
        fx = facts_ex(ctx, fi, c)
        if not any(f == fi.positional[2] and pol for f, pol in fx) and not any('json.load' in norm(x) for x in ast.walk(c)):
            star = [k for k in c.keywords if k.arg is None]
            if not star and not c.keywords and not c.args:
                continue            # Model() : the default model
        star = [k for k in c.keywords if k.arg is None]
        key = f'penman.__main__:_get_model: {norm(c)[:60]}'
        if star:
            seen = True
            src = norm(expand(ctx, fi, star[0].value, c))
            rep.add(key, fi.loc(c), 'ok' if 'json.load' in src else 'undecided', src[:60])
        elif c.keywords:
            seen = True
            given = {k.arg for k in c.keywords}
            missing = [p for p in params if p not in given]
            rep.add(key, fi.loc(c), 'violation' if missing else 'ok',
                    f'only {sorted(given)} are taken from the model file; {missing} given in the file are silently ignored, so the tool runs with another '
                    f'model than the library does for the same file' if missing else '')
    if not seen:
        rep.undecided('penman.__main__:_get_model: the model file is loaded into Model(**...)', fi.loc())
    return rep


# ---------------------------------------------------------------------------------------------
@rule('R82', '--check records every offending triple under its own metadata key (the key counter moves between two triples)')
def r82(ctx: Ctx) -> RuleReport:
    rep = RuleReport('R82', r82.title, floor=1)
    fi = ctx.repo.func('penman.__main__', '_check')
    cfg = CFG(fi.node)
    pm = ctx.repo.parent_map(fi.node)
    stores = [nd for nd in cfg.nodes if nd.kind == 'stmt' and isinstance(nd.ast, ast.Assign) and isinstance(nd.ast.targets[0], ast.Subscript)
              and norm(nd.ast.targets[0].value).endswith('.metadata')]
    if not stores:
        sd = [n for n in walk_local(fi.node) if isinstance(n, ast.Call) and isinstance(n.func, ast.Attribute) and n.func.attr == 'setdefault'
              and norm(n.func.value).endswith('.metadata') and len(n.args) == 2]
        if sd:
            rep.violation(f'{fi.fq}: an error is recorded with g.metadata[<key>] = <text>', fi.loc(sd[0]),
                          f'`{norm(sd[0])[:60]}` writes the entry only if the key is not there yet: a graph that already carries "# ::error-1 ..." (the output of an earlier --check '
                          f'run fed back) keeps the old text, and the triple that offends now is not recorded although the exit status is 1')
            return rep
        rep.undecided(f'{fi.fq}: an error is recorded with g.metadata[<key>] = <text>', fi.loc(), 'no store into .metadata')
        return rep
    errs = [nm for nm, vals in ctx.cg.local_assigns(fi).items()
            if any(isinstance(v, ast.Call) and isinstance(v.func, ast.Attribute) and v.func.attr == 'errors' for v in vals if isinstance(v, ast.AST))]

    def enum_binds(for_node: ast.For, name: str) -> bool:
        it = for_node.iter
        return isinstance(it, ast.Call) and isinstance(it.func, ast.Name) and it.func.id == 'enumerate' and isinstance(for_node.target, ast.Tuple) \
            and for_node.target.elts and isinstance(for_node.target.elts[0], ast.Name) and for_node.target.elts[0].id == name

    for st in stores:
        keyx = st.ast.targets[0].slice
        names = sorted({x.id for x in ast.walk(keyx) if isinstance(x, ast.Name)})
        key = f'{fi.fq}: {norm(st.ast.targets[0])[:50]} is a fresh key for every offending triple'
        # the loop over the entries of the report that encloses the store
        outer = None
        cur = st.ast
        while id(cur) in pm:
            cur = pm[id(cur)]
            if isinstance(cur, ast.For) and any(isinstance(x, ast.Name) and x.id in errs for x in ast.walk(cur.iter)):
                outer = cur
        if outer is None:
            rep.undecided(key, fi.loc(st.ast), 'the store is not inside a loop over the entries of model.errors(g)')
            continue
        if not names:
            rep.violation(key, fi.loc(st.ast), f'the key {norm(keyx)} is the same for every triple: each entry overwrites the one before')
            continue
        # for key, message in _error_entries(errors): the key is made by a generator helper - is it made anew for every entry of the report there?
        if isinstance(keyx, ast.Name) and isinstance(outer.iter, ast.Call) and isinstance(outer.iter.func, ast.Name) and outer.iter.func.id in fi.module.functions \
                and isinstance(outer.target, ast.Tuple) and keyx.id in {norm(e) for e in outer.target.elts}:
            G = fi.module.functions[outer.iter.func.id]
            pos_ = [norm(e) for e in outer.target.elts].index(keyx.id)
            ys = [y for y in walk_local(G.node) if isinstance(y, ast.Yield) and isinstance(y.value, ast.Tuple) and len(y.value.elts) == len(outer.target.elts)]
            verdict = 'undecided'
            why = f'the key comes from {G.qualname}'
            if ys and all(isinstance(y.value.elts[pos_], ast.Name) for y in ys):
                kn = ys[0].value.elts[pos_].id
                pmg = ctx.repo.parent_map(G.node)
                kdefs = [d for d in walk_local(G.node) if isinstance(d, ast.Assign) and len(d.targets) == 1 and norm(d.targets[0]) == kn]
                if len(kdefs) == 1:
                    lp_ = pmg.get(id(kdefs[0]))
                    reads = {x.id for x in ast.walk(kdefs[0].value) if isinstance(x, ast.Name)}
                    if isinstance(lp_, ast.For) and isinstance(lp_.iter, ast.Call) and norm(lp_.iter.func) == 'enumerate' and isinstance(lp_.target, ast.Tuple) \
                            and isinstance(lp_.target.elts[0], ast.Name) and reads == {lp_.target.elts[0].id} and lp_.iter.args \
                            and any(isinstance(x, ast.Name) and x.id in G.params for x in ast.walk(lp_.iter.args[0])):
                        verdict, why = 'ok', f'{G.qualname}: `{norm(kdefs[0])}` once per entry of enumerate({norm(lp_.iter.args[0])[:30]})'
            rep.add(key, fi.loc(st.ast), verdict, why)
            continue
        # what is stored names the triple (through the context text built from it) and the message
        tvars = {x.id for x in ast.walk(outer.target) if isinstance(x, ast.Name)}
        derived = set(tvars)
        grew = True
        while grew:
            grew = False
            for n_ in ast.walk(outer):
                if isinstance(n_, ast.Assign) and isinstance(n_.targets[0], ast.Name) and n_.targets[0].id not in derived \
                        and any(isinstance(x, ast.Name) and x.id in derived for x in ast.walk(n_.value)):
                    derived.add(n_.targets[0].id)
                    grew = True
                if isinstance(n_, ast.For) and any(isinstance(x, ast.Name) and x.id in derived for x in ast.walk(n_.iter)):
                    for x in ast.walk(n_.target):
                        if isinstance(x, ast.Name) and x.id not in derived:
                            derived.add(x.id)
                            grew = True
        used = {x.id for x in ast.walk(st.ast.value) if isinstance(x, ast.Name)}
        flat = [x.id for x in ast.walk(outer.target) if isinstance(x, ast.Name) and x.id not in names]
        flat = [y for y in flat]
        # ast.walk is breadth-first: re-order by position in the source
        flat = [x.id for x in sorted((x for x in ast.walk(outer.target) if isinstance(x, ast.Name) and x.id not in names), key=lambda x: (x.lineno, x.col_offset))]
        first = flat[0] if flat else None
        from_triple = {first} if first else set()
        grew = True
        while grew:
            grew = False
            for n_ in ast.walk(outer):
                if isinstance(n_, ast.Assign) and isinstance(n_.targets[0], ast.Name) and n_.targets[0].id not in from_triple \
                        and any(isinstance(x, ast.Name) and x.id in from_triple for x in ast.walk(n_.value)):
                    from_triple.add(n_.targets[0].id)
                    grew = True
        k6 = f'{fi.fq}: the recorded text names the offending triple and the message'
        wrong_side = None
        if first:
            for n_ in ast.walk(outer):
                if isinstance(n_, ast.Assign) and isinstance(n_.targets[0], ast.Name) and n_.targets[0].id in from_triple \
                        and any(isinstance(x, ast.Name) and x.id == first for x in ast.walk(n_.value)):
                    fx_ = {(f.replace(' ', ''), pol) for f, pol in facts_ex(ctx, fi, n_)}
                    if (first, False) in fx_ or (f'{first}isNone', True) in fx_ or (f'{first}isnotNone', False) in fx_ or (f'not{first}', True) in fx_:
                        wrong_side = n_
        if wrong_side is not None:
            rep.violation(k6, fi.loc(wrong_side), f'`{norm(wrong_side)[:60]}` builds the text from `{first}` only on the branch where `{first}` is empty/None (the graph-level '
                          f'entries): for a real offending triple no text names it, and for a graph-level entry the formatting fails')
        elif first and not (used & from_triple):
            rep.violation(k6, fi.loc(st.ast), f'`{norm(st.ast.value)[:50]}` does not depend on `{first}`: the metadata says what is wrong but not for which triple (or the other way round)')
        elif first:
            rep.ok(k6, fi.loc(st.ast))
        ohead = cfg.node_of(outer)
        verdicts = []
        las_ = ctx.cg.local_assigns(fi)
        for cnt0 in names:
            # key = f'error-{i}': the name in the key is recomputed from a counter; follow the chain back to the counter itself
            chain = [cnt0]
            while True:
                vals_ = [v for v in las_.get(chain[0], []) if isinstance(v, ast.AST)]
                augs_ = [x for x in walk_local(fi.node) if isinstance(x, ast.AugAssign) and chain[0] in assigned_names(x)]
                if len(vals_) != 1 or augs_ or len(las_.get(chain[0], [])) != 1:
                    break
                srcs_ = sorted({x.id for x in ast.walk(vals_[0]) if isinstance(x, ast.Name) and x.id in las_ and x.id != chain[0]})
                if len(srcs_) != 1 or srcs_[0] in chain:
                    break
                chain.insert(0, srcs_[0])
            cnt, k_ = chain[0], len(chain) - 1
            if enum_binds(outer, cnt) and k_ == 0:
                verdicts.append(None)
                continue
            seen, stack, hit = set(), [(st.id, 0, False, [])], None
            first = True
            while stack:
                n, lvl, passed, path = stack.pop()
                if (n, lvl, passed) in seen and not first:
                    continue
                seen.add((n, lvl, passed))
                node = cfg.nodes[n]
                if n == ohead and path:
                    if lvl == 0:
                        hit = path
                        break
                    passed = True
                if n == st.id and not first:
                    if lvl < k_ + 1:
                        hit = path
                        break
                    continue
                first = False
                if node.kind == 'stmt' and n != st.id and isinstance(node.ast, ast.AugAssign) and cnt in assigned_names(node.ast) \
                        and isinstance(node.ast.op, (ast.Add, ast.Sub)) and not (try_fold(node.ast.value)[0] and try_fold(node.ast.value)[1] == 0):
                    lvl = max(lvl, 1)                          # the counter moves: a new key from here on
                elif node.kind == 'stmt' and n != st.id and isinstance(node.ast, ast.Assign) and cnt in assigned_names(node.ast) \
                        and any(isinstance(x, ast.Name) and x.id == cnt for x in ast.walk(node.ast.value)) and not isinstance(node.ast.value, ast.Name):
                    lvl = max(lvl, 1)                          # i = i + 1
                elif node.kind == 'stmt' and isinstance(node.ast, (ast.Assign, ast.AnnAssign)):
                    for j_ in range(1, k_ + 1):
                        if chain[j_] in assigned_names(node.ast) and lvl == j_:
                            lvl = j_ + 1                       # recomputed from the moved counter
                if lvl >= k_ + 1 and k_ == 0:
                    continue
                for m, lab in cfg.succ[n]:
                    if lab == 'exc' or m in (cfg.rexit,):
                        continue
                    l2 = lvl
                    if node.kind == 'for' and lab == 'T' and enum_binds(node.ast, cnt):
                        if k_ == 0:
                            continue                           # next element of enumerate(): the counter moved
                        l2 = max(l2, 1)
                    stack.append((m, l2, passed, path + [n]))
            verdicts.append(hit)
        if any(v is None for v in verdicts):
            rep.ok(key, fi.loc(st.ast), f'counter(s) {names}')
        else:
            hit = verdicts[0]
            rep.violation(key, fi.loc(st.ast), f'after the store the loop over the report can start its next entry without `{names[0]}` having moved '
                          f'({" -> ".join(repr(cfg.nodes[x]) for x in hit[-4:])[:160]}): two offending triples are written under the same key and the earlier one is lost')
    return rep


# ---------------------------------------------------------------------------------------------
@rule('R87', 'the option tables built once in main() (normalize_options, format_options and what is unpacked from them) are only read while the graphs are processed')
def r87(ctx: Ctx) -> RuleReport:
    from ..cfg import mutated_bases
    rep = RuleReport('R87', r87.title, floor=1)
    m = ctx.repo.module('penman.__main__')
    shared_params = {'normalize_options', 'format_options'}
    for fi in m.all_funcs:
        held = {p for p in fi.params if p in shared_params}
        if not held:
            continue
        # names derived from the tables: x = T[...], a, b = T[...], x = T.get(...), for k, v in T.items()
        derived: Dict[str, str] = {p: p for p in held}
        changed = True
        while changed:
            changed = False
            for n in walk_local(fi.node):
                tg = val = None
                if isinstance(n, ast.Assign) and len(n.targets) == 1:
                    tg, val = n.targets[0], n.value
                elif isinstance(n, (ast.For, ast.comprehension)):
                    tg, val = n.target, n.iter
                if tg is None:
                    continue
                root = val
                while isinstance(root, (ast.Subscript, ast.Attribute, ast.Call)):
                    root = root.func.value if isinstance(root, ast.Call) and isinstance(root.func, ast.Attribute) else (root.value if not isinstance(root, ast.Call) else None)
                    if root is None:
                        break
                if isinstance(root, ast.Name) and root.id in derived and not (isinstance(val, ast.Call) and isinstance(val.func, ast.Name) and val.func.id in ('dict', 'list', 'deepcopy', 'copy')):
                    if isinstance(val, ast.Call) and isinstance(val.func, ast.Attribute) and val.func.attr in ('copy',):
                        continue
                    for x in ast.walk(tg):
                        if isinstance(x, ast.Name) and x.id not in derived:
                            derived[x.id] = f'{derived[root.id]} -> {x.id}'
                            changed = True
        bad = []
        for st in walk_local(fi.node):
            if isinstance(st, ast.stmt) and not isinstance(st, (ast.If, ast.For, ast.While, ast.Try, ast.With, ast.FunctionDef)):
                for b in mutated_bases(st) & set(derived):
                    bad.append((st, b))
        key = f'{fi.fq}: {sorted(held)} and what is taken out of them are only read'
        if bad:
            st, b = bad[0]
            rep.violation(key, fi.loc(st), f'`{norm(st)[:70]}` changes `{b}` ({derived[b]}): the tables are built once per run and shared by every graph, so the first graph is processed '
                          f'with the option and the following ones without it (or with the changed value)')
        else:
            rep.ok(key, fi.loc(), f'names followed: {sorted(derived)}')
    return rep


# ---------------------------------------------------------------------------------------------
@rule('R102', 'the argument parser defines the documented options with the documented action, type, nargs, default and destination')
def r102(ctx: Ctx) -> RuleReport:
    from ..resolve import local_callees
    rep = RuleReport('R102', r102.title, floor=15)
    spec = json.loads((SPEC / 'cli.json').read_text())['arguments']
    main = ctx.repo.func('penman.__main__', 'main')
    calls = []
    for f in local_callees(ctx, main, depth=2):
        groups = {}
        for n in walk_local(f.node):
            if isinstance(n, ast.Assign) and isinstance(n.value, ast.Call) and isinstance(n.value.func, ast.Attribute) \
                    and n.value.func.attr in ('add_argument_group', 'add_mutually_exclusive_group') and isinstance(n.targets[0], ast.Name):
                groups[n.targets[0].id] = n.value.func.attr
        for n in argparse_calls(ctx, f):
            if isinstance(n, ast.Call) and isinstance(n.func, ast.Attribute) and n.func.attr == 'add_argument':
                flags = []
                for a in n.args:
                    okf, fv = try_fold(a, {}, ctx.repo, f.module)
                    if okf and isinstance(fv, str):
                        flags.append(fv)
                calls.append((f, n, flags, groups.get(norm(n.func.value)) == 'add_mutually_exclusive_group'))

    def val(f, e):
        okv, v = try_fold(e, {}, ctx.repo, f.module)
        return ('const', v) if okv else ('src', norm(e).replace(' ', ''))
    for arg in spec:
        main_flag = max(arg['flags'], key=len)
        key = f'penman.__main__: option {main_flag}'
        found = [(f, n, fl, ex) for f, n, fl, ex in calls if main_flag in fl]
        if not found:
            if _diagnostic_only(ctx, main, arg):
                dest = ast.literal_eval(arg['kwargs']['dest']) if 'dest' in arg['kwargs'] else main_flag.lstrip('-').replace('-', '_')
                dests = set()
                for f_, n_, fl_, _ in calls:
                    kd = [k.value for k in n_.keywords if k.arg == 'dest']
                    okd_, dv_ = try_fold(kd[0], {}, ctx.repo, f_.module) if kd else (False, None)
                    if okd_:
                        dests.add(dv_)
                    longf = [x for x in fl_ if x.startswith('--')] or fl_
                    if longf and not kd:
                        dests.add(longf[0].lstrip('-').replace('-', '_'))
                if arg['kwargs'].get('action') == "'version'" or dest in dests:
                    rep.add(key, main.loc(), 'info', f'the spelling {main_flag} is gone (diagnostic option: its value only sets the log level / prints the version, '
                                                     f'no property depends on it)')
                    continue
            rep.violation(key, main.loc(), f'the documented option {main_flag} is not defined by any add_argument call: the tool rejects a documented invocation')
            continue
        if len(found) > 1:
            rep.undecided(key, main.loc(found[1][1]), 'defined more than once')
            continue
        f, n, fl, ex = found[0]
        problems = []
        if set(arg['flags']) - set(fl):
            problems.append(f'the spelling(s) {sorted(set(arg["flags"]) - set(fl))} are gone')
        got = {k.arg: k.value for k in n.keywords if k.arg and k.arg not in ('help', 'metavar')}
        for k, wsrc in arg['kwargs'].items():
            if k == 'version':
                continue
            wnode = ast.parse(wsrc, mode='eval').body
            if k not in got:
                okw_, wv_ = try_fold(wnode)
                if okw_ and ((k == 'default' and wv_ is None) or (k == 'required' and wv_ is False) or (k == 'action' and wv_ == 'store') or (k == 'nargs' and wv_ is None)):
                    continue                    # argparse's own default
                problems.append(f'{k}={wsrc} is gone' + (' (the option now expects a value)' if k == 'action' and 'store_true' in wsrc else ''))
                continue
            gv, wv = val(f, got[k]), val(f, wnode)
            if gv != wv:
                if gv[0] == 'src' and wv[0] == 'src' and k == 'type':
                    # same factory applied to the same table?
                    def tab(e):
                        return [norm(a) for a in e.args] if isinstance(e, ast.Call) else None
                    if isinstance(got[k], ast.Call) and isinstance(wnode, ast.Call) and norm(got[k].func) == norm(wnode.func) and tab(got[k]) == tab(wnode):
                        continue
                problems.append(f'{k} is {norm(got[k])[:40]}, documented {wsrc}')
        for k in got:
            if k not in arg['kwargs'] and k in ('action', 'nargs', 'type', 'choices', 'const', 'required', 'dest'):
                okd, dv = try_fold(got[k], {}, ctx.repo, f.module)
                if k == 'dest' and okd and dv == main_flag.lstrip('-').replace('-', '_'):
                    continue
                if k == 'action' and okd and dv == 'store':
                    continue
                if k == 'required' and okd and dv is False:
                    continue
                problems.append(f'new {k}={norm(got[k])[:30]}')
        if bool(arg.get('exclusive')) != bool(ex):
            problems.append('it is ' + ('no longer' if arg.get('exclusive') else 'now') + ' in the mutually exclusive model group')
        if problems and _diagnostic_only(ctx, main, arg):
            # the properties quantify over normalisation, formatting, model and input options; an option whose value only reaches
            # the logger (or argparse's own version action) cannot change what is written to the output
            rep.add(key, f.loc(n), 'info', '; '.join(problems) + ' (diagnostic option: its value only sets the log level / prints the version, no property depends on it)')
        elif problems:
            rep.violation(key, f.loc(n), '; '.join(problems) + ': the command line accepts / interprets this option differently from what is documented')
        else:
            rep.ok(key, f.loc(n))
    return rep


def _diagnostic_only(ctx, main, arg) -> bool:
    kw = arg['kwargs']
    if kw.get('action') == "'version'":
        return True
    main_flag = max(arg['flags'], key=len)
    dest = ast.literal_eval(kw['dest']) if 'dest' in kw else main_flag.lstrip('-').replace('-', '_')
    pm = {}
    for p_ in ast.walk(main.node):
        for c in ast.iter_child_nodes(p_):
            pm[id(c)] = p_
    reads = [n for n in walk_local(main.node) if isinstance(n, ast.Attribute) and n.attr == dest and isinstance(n.ctx, ast.Load)]
    if not reads:
        return False
    for r in reads:
        st = r
        while not isinstance(st, ast.stmt):
            st = pm[id(st)]
        if isinstance(st, ast.Assign) and len(st.targets) == 1 and isinstance(st.targets[0], ast.Attribute) and st.targets[0].attr == dest:
            continue                                    # re-normalising the value itself
        if isinstance(st, ast.Expr) and isinstance(st.value, ast.Call) and isinstance(st.value.func, ast.Attribute) \
                and st.value.func.attr in ('setLevel', 'basicConfig'):
            continue
        return False
    return True


# ---------------------------------------------------------------------------------------------
@rule('R103', 'a comma-separated key list is split at commas, unknown names are rejected, model methods become sort functions and the other names keyword flags set to True')
def r103(ctx: Ctx) -> RuleReport:
    rep = RuleReport('R103', r103.title, floor=4)
    # (a) the argparse type function
    of = ctx.repo.func('penman.__main__', '_order_funcs')
    inner = [f for f in ctx.repo.all_functions() if f.parent is of]
    sa = inner[0] if inner else of
    if not inner:
        # return <Class>(key_funcs) with a __call__ method: that method is the type function
        for n in walk_local(of.node):
            if isinstance(n, ast.Return) and isinstance(n.value, ast.Call) and isinstance(n.value.func, ast.Name) and n.value.func.id in of.module.classes:
                cm = of.module.classes[n.value.func.id].find_method('__call__')
                if cm is not None:
                    sa = cm
    if not inner:
        # return functools.partial(<module-level function>, key_funcs=key_funcs): that function is the type function
        for n in walk_local(of.node):
            if isinstance(n, ast.Return) and isinstance(n.value, ast.Call) and norm(n.value.func) in ('functools.partial', 'partial') and n.value.args \
                    and isinstance(n.value.args[0], ast.Name) and n.value.args[0].id in of.module.functions:
                sa = of.module.functions[n.value.args[0].id]
    splits = [n for n in walk_local(sa.node) if isinstance(n, ast.Call) and isinstance(n.func, ast.Attribute) and n.func.attr in ('split', 'rsplit')]
    key = f'{sa.fq}: the argument is split at commas'
    if not splits:
        rep.undecided(key, sa.loc(), 'no .split(...)')
    for c in splits:
        oks, sep = try_fold(c.args[0]) if c.args else (True, None)
        rep.add(key, sa.loc(c), 'ok' if oks and sep == ',' else ('violation' if oks else 'undecided'),
                '' if oks and sep == ',' else f'split separator is {sep!r}: "canonical,attributes-first" is no longer two key names')
    raises = [n for n in walk_local(sa.node) if isinstance(n, ast.Raise)]
    key = f'{sa.fq}: a name that is not in the table is rejected'
    if not raises:
        rep.violation(key, sa.loc(), 'no raise is left: an unknown key name reaches the lookup in the key table and the tool stops with a KeyError traceback instead of a usage error')
    for r in raises:
        fx = {(f.replace(' ', ''), pol) for f, pol in facts_ex(ctx, sa, r)}
        good = any(('notin' in f and pol) or ('notin' not in f and 'in' in f and not pol) for f, pol in fx)
        bad = any(('notin' in f and not pol) or ('notin' not in f and f.count('in') and pol and 'key_funcs' in f) for f, pol in fx)
        rep.add(key, sa.loc(r), 'ok' if good else ('violation' if bad or not fx else 'undecided'),
                '' if good else 'the usage error is raised for the names that ARE in the table' if bad else 'the usage error does not depend on the table')
    rets = [n for n in walk_local(sa.node) if isinstance(n, ast.Return) and n.value is not None]
    for r in rets:
        t_ = {a_[0] for a_ in ctx.types.type_of(sa, r.value)}
        d_ = single_def(ctx, sa, r.value) if isinstance(r.value, ast.Name) else r.value
        is_set = 'set' in t_ or (isinstance(d_, ast.Call) and norm(d_.func) in ('set', 'frozenset')) or isinstance(d_, (ast.Set, ast.SetComp)) \
            or (isinstance(d_, ast.Call) and norm(d_.func) in ('list', 'tuple', 'sorted') and d_.args and isinstance(d_.args[0], ast.Call) and norm(d_.args[0].func) in ('set', 'frozenset')
                and norm(d_.func) != 'sorted')
        rep.add(f'{sa.fq}: the keys are returned in the order they were written (the first key has priority)', sa.loc(r), 'violation' if is_set else 'ok',
                f'`{norm(d_)[:50]}` goes through a set: which key has priority then depends on the hash seed, so the same command line orders branches differently from run to run' if is_set else '')
    if inner:
        rep.add(f'{of.fq}: returns the type function', of.loc(), 'ok' if any(isinstance(n, ast.Return) and n.value is not None and norm(n.value) == sa.name
                                                                               for n in walk_local(of.node)) else 'violation',
                'the factory does not return its inner function: argparse gets None as the type')
    # (b) _make_sort_key
    mk = ctx.repo.func('penman.__main__', '_make_sort_key')
    lookups = [n for n in walk_local(mk.node) if isinstance(n, ast.Assign) and isinstance(n.value, ast.Call) and norm(n.value.func) == 'getattr' and len(n.value.args) >= 2]
    # (func := getattr(model, name, None)) in a condition binds the same way
    for n in walk_local(mk.node):
        if isinstance(n, ast.NamedExpr) and isinstance(n.value, ast.Call) and norm(n.value.func) == 'getattr' and len(n.value.args) >= 2 and isinstance(n.target, ast.Name):
            lookups.append(ast.copy_location(ast.Assign(targets=[ast.Name(id=n.target.id, ctx=ast.Store())], value=n.value, lineno=n.lineno), n))
    if len(lookups) != 1 and _r103_pairs_form(ctx, rep, mk):
        return rep
    if len(lookups) != 1:
        rep.undecided(f'{mk.fq}: each name is looked up on the model with getattr(model, name, None)', mk.loc(), f'{len(lookups)} getattr calls')
        return rep
    lk = lookups[0]
    fv = lk.targets[0].id if isinstance(lk.targets[0], ast.Name) else None
    a0, a1 = norm(lk.value.args[0]), norm(lk.value.args[1])
    mparam = mk.positional[1] if len(mk.positional) > 1 else 'model'
    rep.add(f'{mk.fq}: the lookup is getattr(<model>, <method name>, None)', mk.loc(lk), 'ok' if a0 == mparam else ('violation' if a1 == mparam else 'undecided'),
            '' if a0 == mparam else f'getattr({a0}, {a1}, ...): the arguments are the wrong way round, nothing is ever found and every key becomes a keyword flag')
    for n in walk_local(mk.node):
        if isinstance(n, ast.Call) and isinstance(n.func, ast.Attribute) and n.func.attr == 'append' and n.args and norm(n.args[0]) == fv:
            fx = {(f.replace(' ', ''), pol) for f, pol in facts_ex(ctx, mk, n)}
            ok_ = (f'{fv}isNone', False) in fx or (f'{fv}isnotNone', True) in fx or (fv, True) in fx
            bad_ = (f'{fv}isNone', True) in fx or (f'{fv}isnotNone', False) in fx
            rep.add(f'{mk.fq}: a name that is a method of the model is used as a sort function', mk.loc(n), 'ok' if ok_ else ('violation' if bad_ or not fx else 'undecided'),
                    '' if ok_ else 'None is appended to the sort functions / the methods that were found are not: sorting fails with TypeError or ignores the key')
        if isinstance(n, ast.Assign) and isinstance(n.targets[0], ast.Subscript) and isinstance(n.value, ast.Constant):
            fx = {(f.replace(' ', ''), pol) for f, pol in facts_ex(ctx, mk, n)}
            ok_ = ((f'{fv}isNone', True) in fx or (f'{fv}isnotNone', False) in fx) and n.value.value is True
            rep.add(f'{mk.fq}: a name that is not a method becomes a keyword flag with the value True', mk.loc(n),
                    'ok' if ok_ else 'violation', '' if ok_ else (f'the flag is set to {n.value.value!r}' if n.value.value is not True else 'the flag is set for the names that ARE methods of the model'))
    appended = any(isinstance(n, ast.Call) and isinstance(n.func, ast.Attribute) and n.func.attr == 'append' and n.args and norm(n.args[0]) == fv for n in walk_local(mk.node))
    stored = any(isinstance(n, ast.Assign) and isinstance(n.targets[0], ast.Subscript) and isinstance(n.value, ast.Constant) for n in walk_local(mk.node))
    if not appended:
        rep.violation(f'{mk.fq}: a name that is a method of the model is used as a sort function', mk.loc(), 'the method that was looked up is never added to the sort functions: every key sorts nothing')
    if not stored:
        rep.violation(f'{mk.fq}: a name that is not a method becomes a keyword flag with the value True', mk.loc(), 'no flag is ever stored: attributes-first is silently ignored')
    rets = [n for n in walk_local(mk.node) if isinstance(n, ast.Return) and n.value is not None and isinstance(n.value, ast.Tuple) and len(n.value.elts) == 2]
    if rets:
        r = rets[0]
        first_is_func = any(f.parent is mk and f.name == norm(r.value.elts[0]) for f in ctx.repo.all_functions())
        e0_ = r.value.elts[0]
        if not first_is_func and isinstance(e0_, ast.Call) and norm(e0_.func) in ('partial', 'functools.partial') and e0_.args and isinstance(e0_.args[0], ast.Name) \
                and ctx.repo.maybe_func('penman.__main__', e0_.args[0].id) is not None:
            first_is_func = True            # functools.partial(<module-level key function>, <the functions>)
        rep.add(f'{mk.fq}: returns (sort function, keyword flags)', mk.loc(r), 'ok' if first_is_func else 'violation',
                '' if first_is_func else f'returns ({norm(r.value.elts[0])}, {norm(r.value.elts[1])}): the caller unpacks (key, kwargs), so the dict is used as the sort key and the function as **kwargs')
    return rep


def _r103_pairs_form(ctx: Ctx, rep: RuleReport, mk: FuncInfo) -> bool:
    """_make_sort_key written as: names = (key_funcs[k] for k in keys); pairs = [(name, getattr(model, name, None)) for name in names];
    kwargs = {name: True for name, f in pairs if f is None}; funcs = [f for _, f in pairs if f is not None].  True if recognised (instances added)."""
    las = ctx.cg.local_assigns(mk)
    mparam = mk.positional[1] if len(mk.positional) > 1 else 'model'
    pairs = None
    for nm, vals in las.items():
        v = vals[0] if len(vals) == 1 else None
        if isinstance(v, (ast.ListComp, ast.GeneratorExp)) and len(v.generators) == 1 and not v.generators[0].ifs and isinstance(v.elt, ast.Tuple) and len(v.elt.elts) == 2 \
                and isinstance(v.elt.elts[1], ast.Call) and norm(v.elt.elts[1].func) == 'getattr' and len(v.elt.elts[1].args) == 3 \
                and isinstance(v.generators[0].target, ast.Name) and norm(v.elt.elts[0]) == v.generators[0].target.id:
            pairs = (nm, v)
    if pairs is None:
        return False
    pn, pv = pairs
    g = pv.elt.elts[1]
    a0, a1, a2 = (norm(x) for x in g.args)
    tv = pv.generators[0].target.id
    good = a0 == mparam and a1 == tv and a2 == 'None'
    rep.add(f'{mk.fq}: the lookup is getattr(<model>, <method name>, None)', mk.loc(g), 'ok' if good else ('violation' if a1 == mparam else 'undecided'),
            '' if good else f'getattr({a0}, {a1}, {a2})')
    # the names come from the key table, in the order of the keys
    src = pv.generators[0].iter
    if isinstance(src, ast.Name) and len(las.get(src.id, [])) == 1 and isinstance(las[src.id][0], ast.AST):
        src = las[src.id][0]
    kparam, tparam = mk.positional[0], (mk.positional[2] if len(mk.positional) > 2 else 'key_funcs')
    names_ok = isinstance(src, (ast.GeneratorExp, ast.ListComp)) and len(src.generators) == 1 and not src.generators[0].ifs and norm(src.generators[0].iter) == kparam \
        and isinstance(src.elt, ast.Subscript) and norm(src.elt.value) == tparam and norm(src.elt.slice) == norm(src.generators[0].target)
    rep.add(f'{mk.fq}: every key is looked up in the key table, in the order given', mk.loc(pv), 'ok' if names_ok else 'undecided', norm(src)[:70])
    funcs = flags = None
    for nm, vals in las.items():
        v = vals[0] if len(vals) == 1 else None
        if isinstance(v, (ast.ListComp, ast.DictComp)) and len(v.generators) == 1 and norm(v.generators[0].iter) == pn and isinstance(v.generators[0].target, ast.Tuple) \
                and len(v.generators[0].target.elts) == 2 and len(v.generators[0].ifs) == 1:
            n0, f0 = (norm(x) for x in v.generators[0].target.elts)
            cond = norm(v.generators[0].ifs[0]).replace(' ', '')
            if isinstance(v, ast.ListComp) and norm(v.elt) == f0:
                funcs = (v, cond in (f'{f0}isnotNone',), cond in (f'{f0}isNone',))
            if isinstance(v, ast.DictComp) and norm(v.key) == n0:
                okv, vv = try_fold(v.value)
                flags = (v, cond in (f'{f0}isNone',) and okv and vv is True, cond in (f'{f0}isnotNone',) or (okv and vv is not True))
    if funcs is None or flags is None:
        rep.undecided(f'{mk.fq}: the pairs are split into sort functions and keyword flags', mk.loc(pv), 'no `[f for _, f in pairs if f is not None]` / `{n: True for n, f in pairs if f is None}`')
        return True
    rep.add(f'{mk.fq}: a name that is a method of the model is used as a sort function', mk.loc(funcs[0]), 'ok' if funcs[1] else ('violation' if funcs[2] else 'undecided'),
            '' if funcs[1] else 'the list keeps the entries for which NO method was found: None is called as a sort function')
    rep.add(f'{mk.fq}: a name that is not a method becomes a keyword flag with the value True', mk.loc(flags[0]), 'ok' if flags[1] else ('violation' if flags[2] else 'undecided'),
            '' if flags[1] else 'the flags are set for the names that ARE methods of the model, or not to True')
    rets = [n for n in walk_local(mk.node) if isinstance(n, ast.Return) and n.value is not None and isinstance(n.value, ast.Tuple) and len(n.value.elts) == 2]
    if rets:
        r = rets[0]
        e0 = r.value.elts[0]
        first_is_func = any(f.parent is mk and f.name == norm(e0) for f in ctx.repo.all_functions()) or \
            (isinstance(e0, ast.Call) and norm(e0.func) in ('partial', 'functools.partial') and len(e0.args) == 2 and isinstance(e0.args[1], ast.Name)
             and any(isinstance(v_, ast.AST) and v_ is funcs[0] for v_ in las.get(e0.args[1].id, [])))
        second_is_flags = isinstance(r.value.elts[1], ast.Name) and any(v_ is flags[0] for v_ in las.get(r.value.elts[1].id, []))
        rep.add(f'{mk.fq}: returns (sort function, keyword flags)', mk.loc(r), 'ok' if first_is_func and second_is_flags else 'undecided', norm(r.value)[:70])
    return True


# ---------------------------------------------------------------------------------------------
@rule('R105', 'the small decision functions of the tool choose as documented: model selection, --indent decoding, triples versus tree output, per-file status accumulation')
def r105(ctx: Ctx) -> RuleReport:
    rep = RuleReport('R105', r105.title, floor=8)
    M_ = 'penman.__main__'

    def fx_of(fi, n):
        return {(f.replace(' ', ''), pol) for f, pol in facts_ex(ctx, fi, n)}
    # ---- (a) _get_model
    gm = ctx.repo.func(M_, '_get_model')
    if len(gm.positional) >= 3:
        p_amr, p_noop, p_file = gm.positional[:3]
        rets = [n for n in walk_local(gm.node) if isinstance(n, ast.Return) and isinstance(n.value, ast.Name)]
        rv = rets[0].value.id if rets else None
        binds = []
        for n in walk_local(gm.node):
            if isinstance(n, ast.ImportFrom) and any((a.asname or a.name) == rv for a in n.names):
                binds.append((n, 'import:' + (n.module or '')))
            elif isinstance(n, ast.Assign) and isinstance(n.targets[0], ast.Name) and n.targets[0].id == rv:
                binds.append((n, 'expr:' + norm(n.value).replace(' ', '')))
            elif isinstance(n, ast.Return) and not isinstance(n.value, ast.Name) and n.value is not None:
                binds.append((n, 'expr:' + norm(n.value).replace(' ', '')))
        want = {'amr': lambda k: k == 'import:penman.models.amr', 'noop': lambda k: k == 'import:penman.models.noop',
                'file': lambda k: k.startswith('expr:Model(') and 'json.load' in k and p_file in k, 'default': lambda k: k == 'expr:Model()'}
        expected = {'amr': {p_amr: True}, 'noop': {p_amr: False, p_noop: True}, 'file': {p_amr: False, p_noop: False, p_file: True},
                    'default': {p_amr: False, p_noop: False, p_file: False}}
        # model = Model(**definition) with definition = json.load(file) if file else {}: two cases written as one statement
        binds2 = []
        for n, kind in binds:
            star = None
            if kind.startswith('expr:Model(**') and isinstance(getattr(n, 'value', None), ast.Call) and n.value.keywords and n.value.keywords[0].arg is None \
                    and isinstance(n.value.keywords[0].value, ast.Name):
                dv = [v for v in ctx.cg.local_assigns(gm).get(n.value.keywords[0].value.id, []) if isinstance(v, ast.AST)]
                if len(dv) == 1 and isinstance(dv[0], ast.IfExp) and norm(dv[0].test) == p_file and 'json.load' in norm(dv[0].body) and p_file in norm(dv[0].body) \
                        and isinstance(dv[0].orelse, ast.Dict) and not dv[0].orelse.keys:
                    star = dv[0]
            if star is not None:
                binds2.append((n, f'expr:Model(**json.load({p_file}))', {p_file: True}))
                binds2.append((n, 'expr:Model()', {p_file: False}))
            else:
                binds2.append((n, kind, {}))
        seen = set()
        for n, kind, extra in binds2:
            fx = fx_of(gm, n) | {(q_, v_) for q_, v_ in extra.items()}
            case = next((c_ for c_ in ('amr', 'noop', 'file', 'default') if want[c_](kind)), None)
            key = f'{gm.fq}: `{norm(n)[:50]}` is chosen in the documented case'
            if case is None:
                rep.undecided(key, gm.loc(n), f'not one of: import of the AMR / no-op model, Model(**json.load(file)), Model()')
                continue
            seen.add(case)
            contra = [(q, v) for q, v in expected[case].items() if (q, not v) in fx]
            missing_pos = [q for q, v in expected[case].items() if v and (q, True) not in fx]
            if contra:
                rep.violation(key, gm.loc(n), f'this is the model for the case "{case}", but it is bound where {contra[0][0]} is {not contra[0][1]}: an option selects the wrong model')
            elif missing_pos:
                rep.violation(key, gm.loc(n), f'this is the model for the case "{case}", but the binding does not depend on `{missing_pos[0]}` being given: it is also chosen without that option')
            else:
                # the negative facts may be established by return / elif structure; absent ones are reported only as undecided
                lacking = [q for q, v in expected[case].items() if not v and (q, False) not in fx]
                rep.add(key, gm.loc(n), 'ok' if not lacking else 'undecided', case if not lacking else f'precedence over {lacking} not visible on this path')
        main = ctx.repo.func(M_, 'main')
        for call, ts in ctx.cg.calls_in(main):
            if any(t.kind == 'func' and t.func is gm for t in ts) and len(call.args) >= 3:
                got = [norm(a).split('.')[-1] for a in call.args[:3]]
                okc = got[0] == 'amr' and got[1] == 'noop' and got[2] in ('model', 'model_file')
                rep.add(f'{main.fq}: `{norm(call)[:60]}` hands (amr, noop, model file) over in that order', main.loc(call), 'ok' if okc else ('violation' if sorted(got) == sorted(['amr', 'noop', got[2]]) and set(got[:2]) == {'amr', 'noop'} else 'undecided'),
                        '' if okc else f'the arguments are {got}: --amr selects the no-op model and --noop the AMR model')
    # ---- (b) _indent
    ind = ctx.repo.func(M_, '_indent')
    p = ind.positional[0]
    for n in walk_local(ind.node):
        is_none_result = isinstance(n, ast.Return) and isinstance(n.value, ast.Constant) and n.value.value is None
        if isinstance(n, ast.Assign) and isinstance(n.targets[0], ast.Name) and isinstance(n.value, ast.Constant) and n.value.value is None:
            # does this None reach a `return <name>` without passing a call that ends the run?
            c_ind = CFG(ind.node)
            exits_ = {nd.id for nd in c_ind.nodes if nd.kind == 'stmt' and nd.ast is not None and any(isinstance(x, ast.Call) and norm(x.func) in ('sys.exit', 'exit', 'parser.error') for x in ast.walk(nd.ast))}
            exits_ |= {nd.id for nd in c_ind.nodes if nd.kind == 'stmt' and isinstance(nd.ast, ast.Assign) and n.targets[0].id in assigned_names(nd.ast) and nd.ast is not n}
            rets_ = {nd.id for nd in c_ind.nodes if nd.kind == 'stmt' and isinstance(nd.ast, ast.Return) and nd.ast.value is not None and norm(nd.ast.value) == n.targets[0].id}
            vn = n.targets[0].id
            seen_, stack_, is_none_result = set(), [c_ind.node_of(n)], False
            first_ = True
            while stack_ and rets_:
                x_ = stack_.pop()
                if x_ in seen_ or (x_ in exits_ and not first_):
                    continue
                first_ = False
                seen_.add(x_)
                if x_ in rets_:
                    is_none_result = True
                    break
                nd_ = c_ind.nodes[x_]
                for m_, lab_ in c_ind.succ[x_]:
                    if lab_ == 'exc':
                        continue
                    # while the variable still holds None, `v is None` cannot be false and `v is not None` / `v` cannot be true
                    if nd_.kind == 'cond' and ((norm(nd_.ast) == f'{vn} is None' and lab_ == 'F') or (norm(nd_.ast) in (f'{vn} is not None', vn) and lab_ == 'T')):
                        continue
                    stack_.append(m_)
        if is_none_result:
            fx = fx_of(ind, n)
            words = [(f, pol) for f, pol in fx if '.lower()in(' in f or '.upper()in(' in f or '.casefold()in(' in f]
            key = f'{ind.fq}: the words no / none / false (any case) select "no indentation"'
            if not words:
                rep.violation(key, ind.loc(n), f'`{norm(n)}` does not depend on the test for the words no / none / false')
            else:
                f, pol = words[0]
                tup = f.split('in(', 1)[1].rstrip(')')
                consts = {w.strip("'\"") for w in tup.split(',') if w.strip("'\"")}
                lower = '.lower()' in f or '.casefold()' in f
                if not pol:
                    rep.violation(key, ind.loc(n), 'None is chosen when the value is NOT one of the words: every number is read as "no indentation" and "no" is handed to int()')
                elif consts != {'no', 'none', 'false'} and {c.lower() for c in consts} == {'no', 'none', 'false'} and lower:
                    rep.violation(key, ind.loc(n), f'the value is lower-cased but compared with {sorted(consts)}')
                elif (lower and consts == {'no', 'none', 'false'}) or (not lower and consts == {'NO', 'NONE', 'FALSE'}):
                    rep.ok(key, ind.loc(n))
                elif {c.lower() for c in consts} == {'no', 'none', 'false'}:
                    rep.violation(key, ind.loc(n), f'the case conversion and the spelling of the words do not fit ({f[:50]}): "no" is not recognised any more')
                else:
                    rep.undecided(key, ind.loc(n), f)
        if isinstance(n, ast.Assign) and isinstance(n.value, ast.Call) and isinstance(n.value.func, ast.Name) and n.value.func.id in ('int', 'float') and n.value.args and norm(n.value.args[0]) == p:
            rep.add(f'{ind.fq}: a number is read with int()', ind.loc(n), 'ok' if n.value.func.id == 'int' else 'violation',
                    '' if n.value.func.id == 'int' else 'float() yields 2.0 for "2": the indentation width is a float and string repetition in the formatter fails')
        if isinstance(n, ast.Raise):
            fx = fx_of(ind, n)
            low = [(f, pol) for f, pol in fx if '<-1' in f or '<=-2' in f or '>=-1' in f or '>-2' in f]
            key = f'{ind.fq}: exactly the integers below -1 are rejected'
            if not low:
                other = [(f, pol) for f, pol in fx if any(op in f for op in ('<', '>'))]
                rep.add(key, ind.loc(n), 'violation' if other or not fx else 'undecided', f'the rejection is under {sorted(fx)[:2]}: -1 (adaptive indentation) is rejected or -2 is accepted')
            else:
                f, pol = low[0]
                good = (('<-1' in f or '<=-2' in f) and pol) or (('>=-1' in f or '>-2' in f) and not pol)
                rep.add(key, ind.loc(n), 'ok' if good else 'violation', '' if good else f'the error is raised when `{f}` is {pol}: valid widths are rejected and invalid ones accepted')
        if isinstance(n, ast.Assign) and isinstance(n.targets[0], ast.Name) and try_fold(n.value) == (True, -1):
            fx = fx_of(ind, n)
            good = (p, False) in fx or (f'{p}isNone', True) in fx
            rep.add(f'{ind.fq}: without --indent the adaptive indentation (-1) is used', ind.loc(n), 'ok' if good else 'violation',
                    '' if good else f'-1 is chosen under {sorted(fx)[:2]}: a given --indent value is ignored')
    pmi = ctx.repo.parent_map(ind.node)
    for n in walk_local(ind.node):
        if isinstance(n, ast.Expr) and isinstance(n.value, ast.Call) and norm(n.value.func) in ('sys.exit', 'parser.error', 'exit'):
            par = pmi.get(id(n))
            if isinstance(par, ast.If) and n in par.body:
                ops_ = par.test.values if isinstance(par.test, ast.BoolOp) and isinstance(par.test.op, ast.Or) else [par.test]
                for o_ in ops_:
                    src_ = norm(o_).replace(' ', '')
                    truthy = isinstance(o_, ast.UnaryOp) and isinstance(o_.op, ast.Not) and isinstance(o_.operand, ast.Name)
                    zero = isinstance(o_, ast.Compare) and len(o_.ops) == 1 and isinstance(o_.ops[0], (ast.Eq, ast.LtE, ast.Lt)) and try_fold(o_.comparators[0])[0] \
                        and isinstance(try_fold(o_.comparators[0])[1], int) and try_fold(o_.comparators[0])[1] >= (0 if isinstance(o_.ops[0], (ast.Eq, ast.LtE)) else 0) \
                        and not src_.endswith('<-1')
                    if truthy or zero:
                        rep.violation(f'{ind.fq}: exactly the integers below -1 are rejected [usage error]', ind.loc(par),
                                      f'the usage error is also raised when `{norm(o_)}` holds: that is true for the width 0 (one branch per line, no indentation), a documented value, '
                                      f'so `--indent 0` stops with an error although the library accepts indent=0')
    exits = [n for n in walk_local(ind.node) if isinstance(n, ast.Call) and norm(n.func) in ('sys.exit', 'parser.error', 'exit')]
    hands = [n for n in walk_local(ind.node) if isinstance(n, ast.ExceptHandler)]
    if hands and not exits and not any(isinstance(x, ast.Raise) for h in hands for x in ast.walk(h)):
        rep.violation(f'{ind.fq}: an invalid value ends the run with a usage error', ind.loc(hands[0]), 'the handler for an invalid value does nothing: "--indent x" is passed on to the formatter as the string "x"')
    # ---- (c) process: triples or tree
    pr = ctx.repo.func(M_, 'process')
    tparam = pr.positional[-1] if pr.positional else 'triples'
    for call, ts in ctx.cg.calls_in(pr):
        nm = norm(call.func).split('.')[-1]
        if nm in ('format_triples', 'format'):
            fx = fx_of(pr, call)
            want_pol = nm == 'format_triples'
            key = f'{pr.fq}: {nm} is used exactly when --triples is {"given" if want_pol else "absent"}'
            if (tparam, want_pol) in fx:
                rep.ok(key, pr.loc(call))
            elif (tparam, not want_pol) in fx:
                rep.violation(key, pr.loc(call), f'{nm} runs when `{tparam}` is {not want_pol}: --triples prints trees and the default prints triple conjunctions')
            else:
                rep.violation(key, pr.loc(call), f'{nm} does not depend on `{tparam}`: the --triples option is ignored')
        if nm == '_process_out':
            par = ctx.repo.parent_map(pr.node).get(id(call))
            if not isinstance(par, (ast.Assign, ast.AnnAssign)):
                rep.violation(f'{pr.fq}: the tree that is formatted is the result of _process_out', pr.loc(call), 'the result of _process_out is dropped: the unprocessed input tree is formatted')
    from ..resolve import local_callees as _lc2
    if not any(norm(c.func).split('.')[-1] == '_process_out' for f_ in _lc2(ctx, pr, depth=2) for c, _ in ctx.cg.calls_in(f_)):
        rep.violation(f'{pr.fq}: the tree that is formatted is the result of _process_out', pr.loc(), 'process no longer calls _process_out: the input tree is printed as it was parsed, every normalisation option is ignored')
    # ---- (d) main: every call of process feeds the exit status, in both arms
    main = ctx.repo.func(M_, 'main')
    pmm = ctx.repo.parent_map(main.node)
    pcalls = [c for c, ts in ctx.cg.calls_in(main) if any(t.kind == 'func' and t.func is pr for t in ts)]
    # a wrapper that only returns process(<its argument>, ...) stands for process at its call sites
    wrappers = []
    for f_ in ctx.repo.all_functions():
        if f_.module.name != M_ or f_ is pr or f_ is main:
            continue
        body_ = [x for x in f_.node.body if not (isinstance(x, ast.Expr) and isinstance(x.value, ast.Constant))]
        if len(body_) == 1 and isinstance(body_[0], ast.Return) and isinstance(body_[0].value, ast.Call) and f_.positional \
                and any(t.kind == 'func' and t.func is pr for t in ctx.cg.resolve_call(body_[0].value, f_)) \
                and body_[0].value.args and norm(body_[0].value.args[0]) == f_.positional[0]:
            wrappers.append(f_)
    if wrappers:
        pcalls = [c for c in pcalls if not any(any(x is c for x in ast.walk(w.node)) for w in wrappers)]
        pcalls += [c for c, ts in ctx.cg.calls_in(main) if any(t.kind == 'func' and t.func in wrappers for t in ts)]
    exit_args = [c.args[0] for c in walk_local(main.node) if isinstance(c, ast.Call) and norm(c.func) == 'sys.exit' and c.args and isinstance(c.args[0], ast.Name)]
    sv = exit_args[0].id if exit_args else None
    for c in pcalls:
        par = pmm.get(id(c))
        okp = isinstance(par, (ast.Assign, ast.AugAssign)) and sv in {x.id for x in ast.walk(par.targets[0] if isinstance(par, ast.Assign) else par.target) if isinstance(x, ast.Name)}
        in_loop = any(isinstance(a_, (ast.For, ast.While)) for a_ in _ancestors_of(pmm, c))
        key = f'{main.fq}: the status of `process(...)` at line {c.lineno} reaches the exit status'
        direct = isinstance(par, ast.Call) and norm(par.func) in ('sys.exit', 'exit', 'SystemExit') and par.args and par.args[0] is c
        if direct and not in_loop:
            rep.ok(key, main.loc(c), f'handed to {norm(par.func)} directly')
        elif not okp:
            rep.violation(key, main.loc(c), 'the result of process is not stored in the status variable: --check finds errors but the tool exits 0')
        elif in_loop and isinstance(par, ast.Assign):
            rep.violation(key, main.loc(c), f'inside the loop over the files the status is assigned, not accumulated: only the last file decides the exit status')
        else:
            rep.ok(key, main.loc(c))
    if sv and len(pcalls) < 2:
        elsewhere = [c for f_ in _lc2(ctx, main, depth=2) if f_ is not main for c, ts in ctx.cg.calls_in(f_) if any(t.kind == 'func' and t.func is pr for t in ts)]
        if len(pcalls) + len(elsewhere) < 2:
            rep.undecided(f'{main.fq}: files and standard input are both processed', main.loc(), f'{len(pcalls) + len(elsewhere)} call(s) of process reachable from main')
    return rep


def _ancestors_of(pm, n):
    out = []
    while id(n) in pm:
        n = pm[id(n)]
        out.append(n)
    return out


# ---------------------------------------------------------------------------------------------
@rule('R115', 'the model check runs before anything is derived from the graph for output: what _check writes into the metadata is part of what is printed')
def r115(ctx: Ctx) -> RuleReport:
    rep = RuleReport('R115', r115.title, floor=1)
    from ..resolve import local_callees
    pr = ctx.repo.func('penman.__main__', 'process')
    fi, checks = pr, []
    for f in local_callees(ctx, pr, depth=2):
        cs = [c for c, ts in ctx.cg.calls_in(f) if any(t.kind == 'func' and t.func.qualname == '_check' for t in ts)]
        if cs and f.qualname != '_check':
            fi, checks = f, cs
            break
    cfg = CFG(fi.node)
    pm = ctx.repo.parent_map(fi.node)
    if not checks:
        rep.undecided(f'{pr.fq}: _check is called', pr.loc(), 'no call of _check in process or the functions it calls')
        return rep
    for ck in checks:
        if not ck.args or not isinstance(ck.args[0], ast.Name):
            rep.undecided(f'{fi.fq}: `{norm(ck)[:40]}` checks a graph held in a local', fi.loc(ck))
            continue
        g = ck.args[0].id
        cn = owner_node(cfg, pm, ck)
        loop = next((a for a in _ancestors_of(pm, ck) if isinstance(a, (ast.For, ast.While))), None)
        stop = {cfg.node_of(loop)} if loop is not None else set()
        key = f'{fi.fq}: nothing is derived from `{g}` for output before `{norm(ck)[:40]}`'
        bad = None
        for c, ts in ctx.cg.calls_in(fi):
            if c is ck:
                continue
            uses_g = any(isinstance(a, ast.Name) and a.id == g for a in list(c.args) + [k.value for k in c.keywords]) or \
                (isinstance(c.func, ast.Attribute) and isinstance(c.func.value, ast.Name) and c.func.value.id == g)
            # attribute reads such as g.triples passed to a formatter are evaluated at the call, after the check or before it alike
            if not uses_g and any(isinstance(a, ast.Attribute) and isinstance(a.value, ast.Name) and a.value.id == g for a in c.args):
                uses_g = True
            if not uses_g:
                continue
            if isinstance(pm.get(id(c)), ast.Expr):
                continue                        # result discarded (logging and the like): nothing is derived for output
            # the producer of g itself (g = f(...)) does not take g
            kn = owner_node(cfg, pm, c)
            if kn == cn:
                continue
            path = cfg.path_avoiding([(kn, None)], {cn}, lambda nd: nd.id in stop)
            if path:
                bad = (c, path)
                break
        if bad:
            c, path = bad
            rep.violation(key, fi.loc(c), f'`{norm(c)[:60]}` runs before the check in the same iteration: the object it returns is built from the graph as it was '
                          f'before _check stored its error-N entries (a Tree keeps the metadata mapping it is given only if that is non-empty, reconfigure '
                          f'copies it), so for a graph without metadata of its own the offending triples are missing from the output while the exit status is 1')
        else:
            rep.ok(key, fi.loc(ck), 'every other use of the graph in the iteration comes after the check')
    return rep


# ---------------------------------------------------------------------------------------------
@rule('R121', 'the documented sort-key names select the documented ordering: each name maps to the model method or the layout flag of the specification')
def r121(ctx: Ctx) -> RuleReport:
    from ..resolve import fold_in
    rep = RuleReport('R121', r121.title, floor=2)
    spec = json.loads((SPEC / 'cli.json').read_text()).get('key_tables')
    if not spec:
        raise AnalysisError('R121: spec/cli.json has no key_tables')
    main = ctx.repo.func('penman.__main__', 'main')
    model_cls = ctx.repo.cls('penman.model', 'Model')
    consumers = {'rearrange': ctx.repo.func('penman.layout', 'rearrange'), 'reconfigure': ctx.repo.func('penman.layout', 'reconfigure')}
    found = {}
    site_calls = [(call, call) for call, ts in ctx.cg.calls_in(main) if any(t.kind == 'func' and t.func.qualname == '_make_sort_key' for t in ts) and len(call.args) >= 3]
    # a local helper of main that forwards to _make_sort_key: def make_key(keys, key_funcs=TABLE): return _make_sort_key(keys, model, key_funcs)
    import copy as _copy
    for h in [f for f in ctx.repo.all_functions() if f.parent is main]:
        inner = [c for c, ts in ctx.cg.calls_in(h) if any(t.kind == 'func' and t.func.qualname == '_make_sort_key' for t in ts) and len(c.args) >= 3]
        if len(inner) != 1:
            continue
        a_ = h.node.args
        hp = [x.arg for x in a_.posonlyargs + a_.args]
        dflt = dict(zip(hp[::-1], a_.defaults[::-1]))
        for call, ts in ctx.cg.calls_in(main):
            if isinstance(call.func, ast.Name) and call.func.id == h.name:
                env = dict(dflt)
                env.update(dict(zip(hp, call.args)))
                env.update({k.arg: k.value for k in call.keywords if k.arg})

                class S_(ast.NodeTransformer):
                    def visit_Name(self, nd):
                        return _copy.deepcopy(env[nd.id]) if nd.id in env and isinstance(nd.ctx, ast.Load) else nd
                eff = S_().visit(_copy.deepcopy(inner[0]))
                ast.copy_location(eff, call)
                ast.fix_missing_locations(eff)
                site_calls.append((eff, call))
    for call, at_ in site_calls:
        if True:
            src = norm(call.args[0])
            which = 'REARRANGE_KEYS' if 'rearrange' in src else ('RECONFIGURE_KEYS' if 'reconfigure' in src else None)
            if which is None:
                rep.undecided(f'penman.__main__:main: `{norm(call)[:50]}`', main.loc(call), 'the option this key list belongs to is not recognised')
                continue
            okf, tab = fold_in(ctx, main, call.args[2])
            if not okf or not isinstance(tab, dict):
                rep.undecided(f'penman.__main__:main: key table of --{which.split("_")[0].lower()}', main.loc(call), f'`{norm(call.args[2])}` does not fold to a dict')
                continue
            found[which] = (call, tab)
    for which, want in sorted(spec.items()):
        opt = which.split('_')[0].lower()
        key = f'penman.__main__: key names of --{opt}'
        if which not in found:
            if not any(i.key.startswith('penman.__main__:main:') for i in rep.instances):
                rep.undecided(key, main.loc(), 'no _make_sort_key call for this option')
            continue
        call, tab = found[which]
        problems = []
        for k in want:
            if k not in tab:
                problems.append(f'the documented key {k!r} is gone')
            elif tab[k] != want[k]:
                problems.append(f'{k!r} selects {tab[k]!r}, documented {want[k]!r}')
        for k in tab:
            if k not in want:
                v = tab[k]
                known = model_cls.find_method(v) is not None or v in consumers[opt].params
                if not known:
                    problems.append(f'new key {k!r} names {v!r}, which is neither a method of Model nor a parameter of layout.{opt}')
        # each value must exist: a Model method, or a keyword of the layout function that receives **kwargs
        for k, v in tab.items():
            if k in want and tab[k] == want[k] and model_cls.find_method(v) is None and v not in consumers[opt].params:
                problems.append(f'{k!r} names {v!r}, which is neither a method of Model nor a parameter of layout.{opt}')
        if problems:
            rep.violation(key, main.loc(call), '; '.join(problems) + f': `--{opt} <key>` is rejected or orders the output differently from what is documented')
        else:
            rep.ok(key, main.loc(call), f'{sorted(tab)}')
    return rep


# ---------------------------------------------------------------------------------------------
@rule('R122', 'every value the tool takes out of its option tables is used: no option the user chose is read and then dropped')
def r122(ctx: Ctx) -> RuleReport:
    from ..cfg import reaching_defs
    rep = RuleReport('R122', r122.title, floor=3)
    m = ctx.repo.module('penman.__main__')
    srcs = ('normalize_options', 'format_options', 'args')
    for fi in m.all_funcs:
        cfg = CFG(fi.node)
        rd = reaching_defs(cfg, fi.params)
        # nodes that read each name
        readers: Dict[str, List[int]] = {}
        for nd in cfg.nodes:
            if nd.ast is None:
                continue
            exprs = [nd.ast]
            if nd.kind == 'for':
                exprs = [nd.ast.iter]
            elif nd.kind == 'stmt' and isinstance(nd.ast, (ast.If, ast.While, ast.For, ast.With, ast.Try)):
                exprs = []
            for e in exprs:
                for x in ast.walk(e):
                    if isinstance(x, ast.Name) and isinstance(x.ctx, ast.Load):
                        readers.setdefault(x.id, []).append(nd.id)
        nested_reads = {x.id for f2 in m.all_funcs if f2.parent is fi for x in ast.walk(f2.node) if isinstance(x, ast.Name) and isinstance(x.ctx, ast.Load)}
        for nd in cfg.nodes:
            if nd.kind != 'stmt' or not isinstance(nd.ast, ast.Assign):
                continue
            v = nd.ast.value
            root_names = {x.id for x in ast.walk(v) if isinstance(x, ast.Name)}
            if not (root_names & set(srcs)):
                continue
            if not any(isinstance(x, (ast.Subscript, ast.Attribute)) or (isinstance(x, ast.Call) and isinstance(x.func, ast.Attribute) and x.func.attr == 'get')
                       for x in ast.walk(v)):
                continue
            bound = [x.id for t in nd.ast.targets for x in ast.walk(t) if isinstance(x, ast.Name) and isinstance(x.ctx, ast.Store)]
            for nm in bound:
                if nm.startswith('_'):
                    continue
                key = f'{fi.fq}: `{nm}` from `{norm(v)[:40]}` is used'
                used = nm in nested_reads or any(nd.id in rd.get(u, {}).get(nm, frozenset()) for u in readers.get(nm, []))
                if used:
                    rep.ok(key, fi.loc(nd.ast))
                else:
                    rep.violation(key, fi.loc(nd.ast), f'`{nm}` is taken out of the options here and never read before it is re-bound or the function ends: the call that should '
                                  f'receive it runs with its default instead, so the option has no effect on the output')
    return rep
