"""Graph-API rules: R21 (partition truth table), R22 (top setter guard), R39 (order kept),
R13 (no hash order in results), R15 (POP tested by type), R23top (implicit top)."""
from __future__ import annotations

import ast
from typing import Dict, List, Optional, Set, Tuple

from .. import boolnorm as bn
from ..cfg import CFG, cond_facts, facts_at
from ..core import Ctx, RuleReport, rule
from ..src import AnalysisError, FuncInfo, norm, try_fold, walk_local
from ..tyeng import has
from .lexical import single_def

G = 'penman.graph'


def _returned_comp(ctx: Ctx, fi: FuncInfo) -> ast.AST:
    rets = [n for n in walk_local(fi.node) if isinstance(n, ast.Return) and n.value is not None]
    if len(rets) != 1:
        raise AnalysisError(f'{fi.fq}: expected a single return')
    return single_def(ctx, fi, rets[0].value)


def _nonnull(ctx: Ctx, module):
    def f(e: ast.AST) -> bool:
        if isinstance(e, ast.Name):
            r = ctx.repo.resolve_name(module, e.id)
            if r[0] == 'const':
                ok, v = try_fold(r[1].constants[r[2]], {}, ctx.repo, r[1])
                return ok and v is not None
        return False
    return f


def _feasible_partition_witness(preds):
    fs = [preds['instances'], preds['edges'], preds['attributes']]
    for env in bn.assignments(fs):
        if env.get('t[2] is None') and env.get('t[2] in self.variables()'):
            continue                                    # None is never a variable
        vals = [bn.evaluate(f, env) for f in fs]
        if sum(vals) != 1:
            return env, vals
    return None


@rule('R21', 'instances / edges / attributes partition the triples; edges are the non-instance triples whose target is a variable')
def r21(ctx: Ctx) -> RuleReport:
    from ..select import Selector
    rep = RuleReport('R21', r21.title, floor=6)
    repo = ctx.repo
    ft = repo.func(G, 'Graph._filter_triples')
    sel = Selector(ctx, nonnull=_nonnull(ctx, ft.module))
    preds: Dict[str, object] = {}
    for name in ('instances', 'edges', 'attributes'):
        fi = repo.func(G, f'Graph.{name}')
        # the partition is about the unfiltered queries: every filter parameter is None
        subst = {p: bn.Abstractor.NONE for p in fi.positional[1:]}
        try:
            alts = sel.of_function(fi, subst)
        except AnalysisError as exc:
            rep.undecided(f'{fi.fq}: selection summary', fi.loc(), str(exc))
            return rep
        srcs = {a[2] for a in alts}
        rep.add(f'{fi.fq}: ranges over self.triples', fi.loc(), 'ok' if srcs == {'self.triples'} else 'undecided', f'iterates {sorted(srcs)}')
        kinds = [k for a in alts for k in a[3]]
        elt_ok = all(k in ('same', 'wrapped') for k in kinds) and sum(k == 'wrapped' for a in alts[:1] for k in a[3]) <= 1
        rep.add(f'{fi.fq}: element is the triple itself', fi.loc(), 'ok' if elt_ok else 'undecided', f'element kinds {kinds}')
        preds[name] = bn.mk_or([bn.mk_and([c, p]) for c, p, _, _ in alts])
        rep.info(f'{fi.fq}: predicate', fi.loc(), bn.show(preds[name]))
    bad = bn.partition_check([preds['instances'], preds['edges'], preds['attributes']])
    where = repo.func(G, 'Graph.edges').loc()
    if bad is None:
        rep.ok('Graph: instances/edges/attributes are pairwise disjoint and jointly exhaustive', where,
               ' ; '.join(f'{k}={bn.show(v)}' for k, v in preds.items()))
    elif all(set(bn.atoms_of(v)) <= {'CONCEPT_ROLE == t[1]', 't[2] in self.variables()', 't[2] is None'} for v in preds.values()) and \
            _feasible_partition_witness(preds) is not None:
        # a third condition that is understood: the target is None (never a variable; possible for an instance triple - a node without concept - and for a relation)
        env, vals = _feasible_partition_witness(preds)
        names = [n for n, v in zip(('instances', 'edges', 'attributes'), vals) if v]
        rep.violation('Graph: instances/edges/attributes are pairwise disjoint and jointly exhaustive', where,
                      f'a triple with {env} is returned by {names or "none of the three queries"} (a target that is None is not a variable, but it can be the target of an '
                      f'instance triple: the node "(a)" has (a :instance None)); predicates: ' + ' ; '.join(f'{k}={bn.show(v)}' for k, v in preds.items()))
    elif not all(set(bn.atoms_of(v)) <= {'CONCEPT_ROLE == t[1]', 't[2] in self.variables()'} for v in preds.values()):
        rep.undecided('Graph: instances/edges/attributes are pairwise disjoint and jointly exhaustive', where,
                      'a selection predicate contains a condition that is not understood: ' + ' ; '.join(f'{k}={bn.show(v)[:80]}' for k, v in preds.items()))
    else:
        env, vals = bad
        names = [n for n, v in zip(('instances', 'edges', 'attributes'), vals) if v]
        rep.violation('Graph: instances/edges/attributes are pairwise disjoint and jointly exhaustive', where,
                      f'a triple with {env} is returned by {names or "none of the three queries"}; predicates: '
                      + ' ; '.join(f'{k}={bn.show(v)}' for k, v in preds.items()))
    concept = _concept_atom(preds['instances'])
    if concept is None:
        rep.undecided('Graph.instances selects exactly the concept-role triples', repo.func(G, 'Graph.instances').loc(),
                      f'predicate is {bn.show(preds["instances"])}')
    else:
        rep.ok('Graph.instances selects exactly the concept-role triples', repo.func(G, 'Graph.instances').loc(), bn.show(preds['instances']))
        want_edges = bn.mk_and([bn.mk_not(concept), ('atom', 't[2] in self.variables()')])
        d = bn.equivalent(preds['edges'], want_edges)
        known = set(bn.atoms_of(preds['edges'])) <= set(bn.atoms_of(want_edges))
        rep.add('Graph.edges = non-instance triples whose target is in self.variables()', where,
                'ok' if d is None else ('violation' if known else 'undecided'),
                '' if d is None else f'edges predicate is {bn.show(preds["edges"])}; differs for {d}')
    # filters: parameter i is compared with slot i (all parameters symbolic)
    fpos = ft.positional[1:]
    try:
        alts = sel.of_function(ft, {})
    except AnalysisError as exc:
        rep.undecided(f'{ft.fq}: selection summary', ft.loc(), str(exc))
        return rep
    total = bn.mk_or([bn.mk_and([c, p]) for c, p, _, _ in alts])
    want = bn.mk_and([bn.mk_or([('atom', f'{p} is None'), ('atom', ' == '.join(sorted([p, f't[{i}]'])))]) for i, p in enumerate(fpos)])
    known = set(bn.atoms_of(total)) <= set(bn.atoms_of(want))
    d = bn.equivalent(total, want)
    rep.add(f'{ft.fq}: a triple is selected iff every given component equals the corresponding slot', ft.loc(),
            'ok' if d is None else ('violation' if known else 'undecided'),
            bn.show(total)[:160] if d is None else f'selects when {bn.show(total)[:200]}; differs from the documented filter for {d}')
    srcs = {a[2] for a in alts}
    rep.add(f'{ft.fq}: ranges over self.triples', ft.loc(), 'ok' if srcs == {'self.triples'} else 'undecided', f'iterates {sorted(srcs)}')
    # with filters given: edges/attributes = the filter AND the unfiltered predicate, for every combination of arguments
    for name in ('edges', 'attributes'):
        fi = repo.func(G, f'Graph.{name}')
        try:
            alts2 = sel.of_function(fi, {})
        except AnalysisError:
            continue
        got = bn.mk_or([bn.mk_and([c, p]) for c, p, _, _ in alts2])
        pp = fi.positional[1:4]
        filt = bn.mk_and([bn.mk_or([('atom', f'{p} is None'), ('atom', ' == '.join(sorted([p, f't[{i}]'])))]) for i, p in enumerate(pp)])
        wantf = bn.mk_and([filt, preds[name]])
        if set(bn.atoms_of(got)) <= set(bn.atoms_of(wantf)):
            d = bn.equivalent(got, wantf)
            rep.add(f'{fi.fq}: with filters, the result is the filtered part of the unfiltered result', fi.loc(), 'ok' if d is None else 'violation',
                    '' if d is None else f'{name}(source, role, target) selects a triple when {bn.show(got)[:220]}; for {d} this differs from '
                                         f'"matches the filters and is in {name}()": a filtered query returns a triple the unfiltered one does not (or misses one)')
        else:
            rep.info(f'{fi.fq}: with filters', fi.loc(), 'predicate not in the known vocabulary: ' + bn.show(got)[:160])
    # public methods pass their parameters in position
    for name in ('edges', 'attributes'):
        fi = repo.func(G, f'Graph.{name}')
        calls = [c for c in walk_local(fi.node) if isinstance(c, ast.Call) and isinstance(c.func, ast.Attribute) and c.func.attr == '_filter_triples']
        if not calls:
            # through a helper method that takes the same three filters and hands them to _filter_triples
            for c in [x for x in walk_local(fi.node) if isinstance(x, ast.Call) and isinstance(x.func, ast.Attribute) and norm(x.func.value) == 'self']:
                hs = [t.func for t in ctx.cg.resolve_call(c, fi) if t.kind == 'func' and t.func.cls is not None and t.func.cls.fq == fi.cls.fq]
                if len(hs) == 1 and hs[0].positional[1:4] == fi.positional[1:4]:
                    inner = [y for y in walk_local(hs[0].node) if isinstance(y, ast.Call) and isinstance(y.func, ast.Attribute) and y.func.attr == '_filter_triples']
                    if inner and all([norm(a) for a in y.args] == hs[0].positional[1:4] and not y.keywords for y in inner):
                        calls.append(c)
        for c in calls:
            got = [norm(a) for a in c.args] + [f'{k.arg}={norm(k.value)}' for k in c.keywords]
            want_args = fi.positional[1:4]
            kw_ok = all(k.arg == norm(k.value) for k in c.keywords) and [norm(a) for a in c.args] == want_args[:len(c.args)] \
                and len(c.args) + len(c.keywords) == 3
            swapped = sorted(norm(a) for a in c.args) == sorted(want_args) and [norm(a) for a in c.args] != want_args
            rep.add(f'{fi.fq}: passes (source, role, target) through in order', fi.loc(c),
                    'ok' if kw_ok else ('violation' if swapped else 'undecided'),
                    '' if kw_ok else f'passes {got}' + (': the filters are applied to the wrong components' if swapped else ''))
        if not calls:
            rep.undecided(f'{fi.fq}: passes (source, role, target) through', fi.loc(), 'no _filter_triples call')
    return rep


def _concept_atom(f):
    if isinstance(f, tuple) and f[0] == 'atom' and 'CONCEPT_ROLE' in f[1] and 't[1]' in f[1] and '==' in f[1]:
        return f
    return None


# ---------------------------------------------------------------------------------------------
@rule('R22', 'assigning a top that is not None and not a variable is refused with GraphError')
def r22(ctx: Ctx) -> RuleReport:
    rep = RuleReport('R22', r22.title, floor=2)
    fi = ctx.repo.func(G, 'Graph.top.setter')
    p = fi.positional[1]
    cfg = CFG(fi.node)
    stores = [nd for nd in cfg.nodes if nd.kind == 'stmt' and isinstance(nd.ast, ast.Assign)
              and any(isinstance(t, ast.Attribute) and t.attr == '_top' for t in nd.ast.targets)]
    if not stores:
        raise AnalysisError('Graph.top setter no longer stores self._top')
    accept = {(f'{p} is None', True), (f'{p} is not None', False), (f'{p} in self.variables()', True),
              (f'{p} not in self.variables()', False)}
    for nd in stores:
        rep.add(f'{fi.fq}: stores the value passed', fi.loc(nd.ast),
                'ok' if isinstance(nd.ast.value, ast.Name) and nd.ast.value.id == p else 'undecided', norm(nd.ast))
        # may-analysis: can the store be reached along edges none of which establishes an accepting fact?
        seen = set()
        stack = [cfg.entry]
        reached = False
        while stack:
            n = stack.pop()
            if n in seen:
                continue
            seen.add(n)
            if n == nd.id:
                reached = True
                break
            node = cfg.nodes[n]
            for m, lab in cfg.succ[n]:
                if node.kind == 'cond' and (norm(node.ast), lab == 'T') in accept:
                    continue
                stack.append(m)
        rep.add(f'{fi.fq}: every path to the store passed `{p} is None` or `{p} in self.variables()`', fi.loc(nd.ast),
                'violation' if reached else 'ok',
                'the store is reachable without either test having succeeded' if reached else '')
    # every normal return of the setter went through the store (skipping it is only harmless when the value equals the stored one)
    same = {(f'{p} == self._top', True), (f'{p} is self._top', True), (f'self._top == {p}', True), (f'self._top is {p}', True),
            (f'{p} != self._top', False), (f'{p} is not self._top', False)}
    store_ids = {nd.id for nd in stores}
    seen, stack, skipped = set(), [(cfg.entry, [])], None
    while stack:
        n, path = stack.pop()
        if n in seen or n in store_ids:
            continue
        seen.add(n)
        if n == cfg.exit:
            skipped = path
            break
        node = cfg.nodes[n]
        for m, lab in cfg.succ[n]:
            if lab == 'exc' or m == cfg.rexit:
                continue
            if node.kind == 'cond' and (norm(node.ast), lab == 'T') in same:
                continue
            stack.append((m, path + ([f'{norm(node.ast)[:40]} is {lab}'] if node.kind == 'cond' else [])))
    rep.add(f'{fi.fq}: every normal return stored the value', fi.loc(), 'violation' if skipped is not None else 'ok',
            (f'the setter can return without storing the value ({"; ".join(skipped) or "unconditionally"}): the graph keeps its old explicit top '
             f'(or stays with an implicit top that moves when the first triple changes)') if skipped is not None else '')
    # the converse: a value that is acceptable (None, or one of the variables) does reach the store
    def outcomes(assign: Dict[str, bool]) -> Set[str]:
        out, seen, stack = set(), set(), [cfg.entry]
        while stack:
            n = stack.pop()
            if n in seen:
                continue
            seen.add(n)
            if n in store_ids:
                out.add('store')
                continue
            node = cfg.nodes[n]
            if node.kind == 'stmt' and isinstance(node.ast, ast.Raise):
                out.add('raise')
                continue
            if n == cfg.exit:
                out.add('return')
                continue
            for m, lab in cfg.succ[n]:
                if lab == 'exc' or m == cfg.rexit:
                    continue
                if node.kind == 'cond' and norm(node.ast) in assign and (lab == 'T') != assign[norm(node.ast)]:
                    continue
                stack.append(m)
        return out
    cases = {
        f'{p} is a variable of the graph': {f'{p} is None': False, f'{p} is not None': True, f'{p} in self.variables()': True, f'{p} not in self.variables()': False,
                                            f'{p} == self.top': False, f'{p} == self._top': False},
        f'{p} is None': {f'{p} is None': True, f'{p} is not None': False, f'{p} == self.top': False, f'{p} == self._top': False,
                         f'{p} in self.variables()': False, f'{p} not in self.variables()': True},
    }
    for label, assign in cases.items():
        got = outcomes(assign)
        k3 = f'{fi.fq}: when {label} the value is stored'
        if 'store' in got and 'raise' not in got:
            rep.ok(k3, fi.loc())
        elif 'raise' in got and 'store' not in got:
            rep.violation(k3, fi.loc(), f'with {label} the setter ends in its raise statement and never stores: a legitimate top is refused '
                          f'(re-topping a graph, or clearing the explicit top, raises GraphError)')
        else:
            rep.undecided(k3, fi.loc(), f'outcomes {sorted(got)}')
    raises = [n for n in walk_local(fi.node) if isinstance(n, ast.Raise) and isinstance(n.exc, ast.Call)]
    rep.add(f'{fi.fq}: refusal raises GraphError', fi.loc(), 'ok' if any(norm(r.exc.func) == 'GraphError' for r in raises) else 'undecided')
    # the variables() used is sources + explicit top
    vf = ctx.repo.func(G, 'Graph.variables')
    comp = None
    for n in walk_local(vf.node):
        if isinstance(n, (ast.GeneratorExp, ast.SetComp)) and len(n.generators) == 1 and norm(n.generators[0].iter) == 'self.triples':
            comp = n
    okv = comp is not None and isinstance(comp.generators[0].target, ast.Tuple) and len(comp.generators[0].target.elts) == 3 \
        and isinstance(comp.elt, ast.Name) and isinstance(comp.generators[0].target.elts[0], ast.Name) \
        and comp.elt.id == comp.generators[0].target.elts[0].id and not comp.generators[0].ifs
    rep.add('Graph.variables: the sources of all triples', vf.loc(), 'ok' if okv else 'undecided',
            '' if okv else 'the variable set is not {source for every triple}')
    return rep


@rule('R23top', 'the implicit top is the source of the first triple; an explicit top wins')
def r23top(ctx: Ctx) -> RuleReport:
    from ..resolve import symbolic_returns
    rep = RuleReport('R23top', r23top.title, floor=2)
    fi = ctx.repo.func(G, 'Graph.top')
    NONEMPTY = ('atom', 'self.triples is non-empty')
    NOTOP = ('atom', 'self._top is None')
    table = {'len(self.triples) > 0': NONEMPTY, 'len(self.triples) != 0': NONEMPTY, 'len(self.triples) >= 1': NONEMPTY,
             'self.triples': NONEMPTY, 'bool(self.triples)': NONEMPTY, '0 < len(self.triples)': NONEMPTY,
             '0 == len(self.triples)': bn.mk_not(NONEMPTY), 'len(self.triples) == 0': bn.mk_not(NONEMPTY),
             'len(self.triples) < 1': bn.mk_not(NONEMPTY), 'len(self.triples)': NONEMPTY}

    def canon(f):
        if isinstance(f, tuple) and f[0] == 'atom':
            return table.get(f[1], f)
        if isinstance(f, tuple) and f[0] == 'not':
            return bn.mk_not(canon(f[1]))
        if isinstance(f, tuple) and f[0] in ('and', 'or'):
            return (f[0], [canon(x) for x in f[1]])
        return f
    try:
        paths = symbolic_returns(fi)
    except AnalysisError as exc:
        rep.undecided(f'{fi.fq}: paths', fi.loc(), str(exc))
        return rep
    ab = bn.Abstractor()
    implicit, explicit = [], []
    for conds, val, st in paths:
        pc = canon(bn.mk_and([ab.formula(c) if pol else bn.mk_not(ab.formula(c)) for c, pol in conds]))
        src = norm(val) if val is not None else 'None'
        if src == 'self._top':
            explicit.append(pc)
        elif src == 'self.triples[0][0]':
            implicit.append(pc)
        elif val is not None and isinstance(val, ast.Subscript) and norm(val).startswith('self.triples['):
            rep.violation(f'{fi.fq}: implicit top is self.triples[0][0]', fi.loc(st),
                          f'the fallback returns {src}: the implicit top is the source of the first triple')
            return rep
        elif src == 'None':
            explicit.append(pc)         # judged below: returning None is returning the unset top
        else:
            rep.undecided(f'{fi.fq}: returns the explicit top or the source of the first triple', fi.loc(st), f'returns {src}')
            return rep
    if not implicit:
        rep.undecided(f'{fi.fq}: implicit top is self.triples[0][0]', fi.loc(), 'no such fallback')
        return rep
    rep.ok(f'{fi.fq}: implicit top is self.triples[0][0]', fi.loc())
    f = bn.mk_or(implicit)
    want = bn.mk_and([NOTOP, NONEMPTY])
    known = set(bn.atoms_of(f)) <= {NOTOP[1], NONEMPTY[1]}
    d = bn.equivalent(f, want)
    if d is not None and set(bn.atoms_of(f)) <= {NOTOP[1], NONEMPTY[1], 'self._top'}:
        # the explicit top is tested for truthiness: "unset" (None) and "set to something falsy" ('' or 0) are different states
        wit = None
        for env in bn.assignments([f, want]):
            if env.get('self._top') and env.get(NOTOP[1]):
                continue                                    # a truthy top is not None
            if not env.get('self._top') and not env.get(NOTOP[1]) and bn.evaluate(f, env) != bn.evaluate(want, env):
                wit = env
        if wit is not None:
            rep.violation(f'{fi.fq}: implicit top exactly when no explicit top is set and triples exist', fi.loc(),
                          f'the explicit top is tested for truthiness (`if self._top`): a top that IS set but falsy - the variable "" or 0, which the setter accepts because it tests '
                          f'`is not None` - is treated as unset, and the source of the first triple is returned instead ({bn.show(f)}; expected {bn.show(want)})')
            return rep
    rep.add(f'{fi.fq}: implicit top exactly when no explicit top is set and triples exist', fi.loc(),
            'ok' if d is None else ('violation' if known else 'undecided'),
            bn.show(f) if d is None else f'the first triple\'s source is returned when {bn.show(f)}; expected {bn.show(want)}; differs for {d}')
    return rep


# ---------------------------------------------------------------------------------------------
ORDER_BREAKERS = {'sorted', 'set', 'frozenset', 'reversed', 'dict', 'shuffle', 'sample'}


def _subst(e, env):
    """copy of expression `e` with the names of `env` replaced by their expressions"""
    import copy
    class S(ast.NodeTransformer):
        def visit_Name(self, n):
            if isinstance(n.ctx, ast.Load) and n.id in env:
                return copy.deepcopy(env[n.id])
            return n
    return S().visit(copy.deepcopy(e))


def _loop_comprehension(ctx, fi, name: str):
    """`acc = []` filled by one `acc.append(E)` in one `for T in IT:` loop whose body otherwise only binds locals and skips items
    (`if C: continue` / `if C: acc.append(E)`), read as the list comprehension `[E for T in IT if ...]`; None when the shape differs"""
    inits, appends, others = [], [], []
    pm = ctx.repo.parent_map(fi.node)
    for n in walk_local(fi.node):
        if isinstance(n, (ast.Assign, ast.AnnAssign)) and n.value is not None:
            tg = n.targets if isinstance(n, ast.Assign) else [n.target]
            if any(isinstance(t, ast.Name) and t.id == name for t in tg):
                inits.append(n)
        elif isinstance(n, ast.Call) and isinstance(n.func, ast.Attribute) and isinstance(n.func.value, ast.Name) and n.func.value.id == name:
            (appends if n.func.attr == 'append' and len(n.args) == 1 else others).append(n)
        elif isinstance(n, (ast.AugAssign,)) and isinstance(n.target, ast.Name) and n.target.id == name:
            others.append(n)
    if len(inits) != 1 or len(appends) != 1 or others:
        return None
    iv = inits[0].value
    if not ((isinstance(iv, ast.List) and not iv.elts) or (isinstance(iv, ast.Call) and norm(iv.func) == 'list' and not iv.args)):
        return None
    app = appends[0]
    st = pm.get(id(app))
    if not isinstance(st, ast.Expr):
        return None
    loop, x = None, st
    while x is not None and x is not fi.node:
        x = pm.get(id(x))
        if isinstance(x, (ast.For, ast.While)):
            loop = x
            break
    if not isinstance(loop, ast.For) or loop.orelse:
        return None
    # only one loop level between the function and the append
    y = pm.get(id(loop))
    while y is not None and y is not fi.node:
        if isinstance(y, (ast.For, ast.While)):
            return None
        y = pm.get(id(y))
    env, ifs, target, found = {}, [], loop.target, []

    def body(stmts, conds):
        for i, b in enumerate(stmts):
            if b is st:
                found.append(list(conds))
            elif isinstance(b, ast.Assign) and len(b.targets) == 1 and isinstance(b.targets[0], ast.Name):
                env[b.targets[0].id] = _subst(b.value, env)
            elif isinstance(b, ast.Assign) and len(b.targets) == 1 and isinstance(b.targets[0], ast.Tuple) and isinstance(loop.target, ast.Name) \
                    and isinstance(b.value, ast.Name) and b.value.id == loop.target.id and all(isinstance(e, ast.Name) for e in b.targets[0].elts):
                nonlocal target
                if not isinstance(target, ast.Name):
                    return False
                target = b.targets[0]
                env[loop.target.id] = ast.Tuple(elts=[ast.Name(id=e.id, ctx=ast.Load()) for e in b.targets[0].elts], ctx=ast.Load())
            elif isinstance(b, ast.If) and not b.orelse and len(b.body) == 1 and isinstance(b.body[0], ast.Assign) and len(b.body[0].targets) == 1 \
                    and isinstance(b.body[0].targets[0], ast.Name):
                # if C: x = E   reads as   x = E if C else x
                nm_ = b.body[0].targets[0].id
                old_ = env.get(nm_, ast.Name(id=nm_, ctx=ast.Load()))
                env[nm_] = ast.IfExp(test=_subst(b.test, env), body=_subst(b.body[0].value, env), orelse=old_)
            elif isinstance(b, ast.If) and not b.orelse and len(b.body) == 1 and isinstance(b.body[0], ast.Continue):
                conds = conds + [ast.UnaryOp(op=ast.Not(), operand=_subst(b.test, env))]
            elif isinstance(b, ast.If) and not b.orelse:
                if body(b.body, conds + [_subst(b.test, env)]) is False:
                    return False
                if not found and any(isinstance(z, (ast.Continue, ast.Break, ast.Return)) for w in b.body for z in ast.walk(w)):
                    return False
            else:
                return False
        return True
    if body(loop.body, []) is False or len(found) != 1:
        return None
    comp = ast.ListComp(elt=_subst(app.args[0], env), generators=[ast.comprehension(target=target, iter=loop.iter, ifs=found[0], is_async=0)])
    ast.copy_location(comp, loop)
    ast.fix_missing_locations(comp)
    return comp


def _as_comprehension(ctx, fi, a):
    """filter(N.__contains__, S) / filter(lambda t: t in N, S) (the predicate possibly through a local name) as the generator (t for t in S if t in N)"""
    if isinstance(a, ast.Name):
        lc = _loop_comprehension(ctx, fi, a.id)
        if lc is not None:
            return lc
        a = single_def(ctx, fi, a)
    if isinstance(a, ast.Call) and norm(a.func) in ('list', 'tuple') and len(a.args) == 1:
        inner = _as_comprehension(ctx, fi, a.args[0])
        if isinstance(inner, (ast.GeneratorExp, ast.ListComp)):
            return inner
    if isinstance(a, ast.Call) and norm(a.func) in ('filter', 'filterfalse', 'itertools.filterfalse') and len(a.args) == 2:
        negate = norm(a.func) != 'filter'
        pred = a.args[0]
        if isinstance(pred, ast.Name):
            pred = single_def(ctx, fi, pred)
        N = None
        if isinstance(pred, ast.Attribute) and pred.attr == '__contains__':
            N = pred.value
        elif isinstance(pred, ast.Lambda) and len(pred.args.args) == 1 and isinstance(pred.body, ast.Compare) and len(pred.body.ops) == 1 \
                and isinstance(pred.body.ops[0], ast.In) and norm(pred.body.left) == pred.args.args[0].arg:
            N = pred.body.comparators[0]
        if N is not None:
            t = ast.Name(id='_t', ctx=ast.Load())
            g = ast.GeneratorExp(elt=t, generators=[ast.comprehension(target=ast.Name(id='_t', ctx=ast.Store()), iter=a.args[1],
                                                                     ifs=[ast.Compare(left=ast.Name(id='_t', ctx=ast.Load()), ops=[ast.NotIn() if negate else ast.In()], comparators=[N])],
                                                                     is_async=0)])
            ast.copy_location(g, a)
            ast.fix_missing_locations(g)
            return g
    return a


@rule('R39', 'graph queries and union keep the order of the triple list')
def r39(ctx: Ctx) -> RuleReport:
    rep = RuleReport('R39', r39.title, floor=5)
    for name in ('instances', 'edges', 'attributes', '_filter_triples'):
        fi = ctx.repo.func(G, f'Graph.{name}')
        bad = []
        for n in walk_local(fi.node):
            if isinstance(n, ast.Call):
                nm = n.func.id if isinstance(n.func, ast.Name) else (n.func.attr if isinstance(n.func, ast.Attribute) else '')
                if nm in ORDER_BREAKERS or nm in ('sort', 'reverse'):
                    bad.append(norm(n)[:50])
            if isinstance(n, ast.Subscript) and isinstance(n.slice, ast.Slice) and n.slice.step is not None:
                bad.append(norm(n)[:50])
        rep.add(f'{fi.fq}: no reordering between self.triples and the result', fi.loc(), 'violation' if bad else 'ok',
                f'order-changing operation(s): {bad}' if bad else '')
    ior = ctx.repo.func(G, 'Graph.__ior__')
    ext = [n for n in walk_local(ior.node) if isinstance(n, ast.Call) and isinstance(n.func, ast.Attribute)
           and n.func.attr in ('extend', 'append') and norm(n.func.value) == 'self.triples']
    good = False
    for c in ext:
        a = c.args[0] if c.args else None
        a = _as_comprehension(ctx, ior, a)
        if isinstance(a, (ast.GeneratorExp, ast.ListComp)) and len(a.generators) == 1 and \
                norm(a.generators[0].iter) == f'{ior.positional[1]}.triples' and isinstance(a.elt, ast.Name) \
                and isinstance(a.generators[0].target, ast.Name) and a.elt.id == a.generators[0].target.id:
            good = True
    dedup = None
    for c in ext:
        a = c.args[0] if c.args else None
        if isinstance(a, ast.Name):
            a = single_def(ctx, ior, a)
        if isinstance(a, (ast.GeneratorExp, ast.ListComp)) and len(a.generators) == 1 and isinstance(a.generators[0].iter, ast.Call):
            itc = a.generators[0].iter
            if norm(itc.func) in ('dict.fromkeys', 'OrderedDict.fromkeys', 'collections.OrderedDict.fromkeys', 'set', 'frozenset') \
                    and itc.args and norm(itc.args[0]) == f'{ior.positional[1]}.triples':
                dedup = (c, itc)
    if dedup and not good:
        c, itc = dedup
        rep.violation(f'{ior.fq}: new triples are appended in the order of other.triples', ior.loc(c),
                      f'the appended triples are drawn from `{norm(itc)}`, which keeps one copy of each triple: a triple that other states twice and self lacks is added '
                      f'once, so a | b is no longer a.triples followed by the triples of b that a lacks (Graph() | b differs from b; difference keeps such duplicates, '
                      f'union drops them)' + ('; a set also loses the order' if norm(itc.func) in ('set', 'frozenset') else ''))
    else:
        rep.add(f'{ior.fq}: new triples are appended in the order of other.triples', ior.loc(), 'ok' if good else 'undecided',
                '' if good else 'self.triples is not extended by a filter over other.triples')
    # ... and only triples that are not there yet (a union of sets of triples)
    op = ior.positional[1]
    for c in ext:
        a = c.args[0] if c.args else None
        a = _as_comprehension(ctx, ior, a)
        if not (isinstance(a, (ast.GeneratorExp, ast.ListComp)) and len(a.generators) == 1 and norm(a.generators[0].iter) == f'{op}.triples'):
            continue
        g0 = a.generators[0]
        tv = norm(g0.target)
        k2 = f'{ior.fq}: only triples that are not yet in the graph are appended'
        conds = [x for x in g0.ifs if not (isinstance(x, ast.Constant) and x.value is True)]
        if not conds:
            rep.violation(k2, ior.loc(c), f'every triple of {op}.triples is appended, also those the graph already has: g | g has every triple twice, so union is not a set operation')
            continue
        verdict = 'undecided'
        for x in conds:
            src = norm(x)
            if src in (f'{tv} not in self.triples', f'{tv} not in set(self.triples)'):
                verdict = 'ok'
            elif isinstance(x, ast.Compare) and len(x.ops) == 1 and isinstance(x.ops[0], (ast.In, ast.NotIn)) and norm(x.left) == tv and isinstance(x.comparators[0], ast.Name):
                d = single_def(ctx, ior, x.comparators[0])
                ds = norm(d).replace(' ', '')
                fresh = ds in (f'set({op}.triples)-set(self.triples)', f'set({op}.triples).difference(self.triples)', f'set({op}.triples).difference(set(self.triples))')
                present = ds in ('set(self.triples)', 'self.triples', 'frozenset(self.triples)')
                if (fresh and isinstance(x.ops[0], ast.In)) or (present and isinstance(x.ops[0], ast.NotIn)):
                    verdict = 'ok'
                elif (fresh and isinstance(x.ops[0], ast.NotIn)) or (present and isinstance(x.ops[0], ast.In)):
                    verdict = 'violation'
        rep.add(k2, ior.loc(c), verdict, 'the filter keeps exactly the triples the graph already has: nothing new is added, what is there is duplicated' if verdict == 'violation' else norm(conds[0])[:60])
    isub = ctx.repo.func(G, 'Graph.__isub__')
    good = False
    for n in walk_local(isub.node):
        if isinstance(n, ast.Assign) and norm(n.targets[0]) in ('self.triples[:]', 'self.triples'):
            v = _as_comprehension(ctx, isub, n.value)
            if isinstance(v, (ast.ListComp, ast.GeneratorExp)) and len(v.generators) == 1 and norm(v.generators[0].iter) == 'self.triples' \
                    and isinstance(v.elt, ast.Name) and v.elt.id == v.generators[0].target.id:
                good = True
    removes = [n for n in walk_local(isub.node) if isinstance(n, ast.Call) and isinstance(n.func, ast.Attribute) and n.func.attr == 'remove'
               and norm(n.func.value) == 'self.triples']
    if removes and not good:
        rep.violation(f'{isub.fq}: every occurrence of a removed triple is taken out', isub.loc(removes[0]),
                      f'`{norm(removes[0])}` deletes the first occurrence only: a triple that the left operand lists twice survives the difference (without its markers), so a - b still '
                      f'contains triples of b and (a - b) - b != a - b')
    else:
        rep.add(f'{isub.fq}: remaining triples keep their order', isub.loc(), 'ok' if good else 'undecided')
    return rep


# ---------------------------------------------------------------------------------------------
def _is_set_typed(ctx: Ctx, fi: FuncInfo, e: ast.AST) -> bool:
    t = ctx.types.type_of(fi, e)
    return has(t, 'set')      # may be a set (a union with list still has hash order on some path)


def _body_order_insensitive(stmts, elem_names: Set[str]) -> Optional[str]:
    """None if the loop body is order-insensitive by syntax, else the offending statement."""
    for st in stmts:
        if isinstance(st, ast.If):
            r = _body_order_insensitive(st.body, elem_names) or _body_order_insensitive(st.orelse, elem_names)
            if r:
                return r
        elif isinstance(st, ast.Delete):
            continue
        elif isinstance(st, ast.Expr) and isinstance(st.value, ast.Call) and isinstance(st.value.func, ast.Attribute) \
                and st.value.func.attr in ('add', 'discard', 'remove'):
            continue
        elif isinstance(st, ast.Expr) and isinstance(st.value, ast.Call) and isinstance(st.value.func, ast.Attribute) \
                and st.value.func.attr == 'pop' and len(st.value.args) == 2:
            continue        # d.pop(key, default) as a statement only deletes
        elif isinstance(st, ast.AugAssign) and isinstance(st.op, (ast.Add, ast.BitOr)) and isinstance(st.value, ast.Constant):
            continue
        elif isinstance(st, (ast.Pass, ast.Continue)):
            continue
        else:
            return norm(st)[:70]
    return None


ORDER_FREE_CONSUMERS = {'set', 'frozenset', 'sorted', 'sum', 'any', 'all', 'len', 'min', 'max'}


def _worklist_closure(ctx: Ctx, fi: FuncInfo, pm, node, it, kind) -> Optional[str]:
    """The iteration only feeds a local work-list of a closure computation whose result is a set: visiting order is unobservable.
    Shape required (checked on the syntax, names free): L.extend(<this iteration>) / for x in S: L.append(x); every other use of L is its
    creation, `while L`, L.pop(..), L.append/extend; the `while L` body has no break/return and is, apart from the L operations and the
    binding `cur = L.pop()`, order-insensitive (set adds under membership tests); every return of the function returns a set-typed name."""
    cons = None
    if kind == 'comp':
        par = pm.get(id(node))
        if isinstance(par, ast.Call) and isinstance(par.func, ast.Attribute) and par.func.attr == 'extend' and isinstance(par.func.value, ast.Name):
            cons = par.func.value.id
    elif kind == 'extend' and isinstance(node.func.value, ast.Name):
        cons = node.func.value.id
    elif kind == 'for':
        apps = [x for x in ast.walk(node) if isinstance(x, ast.Call) and isinstance(x.func, ast.Attribute) and x.func.attr == 'append' and isinstance(x.func.value, ast.Name)]
        def without_apps(stmts):
            out = []
            for st in stmts:
                if isinstance(st, ast.Expr) and st.value in apps:
                    continue
                if isinstance(st, ast.If):
                    out.append(ast.If(test=st.test, body=without_apps(st.body) or [ast.Pass()], orelse=without_apps(st.orelse)))
                else:
                    out.append(st)
            return out
        rest = _body_order_insensitive(without_apps(node.body), set())
        if len({a.func.value.id for a in apps}) == 1 and rest is None:
            cons = apps[0].func.value.id
    if cons is None:
        return None
    L = cons
    loops = []
    for x in walk_local(fi.node):
        if isinstance(x, ast.Name) and x.id == L:
            p = pm.get(id(x))
            pp = pm.get(id(p)) if p is not None else None
            if isinstance(p, (ast.Assign, ast.AnnAssign)) and isinstance(x.ctx, ast.Store):
                continue
            if isinstance(p, ast.While) and p.test is x:
                loops.append(p)
                continue
            if isinstance(p, ast.Attribute) and p.attr in ('pop', 'append', 'extend', 'popleft') and isinstance(pp, ast.Call) and pp.func is p:
                continue
            return None
    if len(loops) != 1:
        return None
    loop = loops[0]
    if any(isinstance(x, (ast.Break, ast.Return)) for x in ast.walk(loop)) or loop.orelse:
        return None

    def l_op(st):
        v = st.value if isinstance(st, (ast.Expr, ast.Assign)) else None
        return isinstance(v, ast.Call) and isinstance(v.func, ast.Attribute) and isinstance(v.func.value, ast.Name) and v.func.value.id == L

    def strip(stmts):
        out = []
        for st in stmts:
            if l_op(st):
                continue
            if isinstance(st, ast.If):
                st2 = ast.If(test=st.test, body=strip(st.body) or [ast.Pass()], orelse=strip(st.orelse))
                out.append(st2)
            elif isinstance(st, ast.For) and not st.orelse:
                out.extend(strip(st.body))          # an inner loop over the neighbours: judged by what it does per neighbour
            else:
                out.append(st)
        return out
    if _body_order_insensitive(strip(loop.body), set()) is not None:
        return None
    rets = [r for r in walk_local(fi.node) if isinstance(r, ast.Return)]
    if not rets or not all(r.value is not None and isinstance(r.value, ast.Name) and _is_set_typed(ctx, fi, r.value) for r in rets):
        return None
    return f'the iteration only feeds the work-list `{L}` of a closure whose result is the set `{norm(rets[0].value)}`: visiting order is not observable'


def _symmetric_closure(ctx: Ctx, fi: FuncInfo, pm, node, it, kind) -> Optional[str]:
    """for k, vs in D.items(): for v in vs: [if v not in D: D[v] = set()]; D[v].add(k)  -- makes a relation symmetric; the only ordered effect is
    the key order of the local dict D, which is harmless when D is otherwise only indexed / tested for membership."""
    if kind != 'for' or not isinstance(it, ast.Name):
        return None
    outer = pm.get(id(node))
    if not (isinstance(outer, ast.For) and isinstance(outer.iter, ast.Call) and isinstance(outer.iter.func, ast.Attribute) and outer.iter.func.attr == 'items'
            and isinstance(outer.iter.func.value, ast.Name) and isinstance(outer.target, ast.Tuple) and len(outer.target.elts) == 2
            and norm(outer.target.elts[1]) == it.id and len(outer.body) == 1):
        return None
    D, k = outer.iter.func.value.id, norm(outer.target.elts[0])
    v = norm(node.target)
    empties = {f'{D}[{v}] = set()', f'{D}[{v}] = list()', f'{D}[{v}] = []', f'{D}[{v}] = frozenset()', f'{D}[{v}] = ()'}
    for st in node.body:
        src = norm(st)
        if src == f'{D}[{v}].add({k})':
            continue
        if isinstance(st, ast.If) and not st.orelse and isinstance(st.test, ast.Constant) and not st.test.value:
            continue                            # dead branch
        if isinstance(st, ast.If) and norm(st.test) == f'{v} not in {D}' and not st.orelse and len(st.body) == 1 and norm(st.body[0]) in empties:
            continue
        if isinstance(st, ast.If) and norm(st.test) == f'{v} not in {D}' and not st.orelse and len(st.body) == 1 and isinstance(st.body[0], ast.Assign) \
                and isinstance(st.body[0].targets[0], ast.Subscript) and norm(st.body[0].targets[0].value) == D and norm(st.body[0].value) in ('set()', 'list()', '[]', '()', 'frozenset()'):
            continue                            # creates some (other) empty entry: still only the key order of D is affected
        return None
    # D must not be iterated anywhere else in the function
    for x in walk_local(fi.node):
        if isinstance(x, (ast.For, ast.comprehension)) and x is not outer:
            itx = x.iter
            whole = (isinstance(itx, ast.Name) and itx.id == D) or (
                isinstance(itx, ast.Call) and ((isinstance(itx.func, ast.Attribute) and norm(itx.func.value) == D and itx.func.attr in ('items', 'keys', 'values', 'copy'))
                                               or any(isinstance(a, ast.Name) and a.id == D for a in itx.args)))
            if whole:
                return None
    return f'symmetric closure of the local relation `{D}`: only its key order depends on the visiting order, and `{D}` is indexed / tested for membership only'


@rule('R13', 'no iteration order of a set reaches an ordered result (hash-seed independence)')
def r13(ctx: Ctx) -> RuleReport:
    rep = RuleReport('R13', r13.title, floor=3)
    n_sets = 0
    for fi in ctx.repo.all_functions():
        pm = None
        for n in walk_local(fi.node):
            sites: List[Tuple[ast.AST, ast.AST, str]] = []      # (node, iterated expr, kind)
            if isinstance(n, ast.For):
                sites.append((n, n.iter, 'for'))
            elif isinstance(n, (ast.ListComp, ast.GeneratorExp, ast.SetComp, ast.DictComp)):
                for g in n.generators:
                    sites.append((n, g.iter, 'comp'))
            elif isinstance(n, ast.Call):
                nm = n.func.id if isinstance(n.func, ast.Name) else ''
                if nm in ('list', 'tuple', 'iter', 'enumerate', 'zip', 'reversed', 'sorted') and n.args:
                    for a in n.args:
                        sites.append((n, a, f'call:{nm}'))
                if isinstance(n.func, ast.Attribute) and n.func.attr == 'join' and n.args:
                    sites.append((n, n.args[0], 'join'))
                if isinstance(n.func, ast.Attribute) and n.func.attr == 'fromkeys' and n.args and norm(n.func.value) in ('dict', 'OrderedDict', 'collections.OrderedDict'):
                    sites.append((n, n.args[0], 'fromkeys'))
                if isinstance(n.func, ast.Attribute) and n.func.attr == 'pop' and not n.args:
                    sites.append((n, n.func.value, 'setpop'))
                if isinstance(n.func, ast.Attribute) and n.func.attr in ('extend',) and n.args:
                    sites.append((n, n.args[0], 'extend'))
            elif isinstance(n, ast.Assign) and isinstance(n.targets[0], (ast.Tuple, ast.List)):
                sites.append((n, n.value, 'unpack'))
            for node, it, kind in sites:
                if not _is_set_typed(ctx, fi, it):
                    continue
                n_sets += 1
                if pm is None:
                    pm = ctx.repo.parent_map(fi.node)
                key = f'{fi.module.name}:{fi.qualname}: {kind} over {norm(it)[:50]}'
                where = fi.loc(node)
                verdict, msg = _classify_set_iteration(ctx, fi, pm, node, it, kind)
                fz = None
                if verdict == 'violation':
                    # triaged by the shape of the construct, not by names or text (a rename or q.get -> q[...] keeps the triage)
                    fz = _worklist_closure(ctx, fi, pm, node, it, kind) or _symmetric_closure(ctx, fi, pm, node, it, kind)
                if fz:
                    rep.exception(key, where, fz)
                elif verdict == 'ok':
                    rep.ok(key, where, msg)
                elif verdict == 'undecided':
                    rep.undecided(key, where, msg)
                else:
                    rep.violation(key, where, msg)
    rep.analysed['set_iterations'] = n_sets
    return rep


def _classify_set_iteration(ctx, fi, pm, node, it, kind):
    par = pm.get(id(node))
    if kind == 'for':
        names = {x.id for x in ast.walk(node.target) if isinstance(x, ast.Name)}
        bad = _body_order_insensitive(node.body, names)
        if bad is None:
            return 'ok', 'loop body is order-insensitive (deletions / set updates / counters)'
        return 'violation', (f'the loop visits a set in hash order and its body is order-sensitive: `{bad}` '
                             f'(dict insertion order, list order and early exits are observable)')
    if kind == 'comp':
        if isinstance(node, ast.SetComp):
            return 'ok', 'result is a set'
        if isinstance(node, ast.GeneratorExp) and isinstance(par, ast.Call):
            nm = par.func.id if isinstance(par.func, ast.Name) else (par.func.attr if isinstance(par.func, ast.Attribute) else '')
            if nm in ORDER_FREE_CONSUMERS or nm in ('update', 'difference', 'union', 'issubset'):
                return 'ok', f'consumed by {nm}()'
        if isinstance(node, (ast.ListComp,)) and isinstance(par, ast.Call) and isinstance(par.func, ast.Name) \
                and par.func.id in ORDER_FREE_CONSUMERS:
            return 'ok', f'consumed by {par.func.id}()'
        if isinstance(node, ast.DictComp):
            # a dict built in hash order is harmless only if it is never iterated
            tgt = pm.get(id(node))
            if isinstance(tgt, (ast.Assign, ast.AnnAssign)):
                nm = (tgt.targets[0] if isinstance(tgt, ast.Assign) else tgt.target)
                if isinstance(nm, ast.Name) and not _is_iterated(ctx, fi, nm.id):
                    return 'ok', f'dict `{nm.id}` is only indexed / tested for membership in this function and its callees, never iterated'
            return 'violation', 'a dict is built in set (hash) order; its key order is observable'
        return 'violation', 'a sequence is built by iterating a set: its order depends on the hash seed'
    if kind == 'setpop':
        return 'violation', 'set.pop() returns a hash-order dependent element'
    if kind.startswith('call:'):
        nm = kind.split(':')[1]
        if nm == 'sorted':
            kw = [k.value for k in node.keywords if k.arg == 'key'] if isinstance(node, ast.Call) else []
            if kw and not (isinstance(kw[0], ast.Constant) and kw[0].value is None):
                return _sort_key_total(ctx, fi, kw[0])
            return 'ok', 'sorted before use'
        if isinstance(par, ast.Call) and isinstance(par.func, ast.Name) and par.func.id in ORDER_FREE_CONSUMERS:
            return 'ok', f'consumed by {par.func.id}()'
        if nm == 'iter' and isinstance(par, ast.Call) and isinstance(par.func, ast.Name) and par.func.id == 'next':
            return 'violation', 'next(iter(<set>)) picks a hash-order dependent element'
        return 'violation', f'{nm}(<set>) fixes a hash-order dependent sequence'
    if kind == 'fromkeys':
        # the keys of the new dict are inserted in the iteration order of the set: harmless only if the dict is never iterated / returned
        tgt = pm.get(id(node))
        if isinstance(tgt, (ast.Assign, ast.AnnAssign)):
            nm = (tgt.targets[0] if isinstance(tgt, ast.Assign) else tgt.target)
            if isinstance(nm, ast.Name) and not _is_iterated(ctx, fi, nm.id):
                return 'ok', f'dict `{nm.id}` is only indexed / tested for membership in this function and its callees, never iterated'
        return 'violation', ('dict.fromkeys(<set>) inserts the keys in the iteration order of the set, which depends on the hash seed; the dict (or something built from its '
                             'items) is iterated or handed to the caller, so the order of the result differs from run to run')
    if kind in ('join', 'extend', 'unpack'):
        return 'violation', f'{kind} over a set: order depends on the hash seed'
    return 'violation', 'set iteration'


LOSSY = {'int': "'0' and '00' (or 'b0' and 'b00') give the same number", 'float': "'1' and '1.0' give the same number", 'len': 'equally long elements collide',
         'lower': "'A' and 'a' collide", 'upper': "'A' and 'a' collide", 'casefold': "'A' and 'a' collide", 'strip': "'a' and 'a ' collide",
         'lstrip': "' a' and 'a' collide", 'rstrip': "'a' and 'a ' collide", 'bool': 'all non-empty elements collide', 'abs': '1 and -1 collide',
         'hash': 'the value itself depends on the hash seed', 'round': '1.1 and 1.2 collide', 'random': 'a random key', 'isdigit': 'a boolean key',
         'startswith': 'a boolean key', 'endswith': 'a boolean key'}


def _sort_key_total(ctx, fi, keyexpr):
    """sorted(<set>, key=f) gives one order only if f never ties: elements with equal keys keep the order of the input, and the input is in hash order."""
    def contains_param(e, p):
        if isinstance(e, ast.Name):
            return e.id == p
        if isinstance(e, ast.Tuple):
            return any(contains_param(x, p) for x in e.elts)
        return False
    if isinstance(keyexpr, ast.Lambda) and len(keyexpr.args.args) == 1:
        p = keyexpr.args.args[0].arg
        if contains_param(keyexpr.body, p):
            return 'ok', 'sorted with a key that contains the element itself (no ties)'
        bodies, owner = [keyexpr.body], fi
        kf = None
    else:
        kf = None
        if isinstance(keyexpr, ast.Name) and keyexpr.id in ('str', 'repr'):
            return 'ok', f'sorted by {keyexpr.id}() of the element'
        probe = ast.Call(func=keyexpr, args=[], keywords=[])
        ast.copy_location(probe, keyexpr)
        try:
            ts = ctx.cg.resolve_call(probe, fi)
        except Exception:
            ts = []
        fs = [t.func for t in ts if t.kind == 'func']
        if len(fs) != 1:
            return 'undecided', f'sorted with key={norm(keyexpr)[:40]}: the key function is not resolved, ties cannot be excluded'
        kf = fs[0]
        pp = [x for x in kf.positional if x not in ('self', 'cls')]
        if not pp:
            return 'undecided', f'key function {kf.fq} has no parameter'
        p = pp[0]
        rets = [r.value for r in walk_local(kf.node) if isinstance(r, ast.Return) and r.value is not None]
        if rets and all(contains_param(r, p) for r in rets):
            return 'ok', f'sorted with {kf.qualname}, whose result contains the element itself (no ties)'
        bodies, owner = [kf.node], kf
    # positive evidence of ties: a lossy conversion on the way from the element to the key
    seenf, todo, found = set(), list(bodies), None
    depth_funcs = [owner]
    while todo and found is None:
        b = todo.pop()
        for x in ast.walk(b):
            if isinstance(x, ast.Call):
                nm = x.func.id if isinstance(x.func, ast.Name) else (x.func.attr if isinstance(x.func, ast.Attribute) else '')
                if nm in LOSSY:
                    found = (nm, x)
                    break
                try:
                    for t in ctx.cg.resolve_call(x, owner):
                        if t.kind == 'func' and t.func.fq not in seenf and len(seenf) < 6:
                            seenf.add(t.func.fq)
                            todo.append(t.func.node)
                except Exception:
                    pass
    if found:
        nm, x = found
        return 'violation', (f'sorted with key={norm(keyexpr)[:40]}: the key passes (part of) the element through `{norm(x)[:30]}` - {LOSSY[nm]} - and does not '
                             f'contain the element itself, so two elements can tie; tied elements keep their input order, which for a set is the hash order: '
                             f'the result differs between PYTHONHASHSEED values')
    return 'undecided', f'sorted with key={norm(keyexpr)[:40]}: the key does not contain the element itself and ties cannot be excluded'


def _is_iterated(ctx: Ctx, fi: FuncInfo, name: str) -> bool:
    """Is the local `name` (or a parameter it is passed to) ever iterated?"""
    seen = set()

    def check(f: FuncInfo, nm: str) -> bool:
        if (f.fq, nm) in seen:
            return False
        seen.add((f.fq, nm))
        for n in walk_local(f.node):
            if isinstance(n, ast.For) and isinstance(n.iter, ast.Name) and n.iter.id == nm:
                return True
            if isinstance(n, ast.comprehension) and isinstance(n.iter, ast.Name) and n.iter.id == nm:
                return True
            if isinstance(n, ast.Call):
                if isinstance(n.func, ast.Attribute) and isinstance(n.func.value, ast.Name) and n.func.value.id == nm \
                        and n.func.attr in ('items', 'keys', 'values', 'popitem', 'copy'):
                    return True
                if isinstance(n.func, ast.Name) and n.func.id in ('list', 'tuple', 'sorted', 'iter', 'dict', 'str', 'repr', 'print') \
                        and any(isinstance(a, ast.Name) and a.id == nm for a in n.args):
                    return True
                # passed on to a repo function
                for i, a in enumerate(n.args):
                    if isinstance(a, ast.Name) and a.id == nm:
                        for t in ctx.cg.resolve_call(n, f):
                            if t.kind == 'func':
                                pos = t.func.positional
                                if i < len(pos) and check(t.func, pos[i]):
                                    return True
                            elif t.kind not in ('ext',):
                                return True
            if isinstance(n, ast.Return) and isinstance(n.value, ast.Name) and n.value.id == nm:
                pass
        return False
    return check(fi, name)


# ---------------------------------------------------------------------------------------------
def _pop_comparisons(tree: ast.AST, is_pop) -> List[ast.Compare]:
    out = []
    for n in ast.walk(tree):
        if isinstance(n, ast.Compare):
            operands = [n.left] + list(n.comparators)
            flat = []
            for o in operands:
                flat.append(o)
                if isinstance(o, (ast.Tuple, ast.List, ast.Set)):
                    flat.extend(o.elts)
            if any(is_pop(o) for o in flat):
                out.append(n)
    return out


@rule('R15', 'the POP marker is recognised by type (isinstance), never by identity or equality')
def r15(ctx: Ctx) -> RuleReport:
    rep = RuleReport('R15', r15.title, floor=7)
    # built-in positive example: the matcher must see these
    sample = ast.parse('def f(datum, xs):\n    a = datum is POP\n    b = datum == POP\n    c = datum in (POP,)\n    d = layout.POP != datum\n')
    hits = _pop_comparisons(sample, lambda o: (isinstance(o, ast.Name) and o.id == 'POP') or
                            (isinstance(o, ast.Attribute) and o.attr == 'POP'))
    if len(hits) != 4:
        raise AnalysisError('R15 self-test: the matcher misses identity/equality comparisons with POP')
    n_isinst = 0
    for m in ctx.repo.modules.values():
        def is_pop(o, m=m):
            if isinstance(o, ast.Name):
                r = ctx.repo.resolve_name(m, o.id)
                return r[0] == 'const' and r[1].name == 'penman.layout' and r[2] == 'POP'
            if isinstance(o, ast.Attribute) and isinstance(o.value, ast.Name) and o.attr == 'POP':
                r = ctx.repo.resolve_name(m, o.value.id)
                return r[0] == 'module' and r[1].name == 'penman.layout'
            return False
        for fi in m.all_funcs:
            for c in _pop_comparisons(fi.node, is_pop):
                if any(x is c for x in walk_local(fi.node)):
                    rep.violation(f'{fi.module.name}:{fi.qualname}: {norm(c)}', fi.loc(c),
                                  'POP is compared by identity/equality: a POP that went through copy.deepcopy or pickling '
                                  '(multiprocessing) is a different object and would not be recognised')
            for n in walk_local(fi.node):
                if isinstance(n, ast.Call) and isinstance(n.func, ast.Attribute) and n.func.attr in ('count', 'index', 'remove') \
                        and any(is_pop(a) for a in n.args):
                    rep.violation(f'{fi.module.name}:{fi.qualname}: {norm(n)}', fi.loc(n),
                                  f'list.{n.func.attr}(POP) compares with ==, which for Pop is identity: a POP that was copied or '
                                  f'unpickled (deepcopy, multiprocessing, g | h) is not recognised')
                if isinstance(n, ast.Call) and isinstance(n.func, ast.Name) and n.func.id == 'isinstance' and len(n.args) == 2:
                    cls = n.args[1]
                    names = [cls] + (list(cls.elts) if isinstance(cls, ast.Tuple) else [])
                    for x in names:
                        if isinstance(x, ast.Name):
                            r = ctx.repo.resolve_name(m, x.id)
                            if r[0] == 'class' and r[2].fq == 'penman.layout:Pop':
                                n_isinst += 1
                                rep.ok(f'{fi.module.name}:{fi.qualname}: {norm(n)}', fi.loc(n))
    rep.analysed['isinstance_Pop_sites'] = n_isinst
    # Pop must stay a class without identity-based state
    pop = ctx.repo.cls('penman.layout', 'Pop')
    rep.add('penman.layout:Pop defines no __eq__/__hash__ that could mask a copy', pop.module.relpath,
            'ok' if not ({'__eq__', '__hash__'} & set(pop.methods)) else 'info')
    return rep


# ---------------------------------------------------------------------------------------------
def _colon_helpers(ctx: Ctx) -> Set[str]:
    """Names of the module-level functions of penman.graph that return their argument with a leading colon added when it has none
    (whatever they are called): every symbolic return path is `x` under x.startswith(':') or `':' + x` under its negation."""
    from ..resolve import symbolic_returns
    out: Set[str] = set()
    for f in ctx.repo.module(G).all_funcs:
        if f.cls is not None or f.parent is not None or len(f.positional) != 1:
            continue
        p = f.positional[0]
        try:
            paths = symbolic_returns(f)
        except AnalysisError:
            continue
        if not paths:
            continue
        good = True
        for conds, val, st in paths:
            if val is None:
                good = False
                break
            cs = set()
            for c, pol in conds:
                while isinstance(c, ast.UnaryOp) and isinstance(c.op, ast.Not):
                    c, pol = c.operand, not pol
                cs.add((norm(c).replace(' ', ''), pol))
            has = (f"{p}.startswith(':')", True) in cs
            hasnot = (f"{p}.startswith(':')", False) in cs
            # conditional expressions inside the return value
            if isinstance(val, ast.IfExp) and norm(val.test).replace(' ', '') in (f"{p}.startswith(':')", f"not{p}.startswith(':')"):
                pos_arm, neg_arm = (val.body, val.orelse) if norm(val.test).replace(' ', '') == f"{p}.startswith(':')" else (val.orelse, val.body)
                if norm(pos_arm) == p and norm(neg_arm).replace(' ', '') == f"':'+{p}":
                    continue
                good = False
                break
            if has and norm(val) == p:
                continue
            if hasnot and norm(val).replace(' ', '') == f"':'+{p}":
                continue
            good = False
            break
        if good:
            out.add(f.name)
    return out


@rule('R123', 'Graph() gives every triple it is built from a role with a leading colon, whatever kind of sequence the triple is')
def r123(ctx: Ctx) -> RuleReport:
    from ..resolve import symbolic_returns
    rep = RuleReport('R123', r123.title, floor=1)
    gi = ctx.repo.func(G, 'Graph.__init__')
    stores = [n for n in walk_local(gi.node) if isinstance(n, ast.Assign) and norm(n.targets[0]) == 'self.triples']
    if len(stores) != 1:
        rep.undecided(f'{gi.fq}: self.triples is built once', gi.loc(), f'{len(stores)} stores')
        return rep
    v = stores[0].value
    if isinstance(v, ast.Name):
        v = _loop_comprehension(ctx, gi, v.id) or v
    # self.triples = helper(triples) with the helper building and returning the list in a loop
    if isinstance(v, ast.Call) and isinstance(v.func, ast.Name) and v.func.id in gi.module.functions and len(v.args) == 1:
        h_ = gi.module.functions[v.func.id]
        rets_ = [r for r in walk_local(h_.node) if isinstance(r, ast.Return) and isinstance(r.value, ast.Name)]
        if len(rets_) == 1 and len(h_.positional) == 1:
            lc_ = _loop_comprehension(ctx, h_, rets_[0].value.id)
            if lc_ is not None:
                v, gi = lc_, h_
    # list(map(helper, triples)) reads as [helper(t) for t in triples]
    inner_ = v.args[0] if isinstance(v, ast.Call) and norm(v.func) in ('list', 'tuple') and len(v.args) == 1 else v
    if isinstance(inner_, ast.Call) and norm(inner_.func) == 'map' and len(inner_.args) == 2 and isinstance(inner_.args[0], ast.Name):
        t_ = ast.Name(id='_t', ctx=ast.Load())
        v = ast.ListComp(elt=ast.Call(func=inner_.args[0], args=[t_], keywords=[]),
                         generators=[ast.comprehension(target=ast.Name(id='_t', ctx=ast.Store()), iter=inner_.args[1], ifs=[], is_async=0)])
        ast.copy_location(v, stores[0].value)
        ast.fix_missing_locations(v)
    key = f'{gi.fq}: every stored triple is (source, _ensure_colon(role), target)'
    if not (isinstance(v, (ast.ListComp, ast.GeneratorExp)) or (isinstance(v, ast.Call) and norm(v.func) == 'list' and v.args and isinstance(v.args[0], (ast.GeneratorExp, ast.ListComp)))):
        rep.undecided(key, gi.loc(stores[0]), norm(v)[:60])
        return rep
    comp = v if isinstance(v, (ast.ListComp, ast.GeneratorExp)) else v.args[0]

    colon_helpers = _colon_helpers(ctx)

    def colon_expr(x) -> bool:
        # <helper>(role)   or, written out:   role if role.startswith(':') else ':' + role   (either arm order)
        if isinstance(x, ast.Call) and norm(x.func) in colon_helpers:
            return True
        if isinstance(x, ast.IfExp):
            t, a, b = x.test, x.body, x.orelse
            neg = isinstance(t, ast.UnaryOp) and isinstance(t.op, ast.Not)
            t = t.operand if neg else t
            if neg:
                a, b = b, a
            if isinstance(t, ast.Call) and isinstance(t.func, ast.Attribute) and t.func.attr == 'startswith' and t.args and try_fold(t.args[0]) == (True, ':'):
                r_ = norm(t.func.value)
                return norm(a) == r_ and isinstance(b, ast.BinOp) and isinstance(b.op, ast.Add) and try_fold(b.left) == (True, ':') and norm(b.right) == r_
        return False

    def normalised(e) -> bool:
        return isinstance(e, ast.Tuple) and len(e.elts) == 3 and colon_expr(e.elts[1])
    if comp.generators[0].ifs:
        rep.violation(key, gi.loc(stores[0]), f'the triples are filtered with {[norm(c) for c in comp.generators[0].ifs]}: some of the triples given to Graph() are dropped')
        return rep
    if normalised(comp.elt):
        rep.ok(key, gi.loc(stores[0]), norm(comp.elt))
        return rep
    if isinstance(comp.elt, ast.Call):
        hs = [t.func for t in ctx.cg.resolve_call(comp.elt, gi) if t.kind == 'func']
        if len(hs) == 1:
            h = hs[0]
            try:
                paths = symbolic_returns(h)
            except AnalysisError as exc:
                rep.undecided(key, h.loc(), str(exc)[:80])
                return rep
            bad = []
            for conds, val, st in paths:
                if val is None or not normalised(val):
                    bad.append((conds, val, st))
            if not bad:
                rep.ok(key, h.loc(), f'{h.qualname}: {len(paths)} return path(s), all through _ensure_colon')
                return rep
            conds, val, st = bad[0]
            passes = val is not None and (norm(val) in h.params or (isinstance(val, ast.Call) and norm(val.func) in ('tuple', 'list') and val.args and norm(val.args[0]) in h.params))
            cs = [norm(c) if pol else f'not ({norm(c)})' for c, pol in conds]
            rep.add(key, h.loc(st), 'violation' if passes else 'undecided',
                    f'when {cs or "always"} {h.qualname} returns `{norm(val) if val is not None else None}`: the triple is stored as it came, its role is not given the leading colon - '
                    f'Graph([Triple("b", "instance", "bark")]) keeps the role "instance", so instances() misses it, attributes() reports it, and the graph is unequal to '
                    f'the same graph built from plain tuples')
            return rep
    rep.undecided(key, gi.loc(stores[0]), norm(comp.elt)[:60])
    return rep


# ---------------------------------------------------------------------------------------------
@rule('R130', 'graph union carries the markers of every triple it adds (the loop that copies them ranges over exactly the added triples)')
def r130(ctx: Ctx) -> RuleReport:
    rep = RuleReport('R130', r130.title, floor=1)
    fi = ctx.repo.func(G, 'Graph.__ior__')
    op = fi.positional[1]
    las = ctx.cg.local_assigns(fi)
    set_names = {nm for nm, vals in las.items() if any(isinstance(v, ast.AST) and _is_set_typed(ctx, fi, v) for v in vals)}
    def _is_their(e):
        if isinstance(e, ast.Name):
            e = single_def(ctx, fi, e)
        return norm(e) == f'{op}.epidata'

    def _is_own(e):
        if isinstance(e, ast.Name):
            e = single_def(ctx, fi, e)
        return norm(e) == 'self.epidata'
    updates = [n for n in walk_local(fi.node) if isinstance(n, ast.Call) and isinstance(n.func, ast.Attribute) and n.func.attr == 'update'
               and _is_own(n.func.value) and n.args and _is_their(n.args[0])]
    stores = [n for n in walk_local(fi.node) if isinstance(n, ast.Assign) and isinstance(n.targets[0], ast.Subscript) and norm(n.targets[0].value) == 'self.epidata']
    key = f'{fi.fq}: every added triple brings its markers along'
    if updates:
        rep.ok(key, fi.loc(updates[0]), f'{norm(updates[0])} covers every triple of the right operand')
        return rep
    if not stores:
        rep.violation(key, fi.loc(), f'nothing is written to self.epidata: the triples taken over from `{op}` lose their alignments and layout markers')
        return rep
    pm = ctx.repo.parent_map(fi.node)
    for st in stores:
        lp = next((a for a in _anc_g(pm, st) if isinstance(a, ast.For)), None)
        if lp is None:
            rep.undecided(key, fi.loc(st), 'the store is not in a loop')
            continue
        it = lp.iter
        src = norm(it)
        if src == f'{op}.triples' or (isinstance(it, ast.Name) and it.id not in set_names and any(
                isinstance(v, (ast.ListComp, ast.GeneratorExp)) and f'{op}.triples' in norm(v) for v in las.get(it.id, []) if isinstance(v, ast.AST))):
            rep.ok(key, fi.loc(lp), f'loop over {src}')
        elif isinstance(it, ast.Subscript) and isinstance(it.slice, ast.Slice) and norm(it.value) == 'self.triples':
            lens = [x for x in ast.walk(it.slice) if isinstance(x, ast.Call) and norm(x.func) == 'len' and x.args and isinstance(x.args[0], ast.Name)]
            if lens and lens[0].args[0].id in set_names:
                S = lens[0].args[0].id
                rep.violation(key, fi.loc(lp), f'the markers are copied for `{src}`: `{S}` is a set, so len({S}) counts the DISTINCT new triples, while the extend before it appends every '
                              f'occurrence - when `{op}` states one of its new triples twice, the slice is too short and the first added triple(s) get no epidata entry')
            else:
                rep.undecided(key, fi.loc(lp), f'loop over {src}')
        elif isinstance(it, ast.Name) and it.id in set_names:
            rep.ok(key, fi.loc(lp), f'loop over the set `{it.id}` of new triples (the order of the entries is R13\'s matter)')
        else:
            rep.undecided(key, fi.loc(lp), f'loop over {src}')
    return rep


def _anc_g(pm, n):
    out = []
    while id(n) in pm:
        n = pm[id(n)]
        out.append(n)
    return out
