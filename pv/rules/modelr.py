"""Model rules: R28 (suffix/slice agreement), R29 (sibling predicates), R40 (every triple is
role-checked), R23model (provenance in invert / deinvert / sort keys), R24m (canonicalize_role order)."""
from __future__ import annotations

import ast
from typing import Dict, List, Optional

from .. import boolnorm as bn
from ..cfg import CFG, cond_facts, facts_at, owner_node
from ..core import Ctx, RuleReport, rule
from ..src import AnalysisError, FuncInfo, norm, try_fold, walk_local
from .lexical import single_def

M = 'penman.model'


@rule('R28', 'x.endswith(LIT) guards x[:-N] only with N == len(LIT)')
def r28(ctx: Ctx) -> RuleReport:
    rep = RuleReport('R28', r28.title, floor=2)
    for fi in ctx.repo.all_functions():
        subs = []
        for n in walk_local(fi.node):
            if isinstance(n, ast.Subscript) and isinstance(n.slice, ast.Slice) and n.slice.lower is None \
                    and n.slice.step is None and n.slice.upper is not None:
                ok, v = try_fold(n.slice.upper)
                if ok and isinstance(v, int) and v < 0:
                    subs.append((n, -v))
        if not subs:
            continue
        cfg = CFG(fi.node)
        IN = cond_facts(cfg)
        pm = ctx.repo.parent_map(fi.node)
        for n, k in subs:
            base = norm(n.value)
            facts = facts_at(cfg, IN, pm, n)
            lits = []
            for f, pol in facts:
                if pol and f.startswith(f'{base}.endswith('):
                    e = ast.parse(f, mode='eval').body
                    ok, lit = try_fold(e.args[0]) if e.args else (False, None)
                    if ok and isinstance(lit, str):
                        lits.append(lit)
            if not lits:
                continue
            key = f'{fi.module.name}:{fi.qualname}: {norm(n)} under endswith({lits[0]!r})'
            good = all(len(l) == k for l in lits)
            rep.add(key, fi.loc(n), 'ok' if good else 'violation',
                    '' if good else f'strips {k} characters after testing for the {len(lits[0])}-character suffix {lits[0]!r}')
    return rep


def _ret_expr(ctx: Ctx, fi: FuncInfo) -> ast.AST:
    rets = [n for n in walk_local(fi.node) if isinstance(n, ast.Return) and n.value is not None]
    if len(rets) != 1:
        raise AnalysisError(f'{fi.fq}: expected exactly one return')
    return rets[0].value


def _canon_role_atoms(param: str):
    import re as _re
    pat = _re.compile(r'\b' + _re.escape(param) + r'\b')

    def canon(s: str) -> str:
        return pat.sub('ROLE', s)
    return canon


@rule('R29', 'is_role_inverted, invert_role, deinvert and has_role agree on what an inverted role is')
def r29(ctx: Ctx) -> RuleReport:
    rep = RuleReport('R29', r29.title, floor=4)
    repo = ctx.repo
    iri = repo.func(M, 'Model.is_role_inverted')
    p = iri.positional[1]
    inverted = bn.Abstractor(canon=_canon_role_atoms(p)).formula(_ret_expr(ctx, iri))
    HAS = ('atom', 'self._has_role(ROLE)')
    ENDS = ('atom', "ROLE.endswith('-of')")
    want = bn.mk_and([bn.mk_not(HAS), ENDS])
    d = bn.equivalent(inverted, want)
    rep.add(f'{iri.fq}: inverted iff not defined by the model and ends in -of', iri.loc(), 'ok' if d is None else 'violation',
            bn.show(inverted) if d is None else f'is {bn.show(inverted)}; differs from `not has and endswith(-of)` for {d}')
    # invert_role: the branch that strips must be taken exactly when inverted
    ir = repo.func(M, 'Model.invert_role')
    p2 = ir.positional[1]
    cfg = CFG(ir.node)
    IN = cond_facts(cfg)
    pm = repo.parent_map(ir.node)
    strip = add = None
    for n in walk_local(ir.node):
        if isinstance(n, ast.Subscript) and isinstance(n.slice, ast.Slice) and norm(n.value) == p2 and n.slice.upper is not None:
            strip = n
        if isinstance(n, ast.BinOp) and isinstance(n.op, ast.Add) and norm(n.left) == p2 and try_fold(n.right) == (True, '-of'):
            add = n
    if strip is None or add is None:
        rep.undecided(f'{ir.fq}: one branch strips -of and the other appends it', ir.loc(),
                      f'strip={norm(strip) if strip else None} append={norm(add) if add else None}')
    else:
        # the two rewrites sit in the two arms of one `if`
        n = strip
        owner = None
        while id(n) in pm:
            par = pm[id(n)]
            if isinstance(par, ast.If) and any(n is b or any(x is n for x in ast.walk(b)) for b in par.body) \
                    and any(any(x is add for x in ast.walk(b)) for b in par.orelse):
                owner = par
                break
            n = par
        if owner is None:
            raise AnalysisError('Model.invert_role: strip/append are not the two arms of one if statement')
        fm = bn.Abstractor(canon=_canon_role_atoms(p2)).formula(owner.test)

        def expand(f):
            if isinstance(f, tuple) and f[0] == 'atom' and f[1] == 'self.is_role_inverted(ROLE)':
                return inverted
            if isinstance(f, tuple) and f[0] == 'not':
                return bn.mk_not(expand(f[1]))
            if isinstance(f, tuple) and f[0] in ('and', 'or'):
                return (f[0], [expand(x) for x in f[1]])
            return f
        cond = expand(fm)
        d = bn.equivalent(cond, inverted)
        rep.add(f'{ir.fq}: strips -of exactly when the role is inverted, appends it otherwise', ir.loc(owner),
                'ok' if d is None else 'violation',
                bn.show(cond) if d is None else f'branch condition {bn.show(cond)} differs from is_role_inverted '
                                                f'({bn.show(inverted)}) for {d}')
    # deinvert: inverts iff is_role_inverted(triple[1])
    for cls_fq in ('Model',):
        de = repo.func(M, f'{cls_fq}.deinvert')
        tp = de.positional[1]
        cfg = CFG(de.node)
        IN = cond_facts(cfg)
        pm = repo.parent_map(de.node)
        inv_calls = [c for c, ts in ctx.cg.calls_in(de) if any(t.kind == 'func' and t.func.qualname.endswith('.invert') for t in ts)]
        good = False
        for c in inv_calls:
            facts = facts_at(cfg, IN, pm, c)
            if (f'self.is_role_inverted({tp}[1])', True) in facts and len(c.args) == 1 and norm(c.args[0]) == tp:
                good = True
        rep.add(f'{de.fq}: inverts exactly when is_role_inverted(triple[1])', de.loc(), 'ok' if good else 'undecided',
                '' if good else 'no call of self.invert(triple) guarded by self.is_role_inverted(triple[1])')
        in_loop = False
        for c in inv_calls:
            n = c
            while id(n) in pm:
                n = pm[id(n)]
                if isinstance(n, (ast.While, ast.For)):
                    in_loop = True
        rep.add(f'{de.fq}: a triple is deinverted once, not repeatedly', de.loc(), 'violation' if in_loop else 'ok',
                'the inversion sits in a loop: an over-inverted role (:ARG0-of-of) is deinverted twice, which the documented '
                'reading forbids (only canonicalisation removes pairs of inversions)' if in_loop else '')
        rets = [n for n in walk_local(de.node) if isinstance(n, ast.Return)]
        rep.add(f'{de.fq}: returns the (possibly inverted) triple', de.loc(),
                'ok' if rets and all(r.value is not None and norm(r.value) == tp for r in rets) else 'undecided')
    # has_role
    hr = repo.func(M, 'Model.has_role')
    p3 = hr.positional[1]

    def canon3(s):
        return _canon_role_atoms(p3)(s.replace(f'{p3}[:-3]', 'BASE'))
    f = bn.Abstractor(canon=canon3).formula(_ret_expr(ctx, hr))
    want = bn.mk_or([HAS, bn.mk_and([ENDS, ('atom', 'self._has_role(BASE)')])])
    d = bn.equivalent(f, want)
    rep.add(f'{hr.fq}: defined directly or as a single inversion of a defined role', hr.loc(), 'ok' if d is None else 'violation',
            bn.show(f) if d is None else f'is {bn.show(f)}; differs for {d}')
    # _has_role is a full match of the role regex
    h = repo.func(M, 'Model._has_role')
    src = norm(_ret_expr(ctx, h))
    rep.add(f'{h.fq}: membership is a match of the anchored role pattern', h.loc(),
            'ok' if src in ('self._role_re.match(role) is not None', 'self._role_re.fullmatch(role) is not None',
                            'bool(self._role_re.match(role))') else 'undecided', src)
    init = repo.func(M, 'Model.__init__')
    pat = None
    for n in walk_local(init.node):
        if isinstance(n, ast.Assign) and norm(n.targets[0]) == 'self._role_re':
            pat = n.value
    okp = False
    if isinstance(pat, ast.Call) and pat.args:
        a = pat.args[0]
        if isinstance(a, ast.Call) and isinstance(a.func, ast.Attribute) and a.func.attr == 'format' \
                and try_fold(a.func.value) == (True, '^({})$'):
            j = a.args[0] if a.args else None
            if isinstance(j, ast.Call) and isinstance(j.func, ast.Attribute) and j.func.attr == 'join' \
                    and try_fold(j.func.value) == (True, '|'):
                inner = norm(j.args[0]) if j.args else ''
                okp = 'self.roles' in inner and 'top_role' in inner and 'concept_role' in inner
    rep.add(f'{init.fq}: the role pattern is ^(alternatives of all roles, top role, concept role)$', init.loc(),
            'ok' if okp else 'undecided', norm(pat)[:100] if pat is not None else 'no pattern')
    return rep


@rule('R40', 'Model.errors tests the role of every triple and reports unreachable triples in a fixed order')
def r40(ctx: Ctx) -> RuleReport:
    rep = RuleReport('R40', r40.title, floor=4)
    fi = ctx.repo.func(M, 'Model.errors')
    gp = fi.positional[1]
    cfg = CFG(fi.node)
    IN = cond_facts(cfg)
    pm = ctx.repo.parent_map(fi.node)
    loop = None
    for n in walk_local(fi.node):
        if isinstance(n, ast.For) and norm(n.iter) == f'{gp}.triples':
            loop = n
            break
    if loop is None:
        rep.undecided(f'{fi.fq}: loop over all of graph.triples', fi.loc(), 'no `for ... in graph.triples` loop (a slice or a filtered list skips triples)')
        return rep
    rep.ok(f'{fi.fq}: loop over all of graph.triples', fi.loc(loop))
    head = cfg.node_of(loop)
    tests = [nd for nd in cfg.nodes if nd.kind == 'cond' and 'self.has_role(' in norm(nd.ast)
             and any(x is nd.ast for x in ast.walk(loop))]
    if len(tests) != 1:
        rep.undecided(f'{fi.fq}: one role test per triple', fi.loc(loop), f'{len(tests)} has_role tests in the loop')
        return rep
    t = tests[0]
    path = cfg.path_avoiding([(head, 'T')], {head, cfg.exit, cfg.rexit}, lambda nd: nd.id == t.id)
    rep.add(f'{fi.fq}: the role test runs on every iteration', fi.loc(t.ast), 'violation' if path else 'ok',
            'an iteration can finish without testing the role: ' + ' -> '.join(repr(cfg.nodes[p]) for p in path) if path else '')
    # the role tested is slot 1 of the loop's triple
    call = t.ast if isinstance(t.ast, ast.Call) else next(x for x in ast.walk(t.ast) if isinstance(x, ast.Call) and norm(x.func) == 'self.has_role')
    arg = call.args[0] if call.args else None
    tv = loop.target.id if isinstance(loop.target, ast.Name) else None
    role_ok = False
    if isinstance(arg, ast.Subscript) and tv and norm(arg) == f'{tv}[1]':
        role_ok = True
    if isinstance(arg, ast.Name):
        for n in ast.walk(loop):
            if isinstance(n, ast.Assign) and isinstance(n.targets[0], ast.Tuple) and len(n.targets[0].elts) == 3 \
                    and isinstance(n.value, ast.Name) and n.value.id == tv and norm(n.targets[0].elts[1]) == arg.id:
                role_ok = True
    rep.add(f'{fi.fq}: the tested role is the role of the triple', fi.loc(call), 'ok' if role_ok else 'undecided', norm(call))
    # the message is recorded under the triple when (and only when) the test fails
    apps = [n for n in ast.walk(loop) if isinstance(n, ast.Call) and isinstance(n.func, ast.Attribute) and n.func.attr == 'append'
            and n.args and try_fold(n.args[0]) == (True, 'invalid role')]
    good = False
    for a in apps:
        facts = facts_at(cfg, IN, pm, a)
        if (norm(call), False) in facts and tv and norm(a.func.value).endswith(f'[{tv}]'):
            good = True
    rep.add(f'{fi.fq}: "invalid role" is recorded for the triple exactly when has_role fails', fi.loc(loop),
            'ok' if good else 'undecided')
    # unreachable: sorted iteration (R13 classifies it), messages per triple of the unreachable variable
    apps2 = [n for n in walk_local(fi.node) if isinstance(n, ast.Call) and isinstance(n.func, ast.Attribute)
             and n.func.attr == 'append' and n.args and try_fold(n.args[0]) == (True, 'unreachable')]
    rep.add(f'{fi.fq}: "unreachable" is recorded per triple', fi.loc(), 'ok' if apps2 else 'undecided')
    # _dfs: adjacency restricted to variables of the graph, made symmetric
    dfs = ctx.repo.func(M, '_dfs')
    gparam = dfs.positional[0]
    restricted = False
    for n in walk_local(dfs.node):
        if isinstance(n, (ast.SetComp, ast.GeneratorExp, ast.ListComp)):
            for g in n.generators:
                if any(norm(c) in (f'target in {gparam}', f'tgt in {gparam}') or (isinstance(c, ast.Compare) and isinstance(c.ops[0], ast.In)
                       and norm(c.comparators[0]) == gparam) for c in g.ifs):
                    restricted = True
    rep.add(f'{dfs.fq}: only targets that are variables of the graph become neighbours', dfs.loc(),
            'ok' if restricted else 'undecided',
            '' if restricted else 'constants are treated as nodes: two components sharing a constant would count as connected')
    sym = any(isinstance(n, ast.Call) and isinstance(n.func, ast.Attribute) and n.func.attr == 'add'
              and isinstance(n.func.value, ast.Subscript) for n in walk_local(dfs.node))
    rep.add(f'{dfs.fq}: edges are made bidirectional', dfs.loc(), 'ok' if sym else 'undecided')
    return rep


@rule('R23model', 'invert swaps source and target; the no-op model never deinverts; sort keys as documented')
def r23model(ctx: Ctx) -> RuleReport:
    rep = RuleReport('R23model', r23model.title, floor=5)
    repo = ctx.repo
    inv = repo.func(M, 'Model.invert')
    tp = inv.positional[1]
    ret = _ret_expr(ctx, inv)
    good = False
    if isinstance(ret, ast.Tuple) and len(ret.elts) == 3:
        parts = [single_def(ctx, inv, e) for e in ret.elts]
        # unpacking: source, role, target = triple
        unpack = None
        for n in walk_local(inv.node):
            if isinstance(n, ast.Assign) and isinstance(n.targets[0], ast.Tuple) and len(n.targets[0].elts) == 3 \
                    and norm(n.value) == tp:
                unpack = [norm(e) for e in n.targets[0].elts]

        def slot(e):
            e0 = e
            while isinstance(e0, ast.Call) and norm(e0.func) in ('cast', 'typing.cast') and len(e0.args) == 2:
                e0 = single_def(ctx, inv, e0.args[1])
            if isinstance(e0, ast.Subscript) and norm(e0.value) == tp and isinstance(e0.slice, ast.Constant):
                return e0.slice.value
            if isinstance(e0, ast.Name) and unpack and e0.id in unpack:
                # a name re-bound from itself through cast keeps its slot
                return unpack.index(e0.id)
            return None
        s0, s2 = slot(ret.elts[0]), slot(ret.elts[2])
        mid = single_def(ctx, inv, ret.elts[1])
        mid_ok = isinstance(mid, ast.Call) and norm(mid.func) == 'self.invert_role' and len(mid.args) == 1 \
            and slot(mid.args[0]) == 1
        # `target = cast(Variable, target)` re-binds target: follow flow-insensitively by name
        if s0 is None and isinstance(ret.elts[0], ast.Name) and unpack and ret.elts[0].id in unpack:
            s0 = unpack.index(ret.elts[0].id)
        if s2 is None and isinstance(ret.elts[2], ast.Name) and unpack and ret.elts[2].id in unpack:
            s2 = unpack.index(ret.elts[2].id)
        good = (s0, s2) == (2, 0) and mid_ok
    rep.add(f'{inv.fq}: returns (target, invert_role(role), source)', inv.loc(), 'ok' if good else 'undecided', norm(ret))
    noop = repo.func('penman.models.noop', 'NoOpModel.deinvert')
    r = _ret_expr(ctx, noop)
    rep.add(f'{noop.fq}: returns its argument unchanged', noop.loc(),
            'ok' if isinstance(r, ast.Name) and r.id == noop.positional[1] and not ctx.cg.local_assigns(noop).get(r.id) else 'undecided', norm(r))
    nm = repo.cls('penman.models.noop', 'NoOpModel')
    extra = sorted(set(nm.methods) - {'deinvert'})
    rep.add('penman.models.noop:NoOpModel overrides deinvert only', nm.module.relpath, 'ok' if not extra else 'info',
            f'also overrides {extra}' if extra else '')
    # alphanumeric_order: (name, int(digits))
    an = repo.func(M, 'Model.alphanumeric_order')
    ints = [n for n in walk_local(an.node) if isinstance(n, ast.Call) and isinstance(n.func, ast.Name) and n.func.id == 'int']
    rx = [n for n in walk_local(an.node) if isinstance(n, ast.Call) and norm(n.func) == 're.match']
    pat_ok = bool(rx) and try_fold(rx[0].args[0]) == (True, r'(.*\D)(\d+)$')
    rep.add(f'{an.fq}: numeric suffix is compared as an integer', an.loc(), 'ok' if ints and pat_ok else 'undecided',
            '' if ints and pat_ok else 'suffix not split by (.*\\D)(\\d+)$ and converted with int()')
    r = _ret_expr(ctx, an)
    rn = [norm(single_def(ctx, an, e)) for e in r.elts] if isinstance(r, ast.Tuple) else []
    rep.add(f'{an.fq}: key is (name, number)', an.loc(), 'ok' if len(rn) == 2 else 'undecided', str(rn))
    co = repo.func(M, 'Model.canonical_order')
    r = _ret_expr(ctx, co)
    good = isinstance(r, ast.Tuple) and len(r.elts) == 2 and norm(r.elts[0]) == f'self.is_role_inverted({co.positional[1]})' \
        and norm(r.elts[1]) == f'self.alphanumeric_order({co.positional[1]})'
    rep.add(f'{co.fq}: key is (is_role_inverted, alphanumeric_order): inverted roles last', co.loc(),
            'ok' if good else 'undecided', norm(r))
    oo = repo.func(M, 'Model.original_order')
    r = _ret_expr(ctx, oo)
    rep.add(f'{oo.fq}: constant key (stable sort keeps the order)', oo.loc(), 'ok' if isinstance(r, ast.Constant) else 'undecided')
    return rep


@rule('R24m', 'canonicalize_role: colon, then inversion normalisation, then the normalisation table (last)')
def r24m(ctx: Ctx) -> RuleReport:
    rep = RuleReport('R24m', r24m.title, floor=3)
    fi = ctx.repo.func(M, 'Model.canonicalize_role')
    p = fi.positional[1]
    cfg = CFG(fi.node)
    pm = ctx.repo.parent_map(fi.node)
    colon = inv = normz = None
    for n in walk_local(fi.node):
        if isinstance(n, ast.Assign) and norm(n.targets[0]) == p:
            v = n.value
            if isinstance(v, ast.BinOp) and try_fold(v.left) == (True, ':') and norm(v.right) == p:
                colon = n
            elif isinstance(v, ast.Call) and norm(v.func) == 'self._canonicalize_inversion' and norm(v.args[0]) == p:
                inv = n
            elif isinstance(v, ast.Call) and norm(v.func) == 'self.normalizations.get' and len(v.args) == 2 \
                    and norm(v.args[0]) == p and norm(v.args[1]) == p:
                normz = n
    for nm, st in (('adds the colon', colon), ('normalises inversions', inv), ('looks the result up in the normalisation table', normz)):
        rep.add(f'{fi.fq}: {nm}', fi.loc(st) if st else fi.loc(), 'ok' if st is not None else 'undecided',
                '' if st is not None else 'step not found in the accepted form `role = <step>(role)`')
    if colon is not None and inv is not None and normz is not None:
        nc, ni, nn = cfg.node_of(colon), cfg.node_of(inv), cfg.node_of(normz)
        # order on every path; the table lookup is last: nothing re-binds role after it, and every
        # path to the return passes inversion normalisation and then the lookup
        after = cfg.reachable_from([nn])
        bad = [nd for nd in after if nd not in (nn,) and cfg.nodes[nd].kind == 'stmt' and p in __import__('pv.cfg', fromlist=['assigned_names']).assigned_names(cfg.nodes[nd].ast)]
        rep.add(f'{fi.fq}: the table lookup is applied last', fi.loc(normz), 'violation' if bad or ni in after or nc in after else 'ok',
                'role is rewritten after the normalisation lookup' if bad or ni in after or nc in after else '')
        skip = cfg.path_avoiding([(cfg.entry, None)], {cfg.exit}, lambda nd: nd.id == ni)
        rep.add(f'{fi.fq}: every role goes through inversion normalisation', fi.loc(inv), 'violation' if skip else 'ok',
                'a path reaches the return without normalising inversions' if skip else '')
        skip2 = cfg.path_avoiding([(ni, None)], {cfg.exit}, lambda nd: nd.id == nn)
        rep.add(f'{fi.fq}: the normalised-inversion role is what is looked up', fi.loc(normz), 'violation' if skip2 else 'ok',
                'a path from inversion normalisation reaches the return without the table lookup' if skip2 else '')
    rets = [n for n in walk_local(fi.node) if isinstance(n, ast.Return)]
    rep.add(f'{fi.fq}: returns the rewritten role', fi.loc(), 'ok' if all(r.value is not None and norm(r.value) == p for r in rets) else 'undecided')
    # _canonicalize_inversion: removes -of in pairs (invert twice), loops to a fixpoint
    ci = ctx.repo.func(M, 'Model._canonicalize_inversion')
    calls = [n for n in walk_local(ci.node) if isinstance(n, ast.Call)]
    invs = [c for c in calls if norm(single_def(ctx, ci, c.func)) in ('self.invert_role', 'invert')]
    rep.add(f'{ci.fq}: each round applies invert_role twice (inversions go in pairs)', ci.loc(),
            'ok' if len(invs) == 2 else 'undecided', f'{len(invs)} invert_role applications per round')
    return rep
