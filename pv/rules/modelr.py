"""Model rules: R28 (suffix/slice agreement), R29 (sibling predicates), R40 (every triple is
role-checked), R23model (provenance in invert / deinvert / sort keys), R24m (canonicalize_role order).

The recognisers work on expanded expressions (single-definition locals are inlined) and on path
conditions, so guard-clause / if-else / conditional-expression layouts are equivalent.  A construct
that is not recognised is `undecided`; violations carry a witness."""
from __future__ import annotations

import ast
import re as _re
from typing import Dict, List, Set

from .. import boolnorm as bn
from ..cfg import CFG
from ..core import Ctx, RuleReport, rule
from ..resolve import bool_function_formula, condition_of, expand, facts_ex, local_callees, unique_def, view
from ..src import AnalysisError, FuncInfo, norm, try_fold, walk_local
from .lexical import single_def

M = 'penman.model'
HAS = ('atom', 'self._has_role(ROLE)')
ENDS = ('atom', "ROLE.endswith('-of')")


def _canon(param: str):
    pat = _re.compile(r'\b' + _re.escape(param) + r'\b')

    def canon(s: str) -> str:
        return pat.sub('ROLE', s)
    return canon


def _implied_suffixes(ctx: Ctx, fi: FuncInfo, n: ast.AST, base: str) -> List[str]:
    """Literal suffixes L such that `base.endswith(L)` is known to hold where `n` is evaluated."""
    lits = []
    for f, pol in facts_ex(ctx, fi, n):
        if pol and f.startswith(f'{base}.endswith('):
            e = ast.parse(f, mode='eval').body
            okl, lit = try_fold(e.args[0], {}, ctx.repo, fi.module) if e.args else (False, None)
            if okl and isinstance(lit, str):
                lits.append(lit)
    if lits:
        return lits
    # guard-clause layout: `if ... or not x.endswith(lit): return ...` precedes the slice
    try:
        cond = condition_of(ctx, fi, n)
    except AnalysisError:
        return lits
    for a in bn.atoms_of(cond):
        if a.startswith(f'{base}.endswith('):
            e = ast.parse(a, mode='eval').body
            okl, lit = try_fold(e.args[0], {}, ctx.repo, fi.module) if e.args else (False, None)
            if okl and isinstance(lit, str) and bn.equivalent(bn.mk_and([cond, bn.mk_not(('atom', a))]), False) is None:
                lits.append(lit)
    return lits


@rule('R28', 'x.endswith(LIT) guards x[:-N] only with N == len(LIT); the -of suffix is never cut by partition/replace/strip')
def r28(ctx: Ctx) -> RuleReport:
    rep = RuleReport('R28', r28.title, floor=2)
    for fi in ctx.repo.all_functions():
        for n in walk_local(fi.node):
            if isinstance(n, ast.Subscript) and isinstance(n.slice, ast.Slice) and n.slice.lower is None \
                    and n.slice.step is None and n.slice.upper is not None:
                ok, v = try_fold(n.slice.upper, {}, ctx.repo, fi.module)
                if not (ok and isinstance(v, int) and v < 0):
                    continue
                k = -v
                lits = _implied_suffixes(ctx, fi, n, norm(n.value))
                if not lits:
                    continue
                key = f'{fi.module.name}:{fi.qualname}: {norm(n)} under endswith({lits[0]!r})'
                good = all(len(l) == k for l in lits)
                rep.add(key, fi.loc(n), 'ok' if good else 'violation',
                        '' if good else f'strips {k} characters after testing for the {len(lits[0])}-character suffix {lits[0]!r}')
            if fi.module.name == M and isinstance(n, ast.Call) and isinstance(n.func, ast.Attribute) \
                    and n.func.attr in ('partition', 'replace', 'split', 'rstrip', 'strip', 'removesuffix', 'rpartition', 'rsplit') \
                    and n.args and try_fold(n.args[0], {}, ctx.repo, fi.module) == (True, '-of') and n.func.attr not in ('removesuffix', 'rpartition', 'rsplit'):
                rep.violation(f'{fi.module.name}:{fi.qualname}: {norm(n)}', fi.loc(n),
                              f'.{n.func.attr}("-of") does not remove the final "-of": partition/split/replace cut at the first (or every) '
                              f'occurrence and strip removes a character set, so roles like :consist-of-of or :hand-off-of are mangled')
    return rep


def _ret_stmts(fi: FuncInfo) -> List[ast.Return]:
    return [n for n in walk_local(fi.node) if isinstance(n, ast.Return) and n.value is not None]


def _template_pieces(ctx: Ctx, fi: FuncInfo, e: ast.AST, at: ast.AST, depth: int = 0):
    """String-building expression -> [('lit', s) | ('join', sep, source of the joined list) | ('expr', src)]"""
    if depth > 6:
        return [('expr', norm(e))]
    if isinstance(e, ast.Constant) and isinstance(e.value, str):
        return [('lit', e.value)]
    if isinstance(e, ast.Name):
        d = unique_def(view(ctx, fi), e.id, at)
        if d is not None:
            return _template_pieces(ctx, fi, d, d, depth + 1)
        return [('expr', e.id)]
    if isinstance(e, ast.JoinedStr):
        out = []
        for x in e.values:
            if isinstance(x, ast.Constant):
                out.append(('lit', x.value))
            else:
                out += _template_pieces(ctx, fi, x.value, at, depth + 1)
        return out
    if isinstance(e, ast.BinOp) and isinstance(e.op, ast.Add):
        return _template_pieces(ctx, fi, e.left, at, depth + 1) + _template_pieces(ctx, fi, e.right, at, depth + 1)
    if isinstance(e, ast.Call) and isinstance(e.func, ast.Attribute) and e.func.attr == 'format' and not e.keywords:
        ok, fmt = try_fold(e.func.value)
        if ok and isinstance(fmt, str):
            parts = fmt.split('{}')
            if len(parts) == len(e.args) + 1:
                out = []
                for i, lit in enumerate(parts):
                    if lit:
                        out.append(('lit', lit))
                    if i < len(e.args):
                        out += _template_pieces(ctx, fi, e.args[i], at, depth + 1)
                return out
    if isinstance(e, ast.Call) and isinstance(e.func, ast.Attribute) and e.func.attr == 'join' and len(e.args) == 1:
        ok, sep = try_fold(e.func.value)
        if ok and isinstance(sep, str):
            lst = expand(ctx, fi, e.args[0], at)
            return [('join', sep, norm(lst))]
    return [('expr', norm(e))]


def _anc(pm, node):
    n = node
    while id(n) in pm:
        n = pm[id(n)]
        yield n


def _inverted_formula(ctx: Ctx):
    iri = ctx.repo.func(M, 'Model.is_role_inverted')
    return iri, bool_function_formula(ctx, iri, canon=_canon(iri.positional[1]))


@rule('R29', 'is_role_inverted, invert_role, deinvert and has_role agree on what an inverted role is')
def r29(ctx: Ctx) -> RuleReport:
    rep = RuleReport('R29', r29.title, floor=4)
    repo = ctx.repo
    try:
        iri, inverted = _inverted_formula(ctx)
    except AnalysisError as exc:
        iri = repo.func(M, 'Model.is_role_inverted')
        rep.undecided(f'{iri.fq}: boolean function', iri.loc(), str(exc))
        return rep
    want = bn.mk_and([bn.mk_not(HAS), ENDS])
    known = set(bn.atoms_of(inverted)) <= {HAS[1], ENDS[1]}
    d = bn.equivalent(inverted, want)
    rep.add(f'{iri.fq}: inverted iff not defined by the model and ends in -of', iri.loc(),
            'ok' if d is None else ('violation' if known else 'undecided'),
            bn.show(inverted) if d is None else f'is {bn.show(inverted)}; differs from `not has and endswith(-of)` for {d}')
    # invert_role: strips exactly when inverted, appends otherwise
    ir = repo.func(M, 'Model.invert_role')
    p2 = ir.positional[1]
    strip = add = None
    for n in walk_local(ir.node):
        if isinstance(n, ast.Subscript) and isinstance(n.slice, ast.Slice) and norm(n.value) == p2 and n.slice.upper is not None:
            strip = n
        if isinstance(n, ast.BinOp) and isinstance(n.op, ast.Add) and norm(n.left) == p2 and try_fold(n.right) == (True, '-of'):
            add = n
    if strip is None or add is None:
        rep.undecided(f'{ir.fq}: one branch strips -of and the other appends it', ir.loc(),
                      f'strip={norm(strip) if strip else None} append={norm(add) if add else None}')
    else:
        def expand_call(f):
            if isinstance(f, tuple) and f[0] == 'atom' and f[1] == 'self.is_role_inverted(ROLE)':
                return inverted
            if isinstance(f, tuple) and f[0] == 'not':
                return bn.mk_not(expand_call(f[1]))
            if isinstance(f, tuple) and f[0] in ('and', 'or'):
                return (f[0], [expand_call(x) for x in f[1]])
            return f
        try:
            cs = expand_call(condition_of(ctx, ir, strip, canon=_canon(p2)))
            ca = expand_call(condition_of(ctx, ir, add, canon=_canon(p2)))
        except AnalysisError as exc:
            rep.undecided(f'{ir.fq}: branch conditions', ir.loc(), str(exc))
            cs = ca = None
        if cs is not None:
            known = set(bn.atoms_of(cs)) | set(bn.atoms_of(ca)) <= {HAS[1], ENDS[1]}
            d1 = bn.equivalent(cs, inverted)
            d2 = bn.equivalent(ca, bn.mk_not(inverted))
            rep.add(f'{ir.fq}: strips -of exactly when the role is inverted', ir.loc(strip),
                    'ok' if d1 is None else ('violation' if known else 'undecided'),
                    bn.show(cs) if d1 is None else f'strips when {bn.show(cs)}; is_role_inverted is {bn.show(inverted)}; they differ for {d1}')
            rep.add(f'{ir.fq}: appends -of exactly when the role is not inverted', ir.loc(add),
                    'ok' if d2 is None else ('violation' if known else 'undecided'),
                    bn.show(ca) if d2 is None else f'appends when {bn.show(ca)}; differs from `not inverted` for {d2}')
    # shipped subclasses: a sibling predicate that is overridden must still agree with the ones it inherits
    base = repo.cls(M, 'Model')
    for sub in repo.subclasses(base):
        for name, fn in sorted(sub.methods.items()):
            if name not in ('is_role_inverted', 'invert_role', 'has_role', '_has_role', 'invert'):
                continue
            key = f'{fn.fq}: overrides a predicate that Model.{"invert_role" if name != "invert_role" else "is_role_inverted"} relies on'
            if name == 'is_role_inverted':
                try:
                    f2 = bool_function_formula(ctx, fn, canon=_canon(fn.positional[1]))
                except AnalysisError as exc:
                    rep.undecided(key, fn.loc(), str(exc))
                    continue
                d3 = bn.equivalent(f2, inverted)
                if d3 is None:
                    rep.ok(key, fn.loc(), bn.show(f2))
                elif set(bn.atoms_of(f2)) <= {HAS[1], ENDS[1]}:
                    rep.violation(key, fn.loc(), f'{sub.name}.is_role_inverted is `{bn.show(f2)}` while the invert_role it inherits strips -of exactly when '
                                  f'`{bn.show(inverted)}` (differs for {d3}): under this model inverting a role no longer flips is_role_inverted, and '
                                  f'sort keys / deinversion built on it disagree with invert_role')
                else:
                    rep.undecided(key, fn.loc(), bn.show(f2))
            else:
                rep.undecided(key, fn.loc(), 'an override of this method is not analysed')
    # deinvert
    de = repo.func(M, 'Model.deinvert')
    tp = de.positional[1]
    inv_calls = [c for c, ts in ctx.cg.calls_in(de) if any(t.kind == 'func' and t.func.qualname.endswith('.invert') for t in ts)]
    pm = repo.parent_map(de.node)
    if not inv_calls:
        rep.undecided(f'{de.fq}: inverts through self.invert', de.loc(), 'no call of self.invert(...)')
    for c in inv_calls:
        in_loop = any(isinstance(a, (ast.While, ast.For)) for a in _anc(pm, c))
        rep.add(f'{de.fq}: a triple is deinverted once, not repeatedly', de.loc(c), 'violation' if in_loop else 'ok',
                'the inversion sits in a loop: an over-inverted role (:ARG0-of-of) is deinverted twice, which the documented '
                'reading forbids (only canonicalisation removes pairs of inversions)' if in_loop else '')
        if in_loop:
            continue
        try:
            cond = condition_of(ctx, de, c)
        except AnalysisError as exc:
            rep.undecided(f'{de.fq}: condition of the inversion', de.loc(c), str(exc))
            continue
        inv_atom = ('atom', f'self.is_role_inverted({tp}[1])')
        d = bn.equivalent(cond, inv_atom)
        stronger = d is not None and inv_atom[1] in bn.atoms_of(cond) and bn.equivalent(bn.mk_and([cond, bn.mk_not(inv_atom)]), False) is None
        rep.add(f'{de.fq}: inverts exactly when is_role_inverted(triple[1])', de.loc(c),
                'ok' if d is None else ('violation' if stronger else 'undecided'),
                bn.show(cond) if not stronger else f'the triple is deinverted only when {bn.show(cond)}: with {d} an inverted triple is returned unchanged, so '
                                                   f'deinverting is no longer the same as inverting it')
        rep.add(f'{de.fq}: the whole triple is inverted', de.loc(c), 'ok' if len(c.args) == 1 and norm(c.args[0]) == tp else 'undecided')
    # has_role
    hr = repo.func(M, 'Model.has_role')
    p3 = hr.positional[1]

    def canon3(s):
        return _canon(p3)(s.replace(f'{p3}[:-3]', 'BASE'))
    try:
        f = bool_function_formula(ctx, hr, canon=canon3)
        want = bn.mk_or([HAS, bn.mk_and([ENDS, ('atom', 'self._has_role(BASE)')])])
        known = set(bn.atoms_of(f)) <= {HAS[1], ENDS[1], 'self._has_role(BASE)'}
        d = bn.equivalent(f, want)
        recursive = [a for a in bn.atoms_of(f) if a.replace(' ', '') in ('self.has_role(BASE)', f'self.{hr.name}(BASE)')]
        if d is not None and recursive:
            rep.violation(f'{hr.fq}: defined directly or as a single inversion of a defined role', hr.loc(),
                          f'the role without its -of is tested with {hr.name} itself ({bn.show(f)}): the test recurses, so ANY number of -of suffixes on a defined role is accepted '
                          f'(":ARG0-of-of-of") - Model.errors then reports no "invalid role" for a role that is valid only after several de-inversions')
        else:
            rep.add(f'{hr.fq}: defined directly or as a single inversion of a defined role', hr.loc(),
                    'ok' if d is None else ('violation' if known else 'undecided'),
                    bn.show(f) if d is None else f'is {bn.show(f)}; differs for {d}')
    except AnalysisError as exc:
        rep.undecided(f'{hr.fq}: boolean function', hr.loc(), str(exc))
    # membership: an anchored pattern of all role alternatives, matched as a whole
    h = repo.func(M, 'Model._has_role')
    rets = _ret_stmts(h)
    src = norm(expand(ctx, h, rets[0].value, rets[0])) if len(rets) == 1 else ''
    full = 'fullmatch(' in src
    uses_match = '.match(' in src or full
    rep.add(f'{h.fq}: membership is a match of the role pattern', h.loc(), 'ok' if uses_match and '_role_re' in src else 'undecided', src[:80])
    init = repo.func(M, 'Model.__init__')
    pat = None
    for n in walk_local(init.node):
        if isinstance(n, ast.Assign) and norm(n.targets[0]) == 'self._role_re':
            pat = n
    if pat is None or not (isinstance(pat.value, ast.Call) and pat.value.args):
        # one compiled pattern per role instead of one alternation?
        pmi = repo.parent_map(init.node)
        for c in walk_local(init.node):
            if not (isinstance(c, ast.Call) and norm(c.func) in ('re.compile', 'compile') and c.args):
                continue
            lp = next((a for a in _anc(pmi, c) if isinstance(a, (ast.For, ast.comprehension, ast.ListComp, ast.GeneratorExp))), None)
            gens = [lp] if isinstance(lp, (ast.For, ast.comprehension)) else (lp.generators if lp is not None else [])
            for g_ in gens:
                if not (isinstance(g_.target, ast.Name) and all(w in norm(g_.iter) for w in ('roles', 'top_role', 'concept_role'))):
                    continue
                try:
                    pieces = _template_pieces(ctx, init, c.args[0], c)
                except AnalysisError:
                    continue
                idx = [i for i, x in enumerate(pieces) if x[0] != 'lit']
                if len(idx) != 1:
                    continue
                before = ''.join(x[1] for x in pieces[:idx[0]])
                after = ''.join(x[1] for x in pieces[idx[0] + 1:])
                key = f'{init.fq}: each role pattern is grouped and anchored so that a role matches as a whole'
                grouped = (before.endswith('(') or before.endswith('(?:')) and after.startswith(')')
                if grouped and (after.endswith('$') or full):
                    rep.ok(key, init.loc(c), f'{before}<pattern>{after}')
                elif not grouped and ('^' in before or '$' in after):
                    rep.violation(key, init.loc(c), f'every key of the role inventory is compiled as {before!r} + key + {after!r}: the key is a regular expression and may hold a '
                                  f'top-level alternation - for ":ARG[0-9]|:op[0-9]+" the anchors then bind to the outer alternatives only ("^:ARG[0-9]" or ":op[0-9]+$"), so '
                                  f'":ARG0-of" counts as a role the model defines: it is neither recognised as inverted nor deinverted. The single pattern it replaces '
                                  f'wrapped all alternatives in one group')
                else:
                    rep.undecided(key, init.loc(c), f'{before!r} + key + {after!r}')
                return rep
        rep.undecided(f'{init.fq}: the role pattern', init.loc(), 'no assignment self._role_re = re.compile(...)')
        return rep
    pieces = _template_pieces(ctx, init, pat.value.args[0], pat)
    joins = [x for x in pieces if x[0] == 'join']
    first, last = pieces[0], pieces[-1]
    alts = len(joins) == 1 and joins[0][1] == '|' and all(w in joins[0][2] for w in ('roles', 'top_role', 'concept_role'))
    key = f'{init.fq}: the role pattern joins all role patterns, the top role and the concept role with |'
    wrongvar = None
    if len(joins) == 1 and not alts:
        for prm, const in (('concept_role', 'CONCEPT_ROLE'), ('top_role', 'TOP_ROLE')):
            if prm in init.params and prm not in joins[0][2] and const in joins[0][2]:
                wrongvar = (prm, const)
    if wrongvar:
        rep.violation(key, init.loc(pat), f'the alternatives are {joins[0][2][:90]}: the module constant {wrongvar[1]} is used where the argument `{wrongvar[0]}` '
                      f'belongs, so a model built with its own {wrongvar[0]} does not define that role (":instance-of" would count as inverted)')
        return rep
    rep.add(key, init.loc(pat), 'ok' if alts else 'undecided', str(pieces)[:140])
    if alts:
        key = f'{init.fq}: alternatives are grouped and anchored so that a role matches as a whole'
        ji = pieces.index(joins[0])
        before = ''.join(x[1] for x in pieces[:ji] if x[0] == 'lit')
        after = ''.join(x[1] for x in pieces[ji + 1:] if x[0] == 'lit')
        only_lits = all(x[0] == 'lit' for x in pieces[:ji] + pieces[ji + 1:])
        grouped = before.endswith('(') and after.startswith(')')
        end_anchored = after.endswith('$') or full
        if not only_lits:
            rep.undecided(key, init.loc(pat), str(pieces)[:140])
        elif grouped and end_anchored:
            rep.ok(key, init.loc(pat), f'{before}...{after}')
        elif uses_match:
            rep.violation(key, init.loc(pat),
                          f'the pattern is {before!r} + alternatives + {after!r} and is used with match(): '
                          + ('without the group the anchors bind only to the first and last alternative' if not grouped else
                             'without the end anchor a role that merely starts with a defined role is accepted'))
        else:
            rep.undecided(key, init.loc(pat), str(pieces)[:140])
    return rep


@rule('R40', 'Model.errors tests the role of every triple and reports unreachable triples in a fixed order')
def r40(ctx: Ctx) -> RuleReport:
    rep = RuleReport('R40', r40.title, floor=4)
    fi = ctx.repo.func(M, 'Model.errors')
    gp = fi.positional[1]
    v = view(ctx, fi)
    cfg = v.cfg
    loop = None
    for n in walk_local(fi.node):
        if isinstance(n, ast.For) and norm(n.iter) == f'{gp}.triples':
            loop = n
            break
    if loop is None:
        rep.undecided(f'{fi.fq}: loop over all of graph.triples', fi.loc(), 'no `for ... in graph.triples` loop')
        return rep
    rep.ok(f'{fi.fq}: loop over all of graph.triples', fi.loc(loop))
    head = cfg.node_of(loop)
    # every normal return went through that loop, unless the graph has no triples at all
    empty = {(f'len({gp}.triples) == 0', True), (f'not {gp}.triples', True), (f'{gp}.triples', False), (f'len({gp}.triples)', False),
             (f'len({gp}.triples) > 0', False), (f'len({gp}.triples) != 0', False), (f'len({gp}.triples) < 1', True), (f'0 == len({gp}.triples)', True)}
    for nm, vals in ctx.cg.local_assigns(fi).items():
        if len(vals) == 1 and isinstance(vals[0], ast.AST) and norm(vals[0]) == f'{gp}.triples':
            empty |= {(f'len({nm}) == 0', True), (f'not {nm}', True), (nm, False), (f'len({nm}) > 0', False), (f'len({nm})', False)}
    seen, stack, skipped = set(), [(cfg.entry, [])], None
    while stack:
        n, path = stack.pop()
        if n in seen or n == head:
            continue
        seen.add(n)
        if n == cfg.exit:
            skipped = path
            break
        node = cfg.nodes[n]
        for m, lab in cfg.succ[n]:
            if lab == 'exc' or m == cfg.rexit:
                continue
            if node.kind == 'cond' and (norm(node.ast), lab == 'T') in empty:
                continue
            stack.append((m, path + ([f'{norm(node.ast)[:50]} is {lab}'] if node.kind == 'cond' else [])))
    rep.add(f'{fi.fq}: a report is only returned after the roles of all triples were tested (or for a graph without triples)', fi.loc(loop),
            'violation' if skipped is not None else 'ok',
            (f'Model.errors can return without having looked at the roles ({"; ".join(skipped) or "unconditionally"}): a graph with that problem and an '
             f'undefined role gets no "invalid role" entry, although the role is not defined by the model') if skipped is not None else '')
    tv = loop.target.id if isinstance(loop.target, ast.Name) else None
    role_names = set()
    if tv:
        role_names.add(f'{tv}[1]')
    for n in ast.walk(loop):
        if isinstance(n, ast.Assign) and isinstance(n.targets[0], ast.Tuple) and len(n.targets[0].elts) == 3 \
                and isinstance(n.value, ast.Name) and n.value.id == tv:
            role_names.add(norm(n.targets[0].elts[1]))
    if isinstance(loop.target, ast.Tuple) and len(loop.target.elts) == 3:
        role_names.add(norm(loop.target.elts[1]))
    calls = [n for n in ast.walk(loop) if isinstance(n, ast.Call) and (
        (isinstance(n.func, ast.Attribute) and n.func.attr == 'has_role') or
        (isinstance(n.func, ast.Name) and norm(single_def(ctx, fi, n.func)).endswith('.has_role')))]
    if not calls:
        rep.undecided(f'{fi.fq}: roles are tested with has_role', fi.loc(loop), 'no has_role call in the loop')
    for c in calls:
        a = c.args[0] if c.args else None
        key = f'{fi.fq}: the tested role is the role of the triple'
        if a is None:
            rep.undecided(key, fi.loc(c), norm(c))
            continue
        ax = expand(ctx, fi, a, c)
        if norm(a) in role_names or norm(ax) in role_names:
            rep.ok(key, fi.loc(c), norm(c))
        elif isinstance(ax, ast.Call) and any(norm(x) in role_names for x in ast.walk(ax) if isinstance(x, (ast.Name, ast.Subscript))):
            rep.violation(key, fi.loc(c),
                          f'has_role is asked about {norm(ax)[:60]}, a rewritten role, not the role the triple carries: a role that only '
                          f'becomes valid after rewriting (stacked -of, a non-canonical spelling) is no longer reported')
        else:
            rep.undecided(key, fi.loc(c), norm(c))
    # the per-source lists that the reachability report is read from are only created when missing
    for n in ast.walk(loop):
        if isinstance(n, ast.Assign) and isinstance(n.targets[0], ast.Subscript) and isinstance(n.value, (ast.List, ast.Call)) and norm(n.value) in ('[]', 'list()'):
            mp, kx = norm(n.targets[0].value), norm(n.targets[0].slice)
            fxr = facts_ex(ctx, fi, n)
            guarded = (f'{kx} not in {mp}', True) in fxr or (f'{kx} in {mp}', False) in fxr
            rep.add(f'{fi.fq}: `{norm(n)}` only creates the list of a source that has none yet', fi.loc(n), 'ok' if guarded else 'violation',
                    '' if guarded else f'the list of `{kx}` is emptied for every triple: only the last triple of each source is kept, so of an unreachable node only one triple is reported')
    call_srcs = {norm(c) for c in calls}
    tests = [nd for nd in cfg.nodes if nd.kind == 'cond' and ('.has_role(' in norm(nd.ast) or any(cs in norm(nd.ast) for cs in call_srcs))
             and any(x is nd.ast for x in ast.walk(loop))]
    if len(tests) == 1:
        t = tests[0]
        path = cfg.path_avoiding([(head, 'T')], {head, cfg.exit, cfg.rexit}, lambda nd: nd.id == t.id)
        rep.add(f'{fi.fq}: the role test runs on every iteration', fi.loc(t.ast), 'violation' if path else 'ok',
                'an iteration can finish without testing the role: ' + ' -> '.join(repr(cfg.nodes[p]) for p in path) if path else '')
        apps = [n for n in ast.walk(loop) if isinstance(n, ast.Call) and isinstance(n.func, ast.Attribute) and n.func.attr == 'append'
                and n.args and try_fold(n.args[0]) == (True, 'invalid role')]
        good = False
        call_src = norm(next(x for x in ast.walk(t.ast) if isinstance(x, ast.Call) and any(x is c for c in calls)))
        for a in apps:
            if (call_src, False) in facts_ex(ctx, fi, a) and tv and norm(a.func.value).endswith(f'[{tv}]'):
                good = True
        # a local reporter  def report(context, message): ...; err[context].append(message)
        reporters = set()
        for f_ in ctx.repo.all_functions():
            if f_.parent is fi and len(f_.positional) == 2:
                k_, m_ = f_.positional
                if any(isinstance(x, ast.Call) and isinstance(x.func, ast.Attribute) and x.func.attr == 'append' and len(x.args) == 1 and norm(x.args[0]) == m_
                       and ((isinstance(x.func.value, ast.Subscript) and norm(x.func.value.slice) == k_)
                            or (isinstance(x.func.value, ast.Call) and isinstance(x.func.value.func, ast.Attribute) and x.func.value.func.attr == 'setdefault'
                                and x.func.value.args and norm(x.func.value.args[0]) == k_)) for x in walk_local(f_.node)):
                    reporters.add(f_.name)
        for a in [n for n in ast.walk(loop) if isinstance(n, ast.Call) and isinstance(n.func, ast.Name) and n.func.id in reporters and len(n.args) == 2
                  and try_fold(n.args[1]) == (True, 'invalid role')]:
            if (call_src, False) in facts_ex(ctx, fi, a) and tv and norm(a.args[0]) == tv:
                good = True
        rep.add(f'{fi.fq}: "invalid role" is recorded for the triple exactly when has_role fails', fi.loc(loop), 'ok' if good else 'undecided')
    else:
        rep.undecided(f'{fi.fq}: one role test per triple', fi.loc(loop), f'{len(tests)} has_role conditions in the loop')
    # the per-source lists feed the reachability pass: a triple is filed there whatever the model says about its role
    for n in ast.walk(loop):
        if isinstance(n, ast.Call) and isinstance(n.func, ast.Attribute) and n.func.attr == 'append' and len(n.args) == 1 and tv and norm(n.args[0]) == tv:
            recv = n.func.value
            is_map = (isinstance(recv, ast.Subscript) and isinstance(recv.value, ast.Name)) or \
                     (isinstance(recv, ast.Call) and isinstance(recv.func, ast.Attribute) and recv.func.attr == 'setdefault')
            if not is_map or (isinstance(recv, ast.Subscript) and norm(recv.slice) == tv):
                continue   # err[triple].append(...) is the report, not the adjacency
            role_guard = sorted((c_, b_) for c_, b_ in facts_ex(ctx, fi, n) if 'has_role(' in c_)
            key = f'{fi.fq}: `{norm(n)[:50]}` files every triple under its source, whatever its role'
            if role_guard:
                c_, b_ = role_guard[0]
                rep.violation(key, fi.loc(n), f'the triple is only filed when `{c_}` is {b_}: the reachability pass then runs over a part of the graph, so a node whose '
                              f'only link to the top carries {"an undefined" if b_ else "a defined"} role is reported "unreachable" although it is connected (and an unconnected node '
                              f'whose triples all have such roles is not reported at all)')
            else:
                rep.ok(key, fi.loc(n))
    # the map tested by `graph.top not in <map>` is keyed by the sources of the triples only
    for n in walk_local(fi.node):
        if isinstance(n, ast.Compare) and len(n.ops) == 1 and isinstance(n.ops[0], (ast.In, ast.NotIn)) and norm(n.left) == f'{gp}.top' \
                and isinstance(n.comparators[0], ast.Name):
            mp = n.comparators[0].id
            key = f'{fi.fq}: `{norm(n)}` tests the top against the sources of the triples'
            feeds = []
            for x in walk_local(fi.node):
                if isinstance(x, (ast.Assign, ast.AnnAssign)) and x.value is not None:
                    tg = x.targets[0] if isinstance(x, ast.Assign) else x.target
                    if norm(tg) == mp:
                        for y in ast.walk(x.value):
                            if isinstance(y, ast.Call) and isinstance(y.func, ast.Attribute) and y.func.attr == 'variables':
                                feeds.append(('bad', x, norm(x.value)[:60]))
                            if isinstance(y, ast.Call) and isinstance(y.func, ast.Attribute) and y.func.attr in ('instances', 'edges', 'attributes') and norm(y.func.value) == gp:
                                feeds.append(('subset', x, norm(x.value)[:60]))
                        if isinstance(x.value, ast.Dict) and not x.value.keys or (isinstance(x.value, ast.Call) and norm(x.value.func) in ('dict', 'defaultdict')):
                            feeds.append(('empty', x, norm(x.value)[:40]))
                        elif not any(f[1] is x for f in feeds):
                            feeds.append(('unknown', x, norm(x.value)[:60]))
                    if isinstance(tg, ast.Subscript) and norm(tg.value) == mp:
                        k = norm(tg.slice)
                        feeds.append(('source' if any(k == r0 for r0 in _slot0_names(loop, tv)) else 'unknown', x, f'{mp}[{k}]'))
                if isinstance(x, ast.Call) and isinstance(x.func, ast.Attribute) and x.func.attr == 'setdefault' and norm(x.func.value) == mp and x.args:
                    k = norm(x.args[0])
                    feeds.append(('source' if any(k == r0 for r0 in _slot0_names(loop, tv)) else 'unknown', x, f'{mp}.setdefault({k}, ...)'))
            bad = [f for f in feeds if f[0] == 'bad']
            sub = [f for f in feeds if f[0] == 'subset']
            if sub:
                rep.violation(key, fi.loc(sub[0][1]), f'`{mp}` is built from `{sub[0][2]}`: only the sources of one kind of triple, not of all triples. A top that is the source of '
                              f'relations but has no triple of that kind (a node without an :instance triple in a hand-built graph) is reported as "top is not a variable in the '
                              f'graph" although it is one, and the reachability pass is skipped, so unreachable triples are not reported either')
            elif bad:
                rep.violation(key, fi.loc(bad[0][1]), f'`{mp}` is seeded from `{bad[0][2]}`; Graph.variables() contains an explicitly set top even when no triple '
                              f'has it as its source, so `{norm(n)}` can never report "top is not a variable in the graph" and every triple is '
                              f'reported unreachable instead')
            elif feeds and all(f[0] in ('source', 'empty') for f in feeds) and any(f[0] == 'source' for f in feeds):
                rep.ok(key, fi.loc(n), '; '.join(f[2] for f in feeds))
            else:
                rep.undecided(key, fi.loc(n), '; '.join(f'{f[0]}: {f[2]}' for f in feeds)[:160])
    reach = [f for f in local_callees(ctx, fi, depth=3) if f.module.name == M]
    apps2 = []
    for f in reach:
        apps2 += [n for n in walk_local(f.node) if isinstance(n, ast.Call) and isinstance(n.func, ast.Attribute)
                  and n.func.attr == 'append' and n.args and try_fold(n.args[0]) == (True, 'unreachable')]
    if not apps2:
        # through the local reporter: report(triple, 'unreachable')
        for f in reach:
            apps2 += [n for n in walk_local(f.node) if isinstance(n, ast.Call) and isinstance(n.func, ast.Name) and len(n.args) == 2
                      and try_fold(n.args[1]) == (True, 'unreachable') and any(g_.parent is fi and g_.name == n.func.id and any(
                          isinstance(x, ast.Call) and isinstance(x.func, ast.Attribute) and x.func.attr == 'append' and len(x.args) == 1 and norm(x.args[0]) == g_.positional[1]
                          for x in walk_local(g_.node)) for g_ in ctx.repo.all_functions() if len(g_.positional) == 2)]
    rep.add(f'{fi.fq}: "unreachable" is recorded per triple', fi.loc(), 'ok' if apps2 else 'undecided')
    # adjacency: only targets that are variables of the graph become neighbours
    found, unrestricted = [], []
    for f in reach:
        for n in walk_local(f.node):
            if isinstance(n, (ast.SetComp, ast.GeneratorExp, ast.ListComp)):
                for g in n.generators:
                    if isinstance(g.target, ast.Tuple) and len(g.target.elts) == 3 and isinstance(g.target.elts[2], ast.Name):
                        tname = g.target.elts[2].id
                        if not any(isinstance(x, ast.Name) and x.id == tname for x in ast.walk(n.elt)):
                            continue
                        restricted = any(isinstance(c, ast.Compare) and isinstance(c.ops[0], ast.In) and norm(c.left) == tname for c in g.ifs)
                        found.append((f, n))
                        if not restricted:
                            unrestricted.append((f, n))
            if isinstance(n, ast.For) and isinstance(n.target, ast.Tuple) and len(n.target.elts) == 3 and isinstance(n.target.elts[2], ast.Name):
                tname = n.target.elts[2].id
                adds = [c for c in ast.walk(n) if isinstance(c, ast.Call) and isinstance(c.func, ast.Attribute) and c.func.attr in ('add', 'append')
                        and c.args and norm(c.args[0]) == tname and isinstance(c.func.value, ast.Subscript)]
                for c in adds:
                    restricted = any(pol and fa.startswith(f'{tname} in ') for fa, pol in facts_ex(ctx, f, c))
                    found.append((f, c))
                    if not restricted:
                        unrestricted.append((f, c))
    if not found:
        rep.undecided(f'{fi.fq}: reachability: only targets that are variables of the graph become neighbours', fi.loc(),
                      'the adjacency construction was not recognised')
    for f, n in found:
        bad = any(n is x for _, x in unrestricted)
        rep.add(f'{f.fq}: only targets that are variables of the graph become neighbours', f.loc(n), 'violation' if bad else 'ok',
                'the target of every triple becomes a neighbour, constants included: two components that merely share a constant '
                '(the same concept, the same attribute value) count as connected and "unreachable" is not reported' if bad else '')
    return rep


def _slot0_names(loop: ast.For, tv):
    out = set()
    if tv:
        out.add(f'{tv}[0]')
    for n in ast.walk(loop):
        if isinstance(n, ast.Assign) and isinstance(n.targets[0], ast.Tuple) and len(n.targets[0].elts) == 3 \
                and isinstance(n.value, ast.Name) and n.value.id == tv:
            out.add(norm(n.targets[0].elts[0]))
    if isinstance(loop.target, ast.Tuple) and len(loop.target.elts) == 3:
        out.add(norm(loop.target.elts[0]))
    return out


@rule('R23model', 'invert swaps source and target; the no-op model never deinverts; sort keys as documented')
def r23model(ctx: Ctx) -> RuleReport:
    from ..rx import Lang
    rep = RuleReport('R23model', r23model.title, floor=5)
    repo = ctx.repo
    inv = repo.func(M, 'Model.invert')
    tp = inv.positional[1]
    unpack = None
    for n in walk_local(inv.node):
        if isinstance(n, ast.Assign) and isinstance(n.targets[0], ast.Tuple) and len(n.targets[0].elts) == 3 and norm(n.value) == tp:
            unpack = [norm(e) for e in n.targets[0].elts]

    def slot(e, depth=0):
        if depth > 5:
            return None
        while isinstance(e, ast.Call) and norm(e.func) in ('cast', 'typing.cast') and len(e.args) == 2:
            e = e.args[1]
        if isinstance(e, ast.Subscript) and norm(e.value) == tp and isinstance(e.slice, ast.Constant):
            return e.slice.value
        if isinstance(e, ast.Name) and unpack and e.id in unpack:
            # a name re-bound only from itself through cast keeps its slot
            vals = [x for x in ctx.cg.local_assigns(inv).get(e.id, []) if isinstance(x, ast.AST)]
            others = [x for x in vals if not (isinstance(x, ast.Call) and norm(x.func) in ('cast', 'typing.cast')
                                              and len(x.args) == 2 and norm(x.args[1]) == e.id) and norm(x) != tp]
            if not others:
                return unpack.index(e.id)
        if isinstance(e, ast.Name):
            d = single_def(ctx, inv, e)
            if d is not e:
                return slot(d, depth + 1)
        return None
    rets = _ret_stmts(inv)
    if not rets:
        rep.undecided(f'{inv.fq}: returns a triple', inv.loc())
    for r in rets:
        ret = r.value
        key = f'{inv.fq}: returns (target, invert_role(role), source)'
        if isinstance(ret, ast.Call) and isinstance(ret.func, ast.Attribute) and norm(ret.func.value) == 'self' and len(ret.args) == 1 \
                and norm(ret.args[0]) == tp:
            # invert hands the triple to another method of the model: what that method is depends on the model class (overrides)
            mname = ret.func.attr
            base = repo.cls(M, 'Model')
            ident = None
            for c in repo.all_classes():
                if c is base or c.is_subclass_of(base):
                    meth = c.find_method(mname)
                    if meth is None:
                        continue
                    for rr in _ret_stmts(meth):
                        if isinstance(rr.value, ast.Name) and len(meth.positional) > 1 and rr.value.id == meth.positional[1] \
                                and not [x for x in ctx.cg.local_assigns(meth).get(rr.value.id, []) if isinstance(x, ast.AST)] \
                                and not facts_ex(ctx, meth, rr):
                            ident = (c, meth, rr)
            if ident:
                c, meth, rr = ident
                rep.violation(key, inv.loc(r), f'invert returns self.{mname}(triple), and {meth.fq} returns its argument unchanged: under {c.name} a triple is "inverted" '
                              f'without swapping source and target (and without changing the role), so the inversion laws fail for that model')
            else:
                rep.undecided(key, inv.loc(r), norm(ret))
            continue
        if isinstance(ret, ast.Name) and ret.id == tp and not [x for x in ctx.cg.local_assigns(inv).get(tp, []) if isinstance(x, ast.AST)]:
            fx = sorted(f if pol else f'not ({f})' for f, pol in facts_ex(ctx, inv, r))
            rep.violation(key, inv.loc(r), f'under {fx or "no condition"} invert returns its argument unchanged: source and target are not swapped and the role is not '
                          f'inverted, although invert() is documented to invert every triple (invert_role(role) must be the role of the result, and '
                          f'invert(invert(t)) / deinvert rely on it)')
            continue
        if not (isinstance(ret, ast.Tuple) and len(ret.elts) == 3):
            rep.undecided(key, inv.loc(r), norm(ret))
            continue
        conv = None
        for e_ in (ret.elts[0], ret.elts[2]):
            d_ = single_def(ctx, inv, e_) if isinstance(e_, ast.Name) else e_
            if isinstance(d_, ast.Call) and isinstance(d_.func, ast.Name) and d_.func.id in ('str', 'repr', 'int', 'float', 'bool', 'format') and len(d_.args) == 1 \
                    and slot(d_.args[0]) is not None:
                conv = d_
        if conv is not None:
            rep.violation(key, inv.loc(r), f'the swapped triple is built with `{norm(conv)}`: a conversion, not the value itself. A target that is not a string - the number 3 in '
                          f'("a", ":quant", 3), or None - comes back as another object ("3", "None"), so invert(invert(t)) != t and deinvert no longer equals invert on inverted triples')
            continue
        s0, s2 = slot(ret.elts[0]), slot(ret.elts[2])
        mid = single_def(ctx, inv, ret.elts[1])
        mid_ok = isinstance(mid, ast.Call) and norm(mid.func) == 'self.invert_role' and len(mid.args) == 1 and slot(mid.args[0]) == 1
        if s0 is None or s2 is None:
            rep.undecided(key, inv.loc(r), norm(ret))
        elif (s0, s2) != (2, 0):
            rep.violation(key, inv.loc(r), f'returns slots ({s0}, role, {s2}) of the triple: source and target are not swapped')
        else:
            rep.add(key, inv.loc(r), 'ok' if mid_ok else 'undecided', norm(ret))
    noop = repo.func('penman.models.noop', 'NoOpModel.deinvert')
    for r in _ret_stmts(noop):
        good = isinstance(r.value, ast.Name) and r.value.id == noop.positional[1] and not ctx.cg.local_assigns(noop).get(r.value.id)
        calls_inv = any(isinstance(x, ast.Call) and isinstance(x.func, ast.Attribute) and x.func.attr in ('invert', 'deinvert', 'invert_role')
                        for x in ast.walk(r.value))
        rep.add(f'{noop.fq}: returns its argument unchanged', noop.loc(r), 'ok' if good else ('violation' if calls_inv else 'undecided'),
                norm(r.value) if good else f'the no-op model returns {norm(r.value)}')
    # alphanumeric_order: (name, number) with the number taken from the digits when the pattern matched
    an = repo.func(M, 'Model.alphanumeric_order')
    try:
        from ..resolve import symbolic_returns
        paths = symbolic_returns(an)
    except AnalysisError:
        paths = []
    rp = an.positional[1] if len(an.positional) > 1 else 'role'
    key = f'{an.fq}: the key is (name without the number, number as an integer), name first'
    if not paths:
        rep.undecided(key, an.loc(), 'paths of the function could not be enumerated')
    seen_match = seen_plain = False
    # names unpacked from <match>.groups() stand for group(1), group(2) ...
    grp_alias = {}
    for n_ in walk_local(an.node):
        if isinstance(n_, ast.Assign) and isinstance(n_.targets[0], ast.Tuple) and isinstance(n_.value, ast.Call) and isinstance(n_.value.func, ast.Attribute) \
                and n_.value.func.attr == 'groups' and not n_.value.args:
            for i_, e_ in enumerate(n_.targets[0].elts):
                if isinstance(e_, ast.Name):
                    grp_alias[e_.id] = ast.parse(f'{norm(n_.value.func.value)}.group({i_ + 1})', mode='eval').body
        # a, b = <match>.group('name', 'index') / .group(1, 2): named groups are numbered by the pattern (folded from the source, compiled by the stdlib)
        if isinstance(n_, ast.Assign) and isinstance(n_.targets[0], ast.Tuple) and isinstance(n_.value, ast.Call) and isinstance(n_.value.func, ast.Attribute) \
                and n_.value.func.attr == 'group' and len(n_.value.args) == len(n_.targets[0].elts) >= 2:
            gi_ = {}
            for c_ in walk_local(an.node):
                if isinstance(c_, ast.Call) and isinstance(c_.func, ast.Attribute) and c_.func.attr in ('match', 'fullmatch', 'search') and norm(c_.func.value) == 're' and c_.args:
                    okp_, pv_ = try_fold(c_.args[0], {}, repo, an.module)
                    if okp_ and isinstance(pv_, str):
                        try:
                            import re as _re23
                            gi_ = dict(_re23.compile(pv_).groupindex)
                        except Exception:
                            gi_ = {}
            for a_, e_ in zip(n_.value.args, n_.targets[0].elts):
                okg_, gv_ = try_fold(a_)
                if okg_ and isinstance(gv_, str):
                    gv_ = gi_.get(gv_)
                if okg_ and isinstance(gv_, int) and isinstance(e_, ast.Name):
                    grp_alias[e_.id] = ast.parse(f'{norm(n_.value.func.value)}.group({gv_})', mode='eval').body

    class _G(ast.NodeTransformer):
        def visit_Name(self, n_):
            return grp_alias.get(n_.id, n_) if isinstance(n_.ctx, ast.Load) else n_
    for conds, val, st in paths:
        if val is not None and grp_alias:
            import copy as _copy
            val = _G().visit(_copy.deepcopy(val))
        if not (isinstance(val, ast.Tuple) and len(val.elts) == 2):
            rep.undecided(key, an.loc(st), norm(val)[:60] if val is not None else 'None')
            continue
        a, b = norm(val.elts[0]).replace(' ', ''), norm(val.elts[1]).replace(' ', '')
        def is_m(c):
            return '.match(' in norm(c) or '.fullmatch(' in norm(c) or '.search(' in norm(c)
        matched = [c for c, pol in conds if is_m(c) and ((pol and not norm(c).endswith(' is None')) or (not pol and norm(c).endswith(' is None')))]
        unmatched = [c for c, pol in conds if is_m(c) and c not in matched]
        if matched:
            seen_match = True
            good = a.endswith('.group(1)') and b.startswith('int(') and b.endswith('.group(2))')
            swapped = b.endswith('.group(1)') and a.startswith('int(') and a.endswith('.group(2))')
            if good:
                rep.ok(key + ' [numbered role]', an.loc(st))
            elif swapped:
                rep.violation(key + ' [numbered role]', an.loc(st), 'the key is (number, name): roles are ordered by their number before their name, so :ARG1 :op1 :ARG2 :op2 instead of :ARG1 :ARG2 :op1 :op2')
            elif '.group(0)' in a or '.group()' in a:
                rep.violation(key + ' [numbered role]', an.loc(st), f'the name part is {a[-12:]} - the whole role, digits included: :op10 sorts before :op2 again')
            elif '.group(' in a or '.group(' in b:
                rep.violation(key + ' [numbered role]', an.loc(st), f'the key is ({norm(val.elts[0])[-20:]}, {norm(val.elts[1])[-24:]}): name and number are not group 1 and int(group 2) of the split')
            else:
                rep.undecided(key + ' [numbered role]', an.loc(st), norm(val)[:70])
        elif unmatched or not conds:
            seen_plain = True
            good = a == rp and try_fold(val.elts[1])[0] and isinstance(try_fold(val.elts[1])[1], int)
            rep.add(key + ' [role without a number]', an.loc(st), 'ok' if good else ('violation' if b == rp else 'undecided'), norm(val)[:60])
    if paths and not seen_match:
        rep.violation(key + ' [numbered role]', an.loc(), 'no path of the function returns a key built from the split: numbered roles are compared as plain strings, so :op10 sorts before :op2')
    # the pattern
    pats = []
    for n in walk_local(an.node):
        if isinstance(n, ast.Call) and isinstance(n.func, ast.Attribute) and n.func.attr in ('match', 'fullmatch', 'search'):
            if norm(n.func.value) == 're' and n.args:
                ok, pv = try_fold(n.args[0], {}, repo, an.module)
                if ok:
                    pats.append((pv, n))
            elif isinstance(n.func.value, ast.Name):
                r = repo.resolve_name(an.module, n.func.value.id)
                if r[0] == 'const' and isinstance(r[1].constants[r[2]], ast.Call) and r[1].constants[r[2]].args:
                    ok, pv = try_fold(r[1].constants[r[2]].args[0], {}, repo, r[1])
                    if ok:
                        pats.append((pv, n))
    if len(pats) != 1:
        rep.undecided(f'{an.fq}: the numeric suffix is split off by a pattern', an.loc(), f'{len(pats)} patterns found')
    else:
        pv, n = pats[0]
        key = f'{an.fq}: the pattern splits <anything ending in a non-digit><digits>'
        try:
            got_l = Lang.from_pattern(pv)
            meth = n.func.attr
            from ..rx import ParsedPattern as _PP
            _pp = _PP(pv)
            _pp.alternatives()
            anything = Lang.from_pattern(r'[^\n]*')       # roles never contain a line feed (lexical grammar), and `.` does not match one
            if meth in ('match', 'search') and not getattr(_pp, 'has_end_assertion', False):
                got_l = got_l.cat(anything)          # re.match / re.search accept a prefix when the pattern has no `$`
            if meth == 'search' and not getattr(_pp, 'has_begin_assertion', False):
                got_l = anything.cat(got_l)
            eq, only_code, only_doc = got_l.equivalent(Lang.from_pattern(r'(.*\D)(\d+)$'))
            rep.add(key, an.loc(n), 'ok' if eq else 'violation',
                    pv if eq else f'pattern {pv!r}: ' + (f'{only_doc!r} is no longer split into name and number' if only_doc is not None
                                                         else f'{only_code!r} is now split although it has no <non-digit><digits> shape'))
        except AnalysisError as exc:
            rep.undecided(key, an.loc(n), str(exc))
        # the split point is unique only if the name group cannot end in a digit (else greedy .* eats all digits but one)
        key = f'{an.fq}: the name group cannot end in a digit (the number is the maximal digit suffix)'
        try:
            from ..rx import ParsedPattern, category, sre_c
            pp = ParsedPattern(pv)
            groups = [av for op, av in pp.tree if op is sre_c.SUBPATTERN and av[0] is not None]
            digits = category('digit')
            if len(groups) == 2:
                g1 = Lang(pp._conv_seq(groups[0][3]))
                g2 = Lang(pp._conv_seq(groups[1][3]))
                lastd = g1.last_set() & digits
                if lastd or g1.nullable():
                    rep.violation(key, an.loc(n), f'in {pv!r} the first group may end in {lastd.describe() if lastd else "nothing"}: '
                                  f'"ARG12" is split as ("ARG1", 2), so numbered roles no longer sort by their number')
                elif not g2.alphabet().issubset(category('digit')):
                    rep.undecided(key, an.loc(n), 'second group is not digits only')
                else:
                    rep.ok(key, an.loc(n))
            else:
                rep.undecided(key, an.loc(n), f'{len(groups)} top-level groups')
        except (AnalysisError, ImportError, AttributeError) as exc:
            rep.undecided(key, an.loc(n), str(exc))
    ints =[n for n in walk_local(an.node) if isinstance(n, ast.Call) and isinstance(n.func, ast.Name) and n.func.id == 'int']
    rep.add(f'{an.fq}: the numeric suffix is compared as an integer', an.loc(), 'ok' if ints else 'undecided')
    for r in _ret_stmts(an):
        rep.add(f'{an.fq}: key is (name, number)', an.loc(r), 'ok' if isinstance(r.value, ast.Tuple) and len(r.value.elts) == 2 else 'undecided', norm(r.value))
    # canonical_order
    co = repo.func(M, 'Model.canonical_order')
    cp = co.positional[1]
    try:
        _, inverted = _inverted_formula(ctx)
    except AnalysisError:
        inverted = None
    for r in _ret_stmts(co):
        e = expand(ctx, co, r.value, r)
        if not (isinstance(e, ast.Tuple) and len(e.elts) == 2):
            rep.undecided(f'{co.fq}: key is (inverted?, alphanumeric key)', co.loc(r), norm(e))
            continue
        first = e.elts[0]
        key = f'{co.fq}: inverted roles sort last (first key component is is_role_inverted)'
        rewritten = [x for x in ast.walk(e) if isinstance(x, ast.Call) and isinstance(x.func, ast.Attribute) and x.func.attr in ('canonicalize_role', 'canonicalize', 'deinvert', 'invert_role')]
        if norm(first) == f'self.is_role_inverted({cp})':
            rep.ok(key, co.loc(r))
        elif rewritten:
            rep.violation(key, co.loc(r), f'the key is computed from `{norm(rewritten[0])[:50]}`, not from the role the branch has: canonicalize_role applies the normalisation table and removes '
                          f'pairs of -of, so under the AMR model ":mod-of" is keyed as ":domain" (not inverted) and ":ARG0-of-of" as ":ARG0" - an inverted role is no longer sorted last, '
                          f'and two different roles can get the same key')
        elif inverted is not None:
            f = bn.Abstractor(canon=_canon(cp)).formula(first)
            if set(bn.atoms_of(f)) <= {HAS[1], ENDS[1]}:
                d = bn.equivalent(f, inverted)
                rep.add(key, co.loc(r), 'ok' if d is None else 'violation',
                        '' if d is None else f'the first key component is {bn.show(f)}, which differs from is_role_inverted for {d}: a role the '
                                             f'model defines that merely ends in -of (:consist-of) is sorted with the inverted roles')
            else:
                rep.undecided(key, co.loc(r), norm(first))
        else:
            rep.undecided(key, co.loc(r), norm(first))
        second = e.elts[1]
        k2 = f'{co.fq}: second key component is alphanumeric_order(role)'
        if norm(second) == f'self.alphanumeric_order({cp})':
            rep.ok(k2, co.loc(r))
        elif isinstance(second, ast.Call) and norm(second.func) == 'self.alphanumeric_order' and len(second.args) == 1 and isinstance(second.args[0], ast.Call) \
                and norm(second.args[0].func) in ('self.invert_role', 'self.invert') and norm(second.args[0].args[0]) == cp:
            rep.violation(k2, co.loc(r), f'the role is passed through `{norm(second.args[0])}` before it is keyed: invert_role TOGGLES - an ordinary role gets "-of" appended, so its trailing '
                          f'number is no longer at the end and alphanumeric_order falls back to comparing strings: ":op10" sorts before ":op2", where the canonical key promises '
                          f'numeric order of the suffixes')
        else:
            rep.undecided(k2, co.loc(r), norm(second))
    oo = repo.func(M, 'Model.original_order')
    for r in _ret_stmts(oo):
        rep.add(f'{oo.fq}: constant key (stable sort keeps the order)', oo.loc(r), 'ok' if isinstance(r.value, ast.Constant) else 'undecided')
    return rep


def _fold_bool(e, env):
    """(ok, value) of a condition over constants, with Python's short-circuit rules: `role and role[0] == ':'` is False for '' although role[0] does not fold"""
    if isinstance(e, ast.BoolOp):
        is_and = isinstance(e.op, ast.And)
        unknown = False
        for v in e.values:
            ok, val = _fold_bool(v, env)
            if not ok:
                unknown = True
                break           # what follows is only evaluated if this operand allows it: unknown from here on
            if is_and and not val:
                return True, val
            if not is_and and val:
                return True, val
            last = val
        if unknown:
            return False, None
        return True, last
    if isinstance(e, ast.UnaryOp) and isinstance(e.op, ast.Not):
        ok, val = _fold_bool(e.operand, env)
        return (True, not val) if ok else (False, None)
    try:
        return try_fold(e, env)
    except Exception:
        return False, None


@rule('R24m', 'canonicalize_role: colon, then inversion normalisation, then the normalisation table (last)')
def r24m(ctx: Ctx) -> RuleReport:
    rep = RuleReport('R24m', r24m.title, floor=3)
    fi = ctx.repo.func(M, 'Model.canonicalize_role')

    def find_calls(e, pred):
        return [x for x in ast.walk(e) if isinstance(x, ast.Call) and pred(x)]

    def is_inv(c):
        return norm(c.func).endswith('_canonicalize_inversion')

    def is_table(c):
        return norm(c.func).endswith('normalizations.get')
    rets = _ret_stmts(fi)
    if not rets:
        rep.undecided(f'{fi.fq}: returns the canonical role', fi.loc())
        return rep
    inline = ctx.repo.maybe_func(M, 'Model._canonicalize_inversion') is None
    if inline:
        return _r24m_inline(ctx, rep, fi, rets)
    expanded = [(r, e) for r in rets for e in _expand_all(ctx, fi, r)]
    some_inv = any(find_calls(e, is_inv) for _, e in expanded)
    key = f'{fi.fq}: the table lookup is applied to the inversion-normalised role, as the last step'
    seen = set()
    for r, e in expanded:
        tables = find_calls(e, is_table)
        invs = find_calls(e, is_inv)
        src = norm(e)
        if src in seen:
            continue
        seen.add(src)
        if tables:
            t = tables[0]
            arg_has_inv = bool(find_calls(t.args[0], is_inv)) if t.args else False
            outer = isinstance(e, ast.Call) and is_table(e)
            if arg_has_inv and outer:
                rep.ok(key, fi.loc(r), src[:100])
            elif not arg_has_inv:
                rep.violation(key, fi.loc(r),
                              f'`{src[:110]}`: the normalisation table is consulted with a role whose inversions were not normalised first '
                              f'(a role with an extra pair of -of misses its table entry, and canonicalising twice gives a different result)')
            else:
                rep.undecided(key, fi.loc(r), src[:110])
        elif invs:
            rep.violation(key, fi.loc(r), f'`{src[:110]}` can be returned: the inversion-normalised role without the table lookup')
        elif some_inv:
            rep.violation(key, fi.loc(r), f'`{src[:110]}` can be returned without inversion normalisation and table lookup')
        else:
            rep.undecided(key, fi.loc(r), src[:110])
    return _r24m_rest(ctx, rep, fi)


def _r24m_inline(ctx: Ctx, rep: RuleReport, fi: FuncInfo, rets) -> RuleReport:
    """The inversion normalisation written out inside canonicalize_role: `if not self._has_role(role): while True: ... invert twice ... until unchanged`."""
    loops = [n for n in walk_local(fi.node) if isinstance(n, ast.While)
             and any(isinstance(c, ast.Call) and norm(single_def(ctx, fi, c.func)).endswith('invert_role') for c in ast.walk(n))]
    if len(loops) != 1:
        raise AnalysisError('anchor vanished: function penman.model:Model._canonicalize_inversion (and no inline inversion loop in canonicalize_role)')
    cfg = CFG(fi.node)
    head = cfg.node_of(loops[0])
    guards = [nd.id for nd in cfg.nodes if nd.kind == 'cond' and norm(nd.ast).replace(' ', '') .startswith('self._has_role(')]
    key = f'{fi.fq}: the table lookup is applied to the inversion-normalised role, as the last step'
    rp = fi.positional[1] if len(fi.positional) > 1 else 'role'
    pm = ctx.repo.parent_map(fi.node)
    for r in rets:
        v = r.value
        at = r
        if isinstance(v, ast.Name):
            # role = self.normalizations.get(role, role); return role
            blk = getattr(pm.get(id(r)), 'body', [])
            if r in blk and blk.index(r) > 0 and isinstance(blk[blk.index(r) - 1], ast.Assign) and norm(blk[blk.index(r) - 1].targets[0]) == v.id:
                at = blk[blk.index(r) - 1]
                v = at.value
        is_tab = isinstance(v, ast.Call) and norm(v.func).endswith('normalizations.get') and len(v.args) == 2 and norm(v.args[0]) == rp and norm(v.args[1]) == rp
        rn = cfg.node_of(at)
        skip = cfg.path_avoiding([(cfg.entry, None)], {rn}, lambda nd: nd.id == head or nd.id in guards)
        after = rn in cfg.reachable_from([head])
        if is_tab and not skip and after and guards:
            # the guard may only bypass the loop for a role the model defines (nothing to normalise)
            byp = [g for g in guards if cfg.path_avoiding([(g, 'F')], {rn}, lambda nd: nd.id == head)]
            if byp:
                rep.undecided(key, fi.loc(r), 'a role the model does not define can reach the table lookup without the inversion loop')
            else:
                rep.ok(key, fi.loc(r), f'{norm(v)[:60]} after the inline inversion loop')
        elif not is_tab and after:
            rep.violation(key, fi.loc(r), f'`{norm(v)[:80]}` is returned after the inversion loop: the normalisation table is not consulted (last)')
        else:
            rep.undecided(key, fi.loc(r), norm(v)[:80])
    return _r24m_rest(ctx, rep, fi, loops[0])


def _r24m_rounds(ctx: Ctx, rep: RuleReport, ci: FuncInfo, scope) -> None:
    """Symbolic unrolling of the inversion loop with invert_role as an uninterpreted function I: the test that decides whether another round is
    made must depend on the data in every round.  If, in the second round, it compares two identical terms, the loop provably makes one round
    only - a single pair of -of is removed however many the role has."""
    loops = [n for n in ([scope] if isinstance(scope, ast.While) else ast.walk(scope)) if isinstance(n, ast.While)]
    if len(loops) != 1:
        return
    loop = loops[0]
    pm = ctx.repo.parent_map(ci.node)
    blk = getattr(pm.get(id(loop)), 'body', None)
    if not isinstance(blk, list) or loop not in blk:
        return
    env: Dict[str, object] = {}

    class Unsup(Exception):
        pass

    def term(e):
        if isinstance(e, ast.Name):
            return env.get(e.id, ('sym', e.id))
        if isinstance(e, ast.Call) and len(e.args) == 1 and not e.keywords and norm(single_def(ctx, ci, e.func)).endswith('invert_role'):
            return ('I', term(e.args[0]))
        if isinstance(e, ast.Constant):
            return ('const', e.value)
        raise Unsup(norm(e)[:40])

    def truth(e):
        """True / False when decided by the shape of the terms, None when it depends on the data"""
        if isinstance(e, ast.Constant):
            return bool(e.value)
        if isinstance(e, ast.UnaryOp) and isinstance(e.op, ast.Not):
            t = truth(e.operand)
            return None if t is None else not t
        if isinstance(e, ast.Compare) and len(e.ops) == 1 and isinstance(e.ops[0], (ast.Eq, ast.NotEq)):
            a, b = term(e.left), term(e.comparators[0])
            if a == b:
                return isinstance(e.ops[0], ast.Eq)
            return None
        raise Unsup(norm(e)[:40])

    def assign(st):
        if isinstance(st, ast.Assign) and len(st.targets) == 1 and isinstance(st.targets[0], ast.Name):
            if isinstance(st.value, (ast.Attribute,)):
                return                       # invert = self.invert_role
            env[st.targets[0].id] = term(st.value)
        elif isinstance(st, ast.Assign) and len(st.targets) == 1 and isinstance(st.targets[0], ast.Tuple) and isinstance(st.value, ast.Tuple) \
                and len(st.targets[0].elts) == len(st.value.elts) and all(isinstance(t, ast.Name) for t in st.targets[0].elts):
            vals = [term(v) for v in st.value.elts]              # all right-hand sides are evaluated before any name is bound
            for t, v in zip(st.targets[0].elts, vals):
                env[t.id] = v
        else:
            raise Unsup(norm(st)[:40])
    try:
        for st in blk[:blk.index(loop)]:
            if isinstance(st, ast.Assign):
                assign(st)
        decided = []
        for rnd in (1, 2, 3):
            t = truth(loop.test)
            if t is False:
                decided.append((rnd, 'the loop test', loop.test))
                break
            go_on = True
            for st in loop.body:
                if isinstance(st, ast.If) and not st.orelse and len(st.body) == 1 and isinstance(st.body[0], ast.Break):
                    tb = truth(st.test)
                    if tb is True:
                        decided.append((rnd + 1, 'the exit test', st.test))
                        go_on = False
                        break
                elif isinstance(st, ast.Assign):
                    assign(st)
                elif isinstance(st, ast.Expr) and isinstance(st.value, ast.Constant):
                    continue
                else:
                    raise Unsup(norm(st)[:40])
            if not go_on:
                break
    except Unsup:
        return
    key = f'{ci.fq}: whether another round of double inversion is made depends on the role in every round'
    early = [d for d in decided if d[0] == 2]
    if early:
        rnd, what, e = early[0]
        rep.violation(key, ci.loc(e), f'with invert_role as I, {what} `{norm(e)[:50]}` compares two identical terms when it is evaluated the second time (a value computed from the OLD '
                      f'role is carried into the new round): the loop makes one round whatever the role is, so only one pair of -of is removed - canonicalize_role(":ARG0-of-of-of-of") '
                      f'gives ":ARG0-of-of", and canonicalising again changes it once more')
    elif not decided:
        rep.ok(key, ci.loc(loop), 'the round test compares different terms in rounds 1 to 3')


def _r24m_rest(ctx: Ctx, rep: RuleReport, fi: FuncInfo, scope=None) -> RuleReport:
    colon = [n for n in walk_local(fi.node) if isinstance(n, ast.BinOp) and isinstance(n.op, ast.Add) and try_fold(n.left) == (True, ':')]
    rep.add(f'{fi.fq}: a missing leading colon is added', fi.loc(), 'ok' if colon else 'undecided')
    # ... exactly for the roles that lack it (the tree's concept marker "/" alone is left as it is): the guard is evaluated on sample spellings
    rp = fi.positional[1] if len(fi.positional) > 1 else 'role'
    for c in colon:
        fx = facts_ex(ctx, fi, c)
        conds = []
        for f, pol in sorted(fx):
            try:
                fe = ast.parse(f, mode='eval').body
            except SyntaxError:
                continue
            if {x.id for x in ast.walk(fe) if isinstance(x, ast.Name)} == {rp}:
                conds.append((f, fe, pol))
        want = {'': True, 'ARG0': True, 'mod-of': True, '/x': True, 'x/y': True, '/': False, ':': False, ':ARG0': False, ':ARG0-of': False}
        wrong, unknown = [], False
        for smp, exp in want.items():
            val, unk_here = True, False
            for f, fe, pol in conds:
                okv, v = _fold_bool(fe, {rp: smp})
                if not okv:
                    unk_here = True              # e.g. role[0] on the empty role: only reached if the other conjuncts hold
                    continue
                val = val and (bool(v) == pol)
            if unk_here and val:
                unknown = True
                break
            if val != exp:
                wrong.append((smp, val))
        key2 = f'{fi.fq}: the colon is added exactly to the roles that lack it'
        if unknown or not conds:
            rep.undecided(key2, fi.loc(c), f'the guard {[f for f, _, _ in conds]} does not fold on sample roles')
        elif wrong:
            smp, val = wrong[0]
            rep.violation(key2, fi.loc(c), f'under {[(f, pol) for f, _, pol in conds]} the role {smp!r} is ' + ('given a colon although it has one / is the concept marker' if val else
                          'left without a colon') + f' (all differing samples: {[w for w, _ in wrong]}): canonicalize_role({smp!r}) no longer equals canonicalize_role(":" + {smp!r}), '
                          f'so "canonicalising adds the leading colon" fails for such a role')
        else:
            rep.ok(key2, fi.loc(c), f'{[f for f, _, _ in conds]}')
    # _canonicalize_inversion: inversions go in pairs
    ci = ctx.repo.maybe_func(M, 'Model._canonicalize_inversion') or fi
    scope = scope if scope is not None else ci.node
    n_inv = 0
    for n in (walk_local(scope) if scope is ci.node else ast.walk(scope)):
        if isinstance(n, ast.Call):
            f = single_def(ctx, ci, n.func)
            if norm(f) in ('self.invert_role', 'invert'):
                n_inv += 1
    rep.add(f'{ci.fq}: each round applies invert_role twice (inversions go in pairs)', ci.loc(),
            'ok' if n_inv == 2 else 'undecided', f'{n_inv} invert_role applications per round')
    # the role is rewritten by invert_role only: any other rewriting (slicing, concatenation) is a different
    # algorithm whose agreement with the double-inversion fixpoint this rule cannot establish
    other = []
    for n in (walk_local(scope) if scope is ci.node else ast.walk(scope)):
        if isinstance(n, ast.Assign) and isinstance(n.targets[0], ast.Name):
            val = n.value
            if isinstance(val, (ast.Name, ast.Attribute, ast.Constant)):
                continue
            if isinstance(val, ast.Call) and norm(single_def(ctx, ci, val.func)) in ('self.invert_role', 'invert'):
                continue
            other.append(n)
    _r24m_rounds(ctx, rep, ci, scope)
    rep.add(f'{ci.fq}: the role is rewritten through invert_role only', ci.loc(other[0]) if other else ci.loc(),
            'undecided' if other else 'ok', f'`{norm(other[0])[:70]}` rewrites the role by other means' if other else '')
    return rep


def _expand_all(ctx: Ctx, fi: FuncInfo, ret: ast.Return, limit: int = 16) -> List[ast.AST]:
    """All values the returned expression can stand for: every local name is replaced by each of its reaching
    definitions in turn (role = f(role); role = g(role); return role -> g(f(role)); a name bound on two branches
    gives two alternatives).  Parameters and names bound by loops/unpacking stay as they are."""
    import copy
    from ..cfg import def_value
    v = view(ctx, fi)

    def alts(e: ast.AST, at: ast.AST, depth: int) -> List[ast.AST]:
        names = [n for n in ast.walk(e) if isinstance(n, ast.Name) and isinstance(n.ctx, ast.Load)]
        try:
            here = v.node_of(at)
        except (KeyError, AnalysisError):
            return [e]
        out = [e]
        done = set()
        for nm in names:
            if nm.id in done or depth > 8:
                continue
            done.add(nm.id)
            defs = v.rd.get(here, {}).get(nm.id) or set()
            vals = []
            for d in sorted(defs):
                if d == v.cfg.entry:
                    vals.append(None)           # the parameter itself
                    continue
                val = def_value(v.cfg, d, nm.id)
                if val is None:
                    vals = []
                    break
                vals.append(val)
            if not vals or vals == [None]:
                continue
            nxt = []
            for cur in out:
                for val in vals:
                    if val is None:
                        nxt.append(cur)
                        continue
                    for sub in alts(copy.deepcopy(val), val, depth + 1):
                        class R(ast.NodeTransformer):
                            def visit_Name(self, n):
                                return copy.deepcopy(sub) if n.id == nm.id and isinstance(n.ctx, ast.Load) else n
                        nxt.append(R().visit(copy.deepcopy(cur)))
                        if len(nxt) > limit:
                            raise AnalysisError(f'{fi.fq}: too many alternative values for the returned expression')
            out = nxt
        return out
    return alts(copy.deepcopy(ret.value), ret, 0)


# ---------------------------------------------------------------------------------------------
@rule('R91', 'Model.errors gives the graph-level messages exactly when they apply (empty graph / top not set / top not a source), and looks for unreachable triples otherwise')
def r91(ctx: Ctx) -> RuleReport:
    import re as _re
    rep = RuleReport('R91', r91.title, floor=4)
    fi = ctx.repo.func(M, 'Model.errors')
    gp = fi.positional[1]
    cfg = CFG(fi.node)
    aliases = {gp + '.triples': 'TRIPLES', gp + '.top': 'TOP'}
    for nm, vals in ctx.cg.local_assigns(fi).items():
        if len(vals) == 1 and isinstance(vals[0], ast.AST) and norm(vals[0]) in aliases:
            aliases[nm] = aliases[norm(vals[0])]

    for x_ in walk_local(fi.node):
        if isinstance(x_, ast.NamedExpr) and isinstance(x_.target, ast.Name) and norm(x_.value) in aliases:
            aliases[x_.target.id] = aliases[norm(x_.value)]           # (top := graph.top)

    def canon(src: str) -> str:
        for k in sorted(aliases, key=len, reverse=True):
            src = _re.sub(r'(?<![\w.])' + _re.escape(k) + r'(?![\w])', aliases[k], src)
        return src

    def atom_of(e: ast.AST):
        """-> (atom, value of the atom when the condition is true) or None"""
        if isinstance(e, ast.NamedExpr):
            e = e.value
        s = canon(norm(e)).replace(' ', '')
        table = {'len(TRIPLES)==0': ('E', True), 'notTRIPLES': ('E', True), 'TRIPLES': ('E', False), 'len(TRIPLES)': ('E', False), 'len(TRIPLES)>0': ('E', False),
                 'len(TRIPLES)!=0': ('E', False), 'len(TRIPLES)<1': ('E', True), '0==len(TRIPLES)': ('E', True), 'len(TRIPLES)>=1': ('E', False),
                 'TOP': ('T', True), 'notTOP': ('T', False), 'TOPisNone': ('T', False), 'TOPisnotNone': ('T', True), 'bool(TOP)': ('T', True)}
        if s in table:
            return table[s]
        m = _re.fullmatch(r'TOP(notin|in)(\w+)', s)
        if m:
            return ('V', m.group(1) == 'in')
        m = _re.fullmatch(r'all\(\(?\w+!=TOPfor.*inTRIPLES\)?\)', s)
        if m:
            return ('V', False)
        m = _re.fullmatch(r'any\(\(?\w+==TOPfor.*inTRIPLES\)?\)', s)
        if m:
            return ('V', True)
        return None
    from ..resolve import calls_where
    try:
        _rf = _reach_fn(ctx)
    except AnalysisError:
        _rf = None
    dfs_calls = calls_where(ctx, fi, lambda f: f.qualname == '_dfs' or (_rf is not None and f.fq == _rf.fq), depth=2)
    MSG = {'graph is empty': 'empty', 'top is not set': 'notset', 'top is not a variable in the graph': 'notvar'}
    sites: Dict[str, Set[int]] = {'empty': set(), 'notset': set(), 'notvar': set(), 'dfs': set()}
    for nd in cfg.nodes:
        if nd.kind not in ('stmt', 'for') or nd.ast is None:
            continue
        for x in ast.walk(nd.ast if nd.kind == 'stmt' else nd.ast.iter):
            if isinstance(x, ast.Constant) and x.value in MSG:
                sites[MSG[x.value]].add(nd.id)
            if isinstance(x, ast.Call) and (norm(x.func) in ('_dfs', 'self._dfs') or any(x is c for c in dfs_calls)):
                sites['dfs'].add(nd.id)
    missing = [k for k in ('empty', 'notset', 'notvar') if not sites[k]]
    if missing:
        # a test whose "the message applies" branch does nothing at all
        label = {'E': ('empty', True, 'the graph has no triples', 'graph is empty'), 'T': ('notset', False, 'no top is set', 'top is not set'),
                 'V': ('notvar', False, 'the top is not a variable of the graph', 'top is not a variable in the graph')}
        for n_ in walk_local(fi.node):
            if not isinstance(n_, ast.If):
                continue
            at = atom_of(n_.test)
            if at is None or label[at[0]][0] not in missing:
                continue
            kind, when, what, text = label[at[0]]
            branch = n_.body if at[1] == when else n_.orelse
            if branch and all(isinstance(x, ast.Pass) for x in branch):
                rep.violation(f'{fi.fq}: "{text}" is reported when {what}', fi.loc(n_), f'the branch of `{norm(n_.test)}` taken when {what} is empty (`pass`): nothing is added to the '
                              f'report for it, so such a graph counts as having no error and --check exits 0')
                return rep
        rep.undecided(f'{fi.fq}: the three graph-level messages are literal strings in the function', fi.loc(), f'not found: {missing}')
        return rep

    def explore(assign: Dict[str, bool]):
        """(set of site kinds reachable on some path, set of site kinds that every complete path passes)"""
        may: Set[str] = set()
        # must: for each kind, is there a complete path avoiding all its sites?
        def walk(avoid: Set[int]):
            seen, stack = set(), [cfg.entry]
            reached_exit = False
            visited = set()
            while stack:
                n = stack.pop()
                if n in seen or n in avoid:
                    continue
                seen.add(n)
                visited.add(n)
                if n == cfg.exit:
                    reached_exit = True
                    continue
                node = cfg.nodes[n]
                at = atom_of(node.ast) if node.kind == 'cond' else None
                for m, lab in cfg.succ[n]:
                    if lab == 'exc' or m == cfg.rexit:
                        continue
                    if at is not None and at[0] in assign:
                        truth = assign[at[0]] == at[1]
                        if (lab == 'T') != truth:
                            continue
                    stack.append(m)
            return reached_exit, visited
        _, vis = walk(set())
        for k, ids in sites.items():
            if ids & vis:
                may.add(k)
        must = set()
        for k, ids in sites.items():
            ex, _ = walk(ids)
            if not ex and ids:
                must.add(k)
        return may, must
    cases = [('the graph has no triples', {'E': True}, 'empty'),
             ('the graph has triples and no top', {'E': False, 'T': False}, 'notset'),
             ('the graph has triples and a top that is the source of no triple', {'E': False, 'T': True, 'V': False}, 'notvar'),
             ('the graph has triples and a top that is a source', {'E': False, 'T': True, 'V': True}, 'dfs')]
    names = {'empty': '"graph is empty"', 'notset': '"top is not set"', 'notvar': '"top is not a variable in the graph"', 'dfs': 'the search for unreachable triples'}
    for label, assign, want in cases:
        may, must = explore(assign)
        key = f'{fi.fq}: when {label}: {names[want]}, and none of the other graph-level messages'
        wrong = sorted(k for k in may if k != want and not (k == 'dfs'))
        if want == 'dfs' and not sites['dfs']:
            rep.undecided(key, fi.loc(), 'no call of the reachability search found')
            continue
        if want not in must:
            rep.violation(key, fi.loc(), f'a path through the function for this case does not pass {names[want]}' + (f' (it is never reached in this case)' if want not in may else '') +
                          ': the report lacks the entry that applies (and --check may exit 0 for a graph that has this problem)')
        elif wrong:
            rep.violation(key, fi.loc(), f'in this case {", ".join(names[w] for w in wrong)} can be reported although it does not apply')
        elif want != 'dfs' and 'dfs' in may and want in ('empty', 'notset', 'notvar'):
            rep.violation(key, fi.loc(), 'the reachability search runs although there is no usable top to start from (KeyError / wrong "unreachable" entries)')
        else:
            rep.ok(key, fi.loc())
    return rep


# ---------------------------------------------------------------------------------------------
@rule('R93', 'Model.dereify accepts a table entry only when both of its roles match the two relations, orients the result accordingly, and raises ModelError otherwise')
def r93(ctx: Ctx) -> RuleReport:
    rep = RuleReport('R93', r93.title, floor=3)
    fi = ctx.repo.func(M, 'Model.dereify')
    if len(fi.positional) < 4:
        rep.undecided(f'{fi.fq}: (instance, source relation, target relation)', fi.loc(), str(fi.positional))
        return rep
    _, ip, sp, tp_ = fi.positional[:4]
    cfg = CFG(fi.node)
    # what dereify raises besides ModelError must be about the SHAPE of the arguments, which the agenda guarantees (an instance triple, three triples of one node):
    # _dereify_agenda catches ModelError only, so any other refusal of a node the agenda proposes escapes from dereify_edges
    from ..resolve import facts_ex as _fx93, local_callees as _lc93
    ag = ctx.repo.maybe_func('penman.transform', '_dereify_agenda')
    caught = set()
    if ag is not None:
        for h_ in [x for x in walk_local(ag.node) if isinstance(x, ast.ExceptHandler) and x.type is not None]:
            caught |= {norm(t_) for t_ in (h_.type.elts if isinstance(h_.type, ast.Tuple) else [h_.type])}
    for f_ in [f for f in _lc93(ctx, fi, depth=1) if f.module.name == M]:
        for r_ in [x for x in walk_local(f_.node) if isinstance(x, ast.Raise) and isinstance(x.exc, ast.Call)]:
            cls_ = norm(r_.exc.func).split('.')[-1]
            if cls_ in caught or cls_ == 'ModelError' or not caught:
                continue
            # the test that guards this raise (the innermost `if` around it), with local names written out
            pm_ = ctx.repo.parent_map(f_.node)
            g_ = r_
            while id(g_) in pm_ and not (isinstance(pm_[id(g_)], ast.If) and g_ in pm_[id(g_)].body):
                g_ = pm_[id(g_)]
            test_ = pm_[id(g_)].test if id(g_) in pm_ else None
            fx_ = [norm(expand(ctx, f_, test_, test_)).replace(' ', '')] if test_ is not None else []
            shape = any('CONCEPT_ROLE' in f for f in fx_) or any('[0]==' in f or '[0]!=' in f for f in fx_)
            k_ = f'{f_.fq}: `{norm(r_)[:50]}` refuses only arguments the agenda never proposes'
            if shape:
                rep.ok(k_, f_.loc(r_), 'about the shape of the three triples')
            else:
                rep.violation(k_, f_.loc(r_), f'{cls_} is raised under {sorted(fx_)[:3]}, a condition on the ROLES of the two relations, which the agenda does not exclude; '
                              f'_dereify_agenda catches only {sorted(caught)}, so for such a node - e.g. one whose two relations have the same role - dereify_edges raises instead of leaving the '
                              f'node alone')
    loops = [n for n in walk_local(fi.node) if isinstance(n, ast.For) and isinstance(n.target, ast.Tuple) and len(n.target.elts) == 3
             and ('dereifications' in norm(n.iter) or 'dereifications' in norm(expand(ctx, fi, n.iter, n)))]
    if len(loops) != 1:
        rep.undecided(f'{fi.fq}: one loop over the (role, source role, target role) entries of the concept', fi.loc(), f'{len(loops)} loops')
        return rep
    loop = loops[0]
    e_role, e_src, e_tgt = [norm(x) for x in loop.target.elts]

    def slot(e):
        """which relation's role / target an expression denotes: ('role', 's'|'t') / ('tgt', 's'|'t') / ('entry', name)"""
        x = expand(ctx, fi, e, loop)
        while isinstance(x, ast.Call) and norm(x.func) in ('cast', 'typing.cast') and len(x.args) == 2:
            x = x.args[1]
        s = norm(x)
        for p_, tag in ((sp, 's'), (tp_, 't')):
            if s == f'{p_}[1]':
                return ('role', tag)
            if s == f'{p_}[2]':
                return ('tgt', tag)
        if s in (e_role, e_src, e_tgt):
            return ('entry', {e_role: 'role', e_src: 'src', e_tgt: 'tgt'}[s])
        return None
    from ..resolve import symbolic_returns
    try:
        paths = [(c, v, st) for c, v, st in symbolic_returns(fi, loop.body) if v is not None and isinstance(st, ast.Return)]
    except AnalysisError as e:
        rep.undecided(f'{fi.fq}: the paths through the loop body can be enumerated', fi.loc(loop), str(e)[:80])
        paths = []
    if not paths:
        rep.undecided(f'{fi.fq}: the dereified triple is returned from inside the loop', fi.loc(loop))
    for conds, val, r in paths:
        if not (isinstance(val, ast.Tuple) and len(val.elts) == 3):
            rep.undecided(f'{fi.fq}: a triple is returned', fi.loc(r), norm(val)[:60])
            continue
        eqs = set()
        for c, pol in conds:
            leaves = []

            def conj(e):
                if isinstance(e, ast.BoolOp) and isinstance(e.op, ast.And):
                    for v_ in e.values:
                        conj(v_)
                else:
                    leaves.append(e)
            if pol:
                conj(c)
            for c2 in leaves:
                if isinstance(c2, ast.Compare) and len(c2.ops) == 1 and isinstance(c2.ops[0], ast.Eq):
                    a, b = slot(c2.left), slot(c2.comparators[0])
                    if a and b:
                        eqs.add(tuple(sorted([a, b])))
        direct = {(('entry', 'src'), ('role', 's')), (('entry', 'tgt'), ('role', 't'))}
        swapped = {(('entry', 'src'), ('role', 't')), (('entry', 'tgt'), ('role', 's'))}
        cdesc = ' and '.join((('' if pol else 'not ') + norm(c)) for c, pol in conds)[:60]
        key = f'{fi.fq}: `{norm(val)[:50]}` (when {cdesc}) is returned only for an entry whose two roles both match'
        orient = 'direct' if direct <= eqs else ('swapped' if swapped <= eqs else None)
        if orient is None:
            part = sorted(eqs & (direct | swapped))
            rep.violation(key, fi.loc(r), f'the entry is accepted when only {len(part)} of its two roles is known to match ({[f"{a[1]}=={b[1]}" for a, b in part] or "none"}): a node whose other relation has '
                          f'any other role is collapsed into an edge with the wrong role / the wrong end, and reifying the result does not give the graph back')
            continue
        s0, s1, s2 = slot(val.elts[0]), slot(val.elts[1]), slot(val.elts[2])
        want = (('tgt', 's'), ('entry', 'role'), ('tgt', 't')) if orient == 'direct' else (('tgt', 't'), ('entry', 'role'), ('tgt', 's'))
        if (s0, s1, s2) == want:
            rep.ok(key, fi.loc(r), orient)
        elif None in (s0, s1, s2):
            rep.undecided(key, fi.loc(r), norm(val))
        else:
            rep.violation(key, fi.loc(r), f'the matching is {orient}, so the triple must be (target of the {"source" if orient == "direct" else "target"} relation, role of the entry, target of the other one); '
                          f'it is {norm(val)[:70]}')
    # nothing matched -> ModelError, on every path that leaves the loop by exhaustion
    head = cfg.node_of(loop)
    raises = {nd.id for nd in cfg.nodes if nd.kind == 'stmt' and isinstance(nd.ast, ast.Raise)}
    path = cfg.path_avoiding([(head, 'F')], {cfg.exit}, lambda nd: nd.id in raises)
    rep.add(f'{fi.fq}: when no entry matches, ModelError is raised', fi.loc(loop), 'violation' if path else 'ok',
            'after the loop the function can return normally (None): dereify_edges then uses None as a triple' if path else '')
    return rep


def _reach_fn(ctx: Ctx) -> FuncInfo:
    """The reachability search of Model.errors, found by its place (the one module-level function of penman.model that Model.errors calls and whose
    result is a set), not by its name."""
    named = ctx.repo.maybe_func(M, '_dfs')
    if named is not None:
        return named
    er = ctx.repo.func(M, 'Model.errors')
    cands = []
    for c, ts in ctx.cg.calls_in(er):
        for t in ts:
            if t.kind == 'func' and t.func.module.name == M and t.func.cls is None and t.func.parent is None and t.func not in cands:
                cands.append(t.func)
    cands = [f for f in cands if any(isinstance(r, ast.Return) and r.value is not None for r in walk_local(f.node))]
    if len(cands) != 1:
        raise AnalysisError(f'anchor vanished: the reachability search called by Model.errors ({[f.qualname for f in cands]})')
    return cands[0]


# ---------------------------------------------------------------------------------------------
@rule('R95', 'the reachability search behind "unreachable" treats relations as undirected and visits every neighbour of every node it reaches')
def r95(ctx: Ctx) -> RuleReport:
    from .graphq import _symmetric_closure, _worklist_closure
    rep = RuleReport('R95', r95.title, floor=3)
    fi = _reach_fn(ctx)
    pm = ctx.repo.parent_map(fi.node)
    # (1) symmetric closure of the adjacency map (in _dfs itself or in a helper it calls)
    key = f'{fi.fq}: every relation is entered in both directions (weak connectivity)'
    okc = False
    inner = []
    for f2 in local_callees(ctx, fi, depth=2):
        pm2 = ctx.repo.parent_map(f2.node)
        for n in walk_local(f2.node):
            if isinstance(n, ast.For) and isinstance(pm2.get(id(n)), ast.For) and isinstance(n.iter, ast.Name):
                if f2 is fi:
                    inner.append(n)
                if _symmetric_closure(ctx, f2, pm2, n, n.iter, 'for'):
                    okc = True
    if not okc:
        # the other common form: both directions are entered side by side   D[a].add(b); D[b].add(a)
        import re as _re2
        for f2 in local_callees(ctx, fi, depth=2):
            adds = {}
            for n in walk_local(f2.node):
                if isinstance(n, ast.Expr) and isinstance(n.value, ast.Call):
                    m_ = _re2.fullmatch(r'(\w+)\[(\w+)\]\.add\((\w+)\)', norm(n.value))
                    if m_:
                        adds[(m_.group(1), m_.group(2), m_.group(3))] = n
            pm2 = ctx.repo.parent_map(f2.node)
            for (d_, a_, b_), n in adds.items():
                other = adds.get((d_, b_, a_))
                if other is not None and a_ != b_ and pm2.get(id(n)) is pm2.get(id(other)):
                    okc = True
    if okc:
        rep.ok(key, fi.loc(inner[0]) if inner else fi.loc())
    else:
        resets = [n for n in walk_local(fi.node) if isinstance(n, ast.Assign) and isinstance(n.targets[0], ast.Subscript) and isinstance(n.value, ast.Call)
                  and norm(n.value.func) == 'set' and not n.value.args]
        _c = CFG(fi.node)
        _live = _c.reachable_from([_c.entry])
        resets = [n for n in resets if _c.node_of(n) in _live]
        unguarded = [n for n in resets if not any(pol and ' not in ' in f for f, pol in facts_ex(ctx, fi, n))]
        adds = [n for n in walk_local(fi.node) if isinstance(n, ast.Call) and isinstance(n.func, ast.Attribute) and n.func.attr == 'add' and isinstance(n.func.value, ast.Subscript)]
        if unguarded:
            rep.violation(key, fi.loc(unguarded[0]), f'`{norm(unguarded[0])}` empties the neighbour set of a node that may already have neighbours: relations recorded before are forgotten, '
                          f'so triples that are connected to the top are reported as unreachable')
        elif inner and not adds:
            rep.violation(key, fi.loc(inner[0]), 'no neighbour is ever added in the reverse direction: only what the top points to is reached, and every node that merely points to it '
                          '(an inverted relation in the text) is reported as unreachable')
        else:
            rep.undecided(key, fi.loc(), 'the symmetric closure `for k, vs in q.items(): for v in vs: q[v].add(k)` was not recognised')
    # (2) the work-list
    key = f'{fi.fq}: every unvisited neighbour of a visited node is put on the agenda'
    found = False
    from .graphq import _as_comprehension as _asc
    for n in walk_local(fi.node):
        if isinstance(n, ast.Call) and isinstance(n.func, ast.Attribute) and n.func.attr == 'extend' and n.args \
                and isinstance(_asc(ctx, fi, n.args[0]) if isinstance(n.args[0], ast.Call) else n.args[0], (ast.GeneratorExp, ast.ListComp)):
            comp = _asc(ctx, fi, n.args[0]) if isinstance(n.args[0], ast.Call) else n.args[0]
            found = True
            g0 = comp.generators[0]
            neg = [c for c in g0.ifs if isinstance(c, ast.Compare) and len(c.ops) == 1 and isinstance(c.ops[0], ast.In) and norm(c.left) == norm(g0.target)]
            negn = [c for c in g0.ifs if isinstance(c, ast.UnaryOp) and isinstance(c.op, ast.Not) and isinstance(c.operand, ast.Compare)
                    and isinstance(c.operand.ops[0], ast.NotIn)]
            if neg or negn:
                rep.violation(key, fi.loc(n), f'the filter `{norm((neg or negn)[0])}` keeps only nodes that were visited already: nothing new is ever explored, every node but the top is unreachable')
            elif _worklist_closure(ctx, fi, pm, comp, g0.iter, 'comp'):
                rep.ok(key, fi.loc(n))
            else:
                rep.undecided(key, fi.loc(n), 'work-list shape not recognised')
    if not found:
        for n in walk_local(fi.node):
            if isinstance(n, ast.For) and isinstance(pm.get(id(n)), ast.While) or (isinstance(n, ast.For) and any(isinstance(a_, ast.While) for a_ in [pm.get(id(n))])):
                if _worklist_closure(ctx, fi, pm, n, n.iter, 'for'):
                    conds = [c for c in ast.walk(n) if isinstance(c, ast.If)]
                    wrong = [c for c in conds if isinstance(c.test, ast.Compare) and isinstance(c.test.ops[0], ast.In) and norm(c.test.left) == norm(n.target)
                             and any(isinstance(x, ast.Call) and isinstance(x.func, ast.Attribute) and x.func.attr == 'append' for x in ast.walk(ast.Module(body=c.body, type_ignores=[])))]
                    found = True
                    if wrong:
                        rep.violation(key, fi.loc(n), f'only neighbours that were visited already are put on the agenda (`{norm(wrong[0].test)}`)')
                    else:
                        rep.ok(key, fi.loc(n))
    if not found:
        whiles = [n for n in walk_local(fi.node) if isinstance(n, ast.While)]
        if whiles and not any(isinstance(x, ast.Call) and isinstance(x.func, ast.Attribute) and x.func.attr in ('extend', 'append', 'add', 'update') for x in ast.walk(whiles[0])):
            rep.violation(key, fi.loc(whiles[0]), 'the loop that works off the agenda never adds to it: only the top itself is reached')
        else:
            rep.undecided(key, fi.loc(), 'no agenda.extend(<neighbours>) found')
    # (3) the start is the top
    rets = [n for n in walk_local(fi.node) if isinstance(n, ast.Return) and n.value is not None]
    rep.add(f'{fi.fq}: returns the set of visited nodes', fi.loc(), 'ok' if rets and all(isinstance(r.value, ast.Name) for r in rets) else 'undecided')
    return rep


# ---------------------------------------------------------------------------------------------
@rule('R114', 'the reification tables are consulted with the role / concept exactly as the triple has it (no rewriting between the graph and the lookup)')
def r114(ctx: Ctx) -> RuleReport:
    rep = RuleReport('R114', r114.title, floor=3)
    M = ctx.repo.module('penman.model')
    methods = [f for f in M.all_funcs if f.cls is not None and f.cls.name == 'Model']
    for fi in methods:
        sites = []
        for n in walk_local(fi.node):
            if isinstance(n, ast.Compare) and len(n.ops) == 1 and isinstance(n.ops[0], (ast.In, ast.NotIn)) \
                    and norm(n.comparators[0]) in ('self.reifications', 'self.dereifications'):
                sites.append((n, n.left, norm(n.comparators[0])))
            elif isinstance(n, ast.Subscript) and norm(n.value) in ('self.reifications', 'self.dereifications') and isinstance(n.ctx, ast.Load):
                sites.append((n, n.slice, norm(n.value)))
            elif isinstance(n, ast.Call) and isinstance(n.func, ast.Attribute) and n.func.attr == 'get' and n.args \
                    and norm(n.func.value) in ('self.reifications', 'self.dereifications'):
                sites.append((n, n.args[0], norm(n.func.value)))
        for n, k, table in sites:
            key = f'{fi.fq}: `{norm(n)[:60]}` looks up what the triple says'
            verdict, why = _as_written(ctx, fi, k, set())
            rep.add(key, fi.loc(n), verdict, why if verdict != 'violation' else
                    f'{why}: the table is asked about a rewritten {"role" if table.endswith(".reifications") else "concept"}, so a triple whose own role is not in the '
                    f'table (":domain-of" with a constant target under the AMR model, which normalises to ":mod") is reified as if it were, and '
                    f'dereifying gives back the rewritten role - reify then dereify no longer restores the graph')
    return rep


def _as_written(ctx, fi, e, seen):
    """Is expression `e` a value taken unchanged from a parameter (the parameter, an element of it, an unpacked element)?"""
    if isinstance(e, ast.Call) and norm(e.func) in ('cast', 'typing.cast') and len(e.args) == 2:
        return _as_written(ctx, fi, e.args[1], seen)
    if isinstance(e, ast.Subscript):
        return _as_written(ctx, fi, e.value, seen)
    if isinstance(e, ast.Call):
        # a helper of the module that only picks parts out of its arguments: return a[2], b[1], c[1]
        hs = [t.func for t in ctx.cg.resolve_call(e, fi) if t.kind == 'func']
        if len(hs) == 1 and hs[0].module.name == fi.module.name and hs[0].fq != fi.fq and len(seen) < 6:
            h = hs[0]
            rets = [x for x in walk_local(h.node) if isinstance(x, ast.Return) and x.value is not None]
            if rets:
                parts = []
                for r_ in rets:
                    parts += list(r_.value.elts) if isinstance(r_.value, ast.Tuple) else [r_.value]
                inner = [_as_written(ctx, h, p_, set()) for p_ in parts]
                outer = [_as_written(ctx, fi, a_, seen) for a_ in e.args]
                if all(v_ == 'ok' for v_, _ in inner + outer):
                    return 'ok', f'{h.qualname} hands parts of its arguments back unchanged'
                if any(v_ == 'undecided' for v_, _ in inner + outer):
                    return 'undecided', f'through {h.qualname}'
        return 'violation', f'the key is the result of `{norm(e)[:50]}`'
    if not isinstance(e, ast.Name):
        return 'undecided', f'key `{norm(e)[:40]}`'
    if e.id in seen:
        return 'ok', ''
    seen = seen | {e.id}
    defs = []
    for n in walk_local(fi.node):
        if isinstance(n, ast.Assign):
            for t in n.targets:
                if isinstance(t, ast.Name) and t.id == e.id:
                    defs.append(n.value)
                elif isinstance(t, (ast.Tuple, ast.List)) and any(isinstance(x, ast.Name) and x.id == e.id for x in t.elts):
                    defs.append(n.value)
        elif isinstance(n, ast.AnnAssign) and isinstance(n.target, ast.Name) and n.target.id == e.id and n.value is not None:
            defs.append(n.value)
        elif isinstance(n, (ast.For, ast.comprehension)) and any(isinstance(x, ast.Name) and x.id == e.id for x in ast.walk(n.target)):
            defs.append(None)
        elif isinstance(n, (ast.AugAssign, ast.NamedExpr)) and isinstance(n.target, ast.Name) and n.target.id == e.id:
            defs.append(None)
    if not defs:
        return ('ok', f'parameter `{e.id}`') if e.id in fi.params else ('undecided', f'`{e.id}` is not a parameter and has no definition')
    worst = ('ok', f'`{e.id}` is taken unchanged from the arguments')
    for d in defs:
        if d is None:
            return 'undecided', f'`{e.id}` is bound by a loop or an update'
        v, why = _as_written(ctx, fi, d, seen)
        if v == 'violation':
            return v, f'`{e.id}` is `{norm(d)[:50]}`' if isinstance(d, ast.Call) else why
        if v == 'undecided':
            worst = (v, why)
    return worst


# ---------------------------------------------------------------------------------------------
@rule('R135', 'the instance triple of a reified node carries the same concept role that the transformations and the layout recognise instance triples by')
def r135(ctx: Ctx) -> RuleReport:
    rep = RuleReport('R135', r135.title, floor=2)
    # what do the consumers compare with?
    consumers = []
    for modname in ('penman.transform', 'penman.layout', 'penman.graph'):
        m = ctx.repo.module(modname)
        for f in m.all_funcs:
            for n in walk_local(f.node):
                if isinstance(n, ast.Compare) and len(n.ops) == 1 and isinstance(n.ops[0], (ast.Eq, ast.NotEq)):
                    sides = [norm(n.left), norm(n.comparators[0])]
                    if 'CONCEPT_ROLE' in sides:
                        consumers.append(f.fq)
    by_constant = len(consumers)
    rep.analysed['comparisons_with_CONCEPT_ROLE_in_transform_layout_graph'] = by_constant
    # ... and none of them reads the concept role from the model instead: the "/" of the text always becomes the constant (_process_role)
    n_attr = 0
    for modname in ('penman.transform', 'penman.layout', 'penman.graph', 'penman.tree'):
        m = ctx.repo.module(modname)
        for f in m.all_funcs:
            for n in walk_local(f.node):
                if isinstance(n, ast.Attribute) and n.attr == 'concept_role' and isinstance(n.ctx, ast.Load) and by_constant:
                    n_attr += 1
                    rep.violation(f'{f.fq}: instance triples are recognised and built with the constant CONCEPT_ROLE', f.loc(n),
                                  f'`{norm(n)}` takes the concept role from the model here, while {by_constant} comparisons in transform / layout / graph and the "/" of the text '
                                  f'(_process_role) use the constant CONCEPT_ROLE: under Model(concept_role=":isa") a written concept "(a / alpha)" is not recognised as one, so '
                                  f'every node gets an additional (a :isa None) triple')
    rep.analysed['reads_of_model_concept_role_in_transform_layout_graph_tree'] = n_attr
    rf = ctx.repo.func(M, 'Model.reify')
    for r in _ret_stmts(rf):
        v = r.value
        if isinstance(v, ast.Tuple) and len(v.elts) == 3 and all(isinstance(e, ast.Tuple) and len(e.elts) == 3 for e in v.elts):
            role = v.elts[1].elts[1]
            key = f'{rf.fq}: the new node\'s concept triple is (var, CONCEPT_ROLE, concept)'
            if norm(role) == 'CONCEPT_ROLE':
                rep.ok(key, rf.loc(r))
            elif isinstance(role, ast.Attribute) and norm(role.value) == 'self' and by_constant:
                rep.violation(key, rf.loc(r), f'the role is `{norm(role)}`, a setting of the model, while {by_constant} comparisons in transform / layout / graph (e.g. in '
                              f'{sorted(set(consumers))[:3]}) recognise an instance triple by the constant CONCEPT_ROLE: for a model with another concept role the reified node has '
                              f'no instance triple in their eyes - it is never dereified again, and it is laid out as a node without concept')
            else:
                rep.undecided(key, rf.loc(r), norm(role))
    df = ctx.repo.func(M, 'Model.dereify')
    tp = df.positional[1] if len(df.positional) > 1 else 'instance_triple'
    # the test may sit in a helper that is handed the instance triple as its first argument
    sites_ = [(df, tp)]
    for c_, ts_ in ctx.cg.calls_in(df):
        for t_ in ts_:
            if t_.kind == 'func' and t_.func.module.name == M and c_.args and norm(c_.args[0]) == tp and t_.func.positional:
                sites_.append((t_.func, t_.func.positional[0]))
    for df, tp in sites_:
      for n in walk_local(df.node):
        if isinstance(n, ast.Compare) and len(n.ops) == 1 and isinstance(n.ops[0], (ast.Eq, ast.NotEq)) and norm(n.left) == f'{tp}[1]':
            other = n.comparators[0]
            key = f'{df.fq}: `{norm(n)}` recognises the instance triple by CONCEPT_ROLE'
            if norm(other) == 'CONCEPT_ROLE':
                rep.ok(key, df.loc(n))
            elif isinstance(other, ast.Attribute) and norm(other.value) == 'self' and by_constant:
                rep.violation(key, df.loc(n), f'the instance triple is recognised by `{norm(other)}` here and by the constant CONCEPT_ROLE in the {by_constant} comparisons of transform / '
                              f'layout / graph: under a model with another concept role the triples that _dereify_agenda collects as instance triples are refused with ValueError')
            else:
                rep.undecided(key, df.loc(n), norm(other))
    return rep
