"""Smaller anchored rules added after the first round of seeded changes:
R49 (alignment text is split without losing or duplicating a character), R50 (only variables become
node-map keys), R51 (a quoted atom ends at its last double quote), R52 (reset_variables always applies
the map), R53 (superfluous POPs are dropped after every configuration round), R54 (difference resets
the top only when it occurs in no remaining triple), R55 (re-entrancies are counted over edges)."""
from __future__ import annotations

import ast
from typing import Dict, List, Optional, Set, Tuple

from .. import boolnorm as bn
from ..cfg import CFG, assigned_names, cond_facts, facts_at, owner_node
from ..core import Ctx, RuleReport, rule
from ..src import AnalysisError, FuncInfo, norm, try_fold, walk_local
from ..tyeng import has
from .lexical import single_def
from ..resolve import ctor_param_unused, facts_ex


# ---------------------------------------------------------------------------------------------
class _SplitState:
    def __init__(self):
        self.ints: Dict[str, int] = {}
        self.consumed = 0           # characters dropped from the front of the scanned string
        self.plen: Optional[int] = None    # length of the prefix taken
        self.pstart: Optional[int] = None

    def copy(self):
        c = _SplitState()
        c.ints = dict(self.ints)
        c.consumed, c.plen, c.pstart = self.consumed, self.plen, self.pstart
        return c


def _int(e: ast.AST, st: _SplitState) -> List[int]:
    if isinstance(e, ast.Constant) and isinstance(e.value, int):
        return [e.value]
    if isinstance(e, ast.Name) and e.id in st.ints:
        return [st.ints[e.id]]
    if isinstance(e, ast.IfExp):
        return _int(e.body, st) + _int(e.orelse, st)
    raise AnalysisError(f'R49: index expression not understood: {norm(e)}')


def _split_paths(stmts: List[ast.stmt], st: _SplitState, s: str, p: str) -> List[_SplitState]:
    states = [st]
    for stmt in stmts:
        new: List[_SplitState] = []
        for cur in states:
            new += _split_stmt(stmt, cur, s, p)
        states = new
    return states


def _slice_of(e: ast.AST, s: str, st: _SplitState) -> Optional[List[Tuple[Optional[int], Optional[int], bool]]]:
    """(lo, hi, is_single_char) alternatives if e is s[...] else None"""
    if isinstance(e, ast.Subscript) and isinstance(e.value, ast.Name) and e.value.id == s:
        if isinstance(e.slice, ast.Slice):
            los = _int(e.slice.lower, st) if e.slice.lower is not None else [0]
            his = _int(e.slice.upper, st) if e.slice.upper is not None else [None]
            return [(lo, hi, False) for lo in los for hi in his]
        return [(i, i + 1, True) for i in _int(e.slice, st)]
    return None


def _split_stmt(stmt: ast.stmt, st: _SplitState, s: str, p: str) -> List[_SplitState]:
    if isinstance(stmt, ast.If):
        return _split_paths(stmt.body, st.copy(), s, p) + _split_paths(stmt.orelse, st.copy(), s, p)
    if isinstance(stmt, ast.Assign) and len(stmt.targets) == 1:
        tgt = stmt.targets[0]
        pairs: List[Tuple[ast.AST, ast.AST]] = []
        if isinstance(tgt, ast.Tuple) and isinstance(stmt.value, ast.Tuple) and len(tgt.elts) == len(stmt.value.elts):
            pairs = list(zip(tgt.elts, stmt.value.elts))
        else:
            pairs = [(tgt, stmt.value)]
        outs = [st.copy()]
        # right-hand sides are evaluated in the state *before* the statement
        for t, v in pairs:
            nxt = []
            for cur in outs:
                if not isinstance(t, ast.Name):
                    raise AnalysisError(f'R49: assignment target not understood: {norm(stmt)}')
                if t.id == p:
                    sl = _slice_of(v, s, st)
                    if sl is None:
                        if isinstance(v, ast.Constant) and v.value is None:
                            nxt.append(cur)
                            continue
                        raise AnalysisError(f'R49: prefix is not a slice of the scanned string: {norm(stmt)}')
                    for lo, hi, _ in sl:
                        c = cur.copy()
                        if hi is None:
                            raise AnalysisError('R49: open-ended prefix slice')
                        c.pstart, c.plen = st.consumed + lo, hi - lo
                        nxt.append(c)
                elif t.id == s:
                    sl = _slice_of(v, s, st)
                    if sl is None:
                        raise AnalysisError(f'R49: the scanned string is re-bound to something else: {norm(stmt)}')
                    for lo, hi, _ in sl:
                        if hi is not None:
                            raise AnalysisError('R49: the rest of the scanned string is cut at the end')
                        c = cur.copy()
                        c.consumed = st.consumed + lo
                        nxt.append(c)
                else:
                    for val in _int(v, st):
                        c = cur.copy()
                        c.ints[t.id] = val
                        nxt.append(c)
            outs = nxt
        return outs
    if isinstance(stmt, ast.AugAssign) and isinstance(stmt.target, ast.Name) and stmt.target.id == p and isinstance(stmt.op, ast.Add):
        ok, lit = try_fold(stmt.value)
        c = st.copy()
        if ok and isinstance(lit, str) and c.plen is not None:
            c.plen += len(lit)
            return [c]
        sl = _slice_of(stmt.value, s, st)
        if sl is not None and c.plen is not None:
            outs = []
            for lo, hi, _ in sl:
                d = c.copy()
                d.plen += (hi - lo)
                outs.append(d)
            return outs
        raise AnalysisError(f'R49: prefix extension not understood: {norm(stmt)}')
    if isinstance(stmt, (ast.Pass, ast.Expr)):
        return [st]
    raise AnalysisError(f'R49: statement not understood: {norm(stmt)[:60]}')


@rule('R49', 'an alignment marker text is split into prefix and indices without dropping or repeating a character')
def r49(ctx: Ctx) -> RuleReport:
    rep = RuleReport('R49', r49.title, floor=2)
    from ..resolve import local_callees
    root = ctx.repo.func('penman.surface', 'AlignmentMarker.from_string')
    scope = [f for f in local_callees(ctx, root, depth=1) if f.module.name == 'penman.surface']
    # the block that takes the optional one-letter prefix: `if <s>[0].isalpha(): ...` (in from_string or a helper it calls)
    blk = None
    fi = root
    for f in scope:
        for n in walk_local(f.node):
            if isinstance(n, ast.If) and 'isalpha()' in norm(n.test):
                blk, fi = n, f
    if blk is None:
        raise AnalysisError('from_string: no `if _s[0].isalpha()` block')
    m = blk.test
    s = None
    for x in ast.walk(m):
        if isinstance(x, ast.Subscript) and isinstance(x.value, ast.Name):
            s = x.value.id
    pnames = [n.targets[0].id for n in walk_local(fi.node) if isinstance(n, ast.Assign) and isinstance(n.targets[0], ast.Name)
              and isinstance(n.value, ast.Constant) and n.value.value is None]
    if s is None or not pnames:
        raise AnalysisError('from_string: scanned string / prefix variable not identified')
    p = pnames[0]
    finals = _split_paths(blk.body, _SplitState(), s, p)
    for i, st in enumerate(finals):
        key = f'penman.surface:AlignmentMarker.from_string: path {i + 1}: prefix length {st.plen}, characters consumed {st.consumed}'
        good = st.plen is not None and st.pstart == 0 and st.consumed == st.plen
        rep.add(key, fi.loc(blk), 'ok' if good else 'violation',
                '' if good else f'the prefix takes {st.plen} character(s) from position {st.pstart} but the index list continues at position '
                                f'{st.consumed}: a digit is swallowed (or a character is read twice) for a prefix of that shape')
    # indices: the rest, split at commas, each converted with int
    rest_ok = any(isinstance(n, ast.Call) and norm(n.func) == 'map' and len(n.args) == 2 and norm(n.args[0]) == 'int'
                  and norm(n.args[1]).endswith(".split(',')") for f in scope for n in walk_local(f.node)) or \
        any(isinstance(n, (ast.GeneratorExp, ast.ListComp)) and ".split(',')" in norm(n) and 'int(' in norm(n) for f in scope for n in walk_local(f.node))
    rep.add('penman.surface:AlignmentMarker.from_string: indices are the comma-separated integers of the rest', fi.loc(),
            'ok' if rest_ok else 'undecided')
    # the constructor keeps the indices exactly as given (order and repetitions are part of what was written)
    init = ctx.repo.cls('penman.surface', 'AlignmentMarker').find_method('__init__')
    for n in walk_local(init.node):
        if isinstance(n, ast.Assign) and norm(n.targets[0]) in ('self.indices', 'self.prefix'):
            attr = n.targets[0].attr
            v = n.value
            changed = isinstance(v, ast.Call) and any(isinstance(x, ast.Call) and norm(x.func) in ('sorted', 'set', 'frozenset', 'reversed', 'dict.fromkeys')
                                                       for x in ast.walk(v))
            rep.add(f'penman.surface:AlignmentMarker.__init__: {attr} is stored as given', init.loc(n),
                    'ok' if norm(v) == attr else ('violation' if changed else 'undecided'),
                    '' if norm(v) == attr else f'`{norm(n)[:60]}`: the marker no longer records what the text said (~e.7,2 comes back as ~e.2,7; ~2,2 as ~2)')
    # writer side agrees: ~ prefix indices joined by commas
    w = ctx.repo.func('penman.surface', 'AlignmentMarker.__str__')
    joins = [n for n in walk_local(w.node) if isinstance(n, ast.Call) and isinstance(n.func, ast.Attribute) and n.func.attr == 'join' and n.args
             and 'indices' in norm(n.args[0])]
    k5 = 'penman.surface:AlignmentMarker.__str__: writes ~, the prefix, the indices joined by commas'
    if not joins:
        rep.undecided(k5, w.loc(), 'no <separator>.join(... indices ...)')
    for j in joins:
        oks, sep = try_fold(j.func.value)
        if oks and sep == ',':
            rep.ok(k5, w.loc(j))
        elif oks:
            rep.violation(k5, w.loc(j), f'the indices are joined with {sep!r}: the lexical grammar of an alignment is ~[prefix.]digits(,digits)*, so ~e.1,2 is written as '
                          f'{"~e.1" + str(sep) + "2"!r}, which is read back as another alignment (or not as one token)')
        else:
            rep.undecided(k5, w.loc(j), norm(j.func.value))
    return rep


# ---------------------------------------------------------------------------------------------
@rule('R50', 'only variables become keys of the node map (a constant target never opens a node site)')
def r50(ctx: Ctx) -> RuleReport:
    rep = RuleReport('R50', r50.title, floor=2)
    for qn in ('_configure_node', '_get_or_establish_site', '_configure'):
        fi = ctx.repo.func('penman.layout', qn)
        cfg = CFG(fi.node)
        IN = cond_facts(cfg)
        pm = ctx.repo.parent_map(fi.node)
        for n in walk_local(fi.node):
            if not (isinstance(n, ast.Assign) and isinstance(n.targets[0], ast.Subscript) and norm(n.targets[0].value) == 'nodemap'):
                continue
            k = n.targets[0].slice
            kt = ctx.types.type_of(fi, k)
            key = f'penman.layout:{qn}: {norm(n)[:60]}'
            if not has(kt, 'Const') and not has(kt, 'any') and kt:
                rep.ok(key, fi.loc(n), 'key is typed as a variable')
                continue
            facts = facts_at(cfg, IN, pm, n)
            ks = norm(k)
            guard = (f'{ks} in nodemap', True) in facts or (f'{ks} not in nodemap', False) in facts
            pushed = ('push', True) in facts
            if guard:
                rep.ok(key, fi.loc(n), f'guarded by `{ks} in nodemap`')
            elif pushed:
                rep.ok(key, fi.loc(n), 'under a Push marker validated by _preconfigure (the pushed variable is an end of the triple)')
            elif qn != '_configure_node':
                rep.ok(key, fi.loc(n), 'key comes from the map itself / the validated top')
            else:
                rep.violation(key, fi.loc(n),
                              f'{ks} may be a constant (attribute value): storing it as a key makes later membership tests treat the '
                              f'constant as a variable waiting for a node, and an attribute is turned into a bogus nested node')
    # _preconfigure: push is only set after the marker was validated against the triple
    pc = ctx.repo.func('penman.layout', '_preconfigure')
    cfg = CFG(pc.node)
    stores = [nd for nd in cfg.nodes if nd.kind == 'stmt' and isinstance(nd.ast, ast.Assign) and norm(nd.ast) == 'push = True']
    checks = [nd for nd in cfg.nodes if nd.kind == 'cond' and 'not in (var, target)' in norm(nd.ast)]
    good = bool(stores) and bool(checks)
    if good:
        for s in stores:
            path = cfg.path_avoiding([(cfg.entry, None)], {s.id}, lambda nd: nd.id in {c.id for c in checks})
            # reaching the store requires passing the validity test (on its false edge: `continue` on true)
            good = good and path is None
    rep.add('penman.layout:_preconfigure: a Push is honoured only if its variable is an end of the triple', pc.loc(),
            'ok' if good else 'undecided')
    return rep


@rule('R51', 'the alignment of a quoted atom starts after its last double quote')
def r51(ctx: Ctx) -> RuleReport:
    rep = RuleReport('R51', r51.title, floor=1)
    fi = ctx.repo.func('penman.layout', '_process_atomic')
    p = fi.positional[0]
    found = 0
    for n in walk_local(fi.node):
        if isinstance(n, ast.Call) and isinstance(n.func, ast.Attribute) and n.func.attr in ('index', 'rindex', 'find', 'rfind', 'rpartition', 'partition', 'split', 'rsplit') \
                and isinstance(n.func.value, ast.Name) and n.func.value.id == p and n.args and try_fold(n.args[0]) == (True, '"'):
            found += 1
            last = n.func.attr in ('rindex', 'rfind', 'rpartition') and len(n.args) == 1
            rep.add(f'penman.layout:_process_atomic: {norm(n)}', fi.loc(n), 'ok' if last else 'violation',
                    'the closing quote is the last " of the atom (an ALIGNMENT token contains no quote: R8h)' if last else
                    'the closing quote is searched from the front: an escaped \\" inside the string is taken for the end, and the '
                    'rest of the string is parsed as an alignment')
    for n in walk_local(fi.node):
        if isinstance(n, ast.Call) and isinstance(n.func, ast.Attribute) and n.func.attr in ('index', 'rindex', 'find', 'rfind', 'rpartition', 'partition', 'split', 'rsplit') \
                and isinstance(n.func.value, ast.Name) and n.func.value.id == p and n.args:
            okf, sep = try_fold(n.args[0])
            if okf and isinstance(sep, str) and '"' in sep and sep != '"':
                found += 1
                rep.violation(f'penman.layout:_process_atomic: {norm(n)}', fi.loc(n),
                              f'the end of the string is searched as the text {sep!r}: that pair can also occur at the very start of the atom ("~user/data") or '
                              f'after an escaped quote inside it (\\"~), so content of the string is split off as an alignment')
    for n in walk_local(fi.node):
        if isinstance(n, ast.Call) and isinstance(n.func, ast.Attribute) and n.func.attr in ('search', 'finditer', 'findall', 'split', 'sub') \
                and any(norm(a) == p for a in n.args):
            found += 1
            rep.violation(f'penman.layout:_process_atomic: {norm(n)[:50]}', fi.loc(n),
                          f'the alignment is located with an unanchored regex {n.func.attr}() over the whole atom: the first alignment-like text anywhere is '
                          f'taken, including one inside a quoted string ("http://example.org/~2/page"), and the rest of the atom is cut off')
    if not found:
        raise AnalysisError('_process_atomic: no search for the closing double quote')
    # strings are recognised by their opening quote
    okq = any(isinstance(n, ast.Call) and norm(n) == f"{p}.startswith('\"')" for n in walk_local(fi.node))
    rep.add('penman.layout:_process_atomic: quoted atoms are recognised by their opening quote', fi.loc(), 'ok' if okq else 'undecided')
    return rep


@rule('R52', 'Tree.reset_variables always rewrites the tree with the map it built, and maps every node variable')
def r52(ctx: Ctx) -> RuleReport:
    from .lexical import map_vars_func
    rep = RuleReport('R52', r52.title, floor=3)
    fi = ctx.repo.func('penman.tree', 'Tree.reset_variables')
    cfg = CFG(fi.node)
    pm = ctx.repo.parent_map(fi.node)
    apply_ = [n for n in walk_local(fi.node) if isinstance(n, ast.Assign) and norm(n.targets[0]) == 'self.node'
              and isinstance(n.value, ast.Call) and norm(n.value.func) == map_vars_func(ctx).name]
    if len(apply_) != 1:
        rep.undecided('penman.tree:Tree.reset_variables: the tree is rewritten by _map_vars', fi.loc(), f'{len(apply_)} such assignments')
        return rep
    a = apply_[0]
    an = cfg.node_of(a)
    path = cfg.path_avoiding([(cfg.entry, None)], {cfg.exit}, lambda nd: nd.id == an)
    rep.add('penman.tree:Tree.reset_variables: every call rewrites the tree (no early exit)', fi.loc(a), 'violation' if path else 'ok',
            'the method can return without applying the variable map: ' + ' -> '.join(repr(cfg.nodes[p]) for p in path[-4:]) if path else '')
    args = [norm(x) for x in a.value.args]
    if a.value.keywords and not a.value.args:
        # arguments given by keyword: put them in the order of the parameters
        mvf = map_vars_func(ctx)
        kw = {k.arg: norm(k.value) for k in a.value.keywords}
        args = [kw[p_] for p_ in mvf.positional if p_ in kw]
    vm = args[1] if len(args) > 1 else None
    rep.add('penman.tree:Tree.reset_variables: _map_vars receives the whole tree and the map', fi.loc(a),
            'ok' if args[:1] == ['self.node'] and vm else 'undecided', str(args))
    loop = next((n for n in walk_local(fi.node) if isinstance(n, ast.For) and norm(single_def(ctx, fi, n.iter) if isinstance(n.iter, ast.Name) else n.iter) == 'self.nodes()'), None)
    good = False
    if loop is not None and isinstance(loop.target, ast.Tuple):
        v = norm(loop.target.elts[0])
        st = [n for n in ast.walk(loop) if isinstance(n, ast.Assign) and norm(n.targets[0]) == f'{vm}[{v}]']
        if st:
            sn = cfg.node_of(st[0])
            head = cfg.node_of(loop)
            for nd in cfg.nodes:
                if nd.kind == 'cond' and norm(nd.ast) in (f'{v} not in {vm}', f'{v} in {vm}'):
                    edge = 'T' if ' not in ' in norm(nd.ast) else 'F'
                    skip = cfg.path_avoiding([(nd.id, edge)], {head, cfg.exit}, lambda x: x.id == sn)
                    good = skip is None
                    if skip:
                        rep.violation('penman.tree:Tree.reset_variables: every node variable not yet mapped receives a new name', fi.loc(nd.ast),
                                      'an unmapped variable can pass without being given a name: ' + ' -> '.join(repr(cfg.nodes[p]) for p in skip[-4:]))
                        return rep
    if not good and vm:
        # are the new names handed out while walking the nodes (depth-first), or in another order?
        stores_any = [n for n in walk_local(fi.node) if isinstance(n, ast.Assign) and isinstance(n.targets[0], ast.Subscript) and norm(n.targets[0].value) == vm]
        for st_ in stores_any:
            encl = []
            cur = st_
            while id(cur) in pm:
                cur = pm[id(cur)]
                if isinstance(cur, ast.For):
                    encl.append(cur)
            if not encl:
                continue
            outer_ = encl[-1]
            it_ = norm(outer_.iter)
            if it_ == 'self.nodes()':
                continue
            grouped = isinstance(outer_.iter, ast.Call) and isinstance(outer_.iter.func, ast.Attribute) and outer_.iter.func.attr in ('items', 'values', 'keys') \
                and isinstance(outer_.iter.func.value, ast.Name)
            if grouped:
                d_ = outer_.iter.func.value.id
                rep.violation('penman.tree:Tree.reset_variables: new names are chosen node by node in depth-first order', fi.loc(st_),
                              f'`{norm(st_)[:40]}` runs in a loop over `{it_}`, a table that groups the variables (by prefix): the names are handed out group by group, so a node '
                              f'whose prefix occurred earlier is named before nodes that come first in the tree - with a format that does not contain {{prefix}} ("v{{i}}") the '
                              f'numbering is no longer the depth-first order of the nodes (`{d_}` keeps the order in which the groups first appear, not the order of the nodes)')
                return rep
    if not good and loop is not None and isinstance(loop.target, ast.Tuple):
        # the skip test is made against another set: whose names does that set hold?
        v = norm(loop.target.elts[0])
        st = [n for n in ast.walk(loop) if isinstance(n, ast.Assign) and norm(n.targets[0]) == f'{vm}[{v}]']
        for nd in cfg.nodes:
            if not (st and nd.kind == 'cond' and isinstance(nd.ast, ast.Compare) and len(nd.ast.ops) == 1 and isinstance(nd.ast.ops[0], (ast.In, ast.NotIn))
                    and norm(nd.ast.left) == v and isinstance(nd.ast.comparators[0], ast.Name)):
                continue
            S = nd.ast.comparators[0].id
            if S == vm:
                continue
            edge = 'T' if isinstance(nd.ast.ops[0], ast.In) else 'F'
            sn, head = cfg.node_of(st[0]), cfg.node_of(loop)
            skip = cfg.path_avoiding([(nd.id, edge)], {head, cfg.exit}, lambda x: x.id == sn)
            if not skip:
                continue
            adds = [c.args[0] for c in walk_local(fi.node) if isinstance(c, ast.Call) and isinstance(c.func, ast.Attribute) and c.func.attr == 'add'
                    and norm(c.func.value) == S and c.args]
            newname = norm(st[0].value)
            if adds and all(norm(a_) == newname for a_ in adds):
                rep.violation('penman.tree:Tree.reset_variables: every node variable not yet mapped receives a new name', fi.loc(nd.ast),
                              f'`{norm(nd.ast)}` skips a node, but `{S}` only ever receives the NEW names (`{S}.add({newname})`) while `{v}` is an OLD variable of the tree: '
                              f'a node whose present variable equals a name already handed out - (b / alpha :ARG0 (a / beta)) with "{{prefix}}{{j}}" - gets no entry in '
                              f'`{vm}`, and the rewrite then fails with KeyError or leaves it with a name that is now taken')
                return rep
    rep.add('penman.tree:Tree.reset_variables: every node variable not yet mapped receives a new name', fi.loc(), 'ok' if good else 'undecided')
    # the retry test: a candidate name is refused only because it was HANDED OUT already - never because of the names the tree has at present
    for w in [n for n in walk_local(fi.node) if isinstance(n, ast.While)]:
        fmt_names = {n.targets[0].id for n in ast.walk(w) if isinstance(n, ast.Assign) and isinstance(n.targets[0], ast.Name) and isinstance(n.value, ast.Call)
                     and isinstance(n.value.func, ast.Attribute) and n.value.func.attr == 'format'}
        for cmp_ in [x for x in ast.walk(w.test) if isinstance(x, ast.Compare) and len(x.ops) == 1 and isinstance(x.ops[0], ast.In) and norm(x.left) in fmt_names
                     and isinstance(x.comparators[0], ast.Name)]:
            S = cmp_.comparators[0].id
            inits = [v_ for v_ in ctx.cg.local_assigns(fi).get(S, []) if isinstance(v_, ast.AST)]
            adds = [c.args[0] for c in walk_local(fi.node) if isinstance(c, ast.Call) and isinstance(c.func, ast.Attribute) and c.func.attr in ('add', 'update') and norm(c.func.value) == S and c.args]
            k9 = f'penman.tree:Tree.reset_variables: `{norm(cmp_)}` refuses a candidate only if it was handed out before'
            empty_init = all((isinstance(v_, ast.Call) and norm(v_.func) == 'set' and not v_.args) or (isinstance(v_, ast.Set) and not v_.elts) for v_ in inits)
            from_tree = [v_ for v_ in inits if any(isinstance(y, ast.Call) and isinstance(y.func, ast.Attribute) and y.func.attr in ('nodes', 'variables', 'walk') for y in ast.walk(single_def(ctx, fi, v_) if isinstance(v_, ast.Name) else v_))
                         or any(isinstance(y, ast.comprehension) and isinstance(y.iter, ast.Name) and norm(single_def(ctx, fi, y.iter)).endswith('.nodes()') for y in ast.walk(v_))]
            if inits and empty_init and adds and all(norm(a_) in fmt_names for a_ in adds):
                rep.ok(k9, fi.loc(cmp_), f'{S} starts empty and only receives new names')
            elif from_tree:
                rep.violation(k9, fi.loc(cmp_), f'`{S}` is filled from the tree (`{norm(from_tree[0])[:50]}`): the variables the tree has NOW. A candidate that happens to be the present name of a '
                              f'later node is skipped, so the names depend on how the tree is spelled at the moment, not only on concepts and depth-first order: '
                              f'"(b / alpha :ARG0 (a / beta))" is relabelled a2, b instead of a, b, and relabelling twice does not give the same tree as relabelling once')
            else:
                rep.undecided(k9, fi.loc(cmp_), f'{S}: {[norm(v_)[:30] for v_ in inits]}')
    return rep


@rule('R53', 'configure drops superfluous trailing POPs before the first and after every improvised configuration round')
def r53(ctx: Ctx) -> RuleReport:
    rep = RuleReport('R53', r53.title, floor=2)
    fi = ctx.repo.func('penman.layout', 'configure')
    cfg = CFG(fi.node)
    pm = ctx.repo.parent_map(fi.node)

    def is_strip(w: ast.AST) -> bool:
        return isinstance(w, ast.While) and 'isinstance(' in norm(w.test) and ', Pop)' in norm(w.test) and \
            any(isinstance(x, ast.Call) and isinstance(x.func, ast.Attribute) and x.func.attr == 'pop' for x in ast.walk(w))
    strips = [n for n in walk_local(fi.node) if is_strip(n)]
    strip_nodes = {cfg.node_of(s) for s in strips}
    # ... or a call of a local helper that does the stripping
    from ..resolve import calls_where
    for c in calls_where(ctx, fi, lambda f: f.qualname not in ('_configure', '_configure_node') and any(is_strip(x) for x in walk_local(f.node)), depth=1):
        strip_nodes.add(owner_node(cfg, pm, c))
    main = next((n for n in walk_local(fi.node) if isinstance(n, ast.While) and not is_strip(n) and norm(n.test) == 'data'), None)
    if main is None:
        raise AnalysisError('configure: no `while data:` loop')
    head = cfg.node_of(main)
    inner = [c for c, ts in ctx.cg.calls_in(fi) if any(t.kind == 'func' and t.func.qualname == '_configure_node' for t in ts)
             and any(x is c for x in ast.walk(main))]
    if not inner:
        raise AnalysisError('configure: no _configure_node call in the improvisation loop')
    for c in inner:
        cn = owner_node(cfg, pm, c)
        path = cfg.path_avoiding([(cn, None)], {head}, lambda nd: nd.id in strip_nodes)
        rep.add('penman.layout:configure: trailing POPs are dropped after each improvised round', fi.loc(c), 'violation' if path else 'ok',
                'a round can return to the loop test with superfluous POPs (left by dereification) still at the end of the data: '
                '_find_next then finds no triple and configure raises LayoutError for a connected graph' if path else '')
    # before the loop: either here or at the end of _configure
    first = cfg.path_avoiding([(cfg.entry, None)], {head}, lambda nd: nd.id in strip_nodes)
    alt = False
    cf = ctx.repo.func('penman.layout', '_configure')
    for n in walk_local(cf.node):
        if is_strip(n):
            alt = True
    rep.add('penman.layout:configure: trailing POPs are dropped before improvisation starts', fi.loc(main), 'ok' if first is None or alt else 'undecided')
    return rep


@rule('R54', 'graph difference resets an explicit top exactly when it occurs in no remaining triple (as source or as target)')
def r54(ctx: Ctx) -> RuleReport:
    rep = RuleReport('R54', r54.title, floor=2)
    fi = ctx.repo.func('penman.graph', 'Graph.__isub__')
    cfg = CFG(fi.node)
    IN = cond_facts(cfg)
    pm = ctx.repo.parent_map(fi.node)
    resets = [n for n in walk_local(fi.node) if isinstance(n, ast.Assign) and norm(n.targets[0]) == 'self._top'
              and isinstance(n.value, ast.Constant) and n.value.value is None]
    if len(resets) != 1:
        rep.undecided('penman.graph:Graph.__isub__: the explicit top is reset when it disappears', fi.loc(), f'{len(resets)} resets of self._top')
        return rep
    r = resets[0]
    facts = facts_at(cfg, IN, pm, r)
    setname = None
    for f, pol in facts:
        if pol and f.startswith('self._top not in '):
            setname = f[len('self._top not in '):]
    if setname is None:
        rep.undecided('penman.graph:Graph.__isub__: the reset is guarded by `self._top not in <remaining variables>`', fi.loc(r), str(sorted(facts)))
        return rep
    rep.ok('penman.graph:Graph.__isub__: the reset is guarded by `self._top not in <remaining variables>`', fi.loc(r))
    # ... and the test is made on every path of a graph difference: no other condition decides whether the top is looked at
    tests = [nd.id for nd in cfg.nodes if nd.kind == 'cond' and norm(nd.ast).replace(' ', '') in (f'self._topnotin{setname}', f'self._topin{setname}')]
    rets_self = [nd.id for nd in cfg.nodes if nd.kind == 'stmt' and isinstance(nd.ast, ast.Return) and nd.ast.value is not None and norm(nd.ast.value) == 'self']
    if tests and rets_self:
        skip = cfg.path_avoiding([(cfg.entry, None)], set(rets_self), lambda nd: nd.id in tests)
        if skip:
            conds = [norm(cfg.nodes[x].ast)[:40] for x in skip if cfg.nodes[x].kind == 'cond'][-3:]
            rep.violation('penman.graph:Graph.__isub__: the top is examined in every difference', fi.loc(cfg.nodes[tests[0]].ast),
                          f'`return self` can be reached without the test `{norm(cfg.nodes[tests[0]].ast)}` (through {conds}): on that path an explicit top that occurs in no '
                          f'remaining triple is kept - e.g. when nothing was removed - so whether the top is dropped depends on something other than the remaining triples')
        else:
            rep.ok('penman.graph:Graph.__isub__: the top is examined in every difference', fi.loc(cfg.nodes[tests[0]].ast))
    sv = single_def(ctx, fi, ast.Name(id=setname, ctx=ast.Load()))
    # which slots of the remaining triples feed the set?
    slots: Set[int] = set()
    over_triples = False
    # `remaining = [...]; self.triples[:] = remaining`: the local is the list of the triples that remain
    remaining_names = {norm(n.value) for n in walk_local(fi.node) if isinstance(n, ast.Assign) and norm(n.targets[0]) in ('self.triples', 'self.triples[:]')
                       and isinstance(n.value, ast.Name)}
    # a local alias of the list:  triples = self.triples  (also  triples, epidata = self.triples, self.epidata)
    alias_names = {nm for nm, vals in ctx.cg.local_assigns(fi).items() if len(vals) == 1 and isinstance(vals[0], ast.AST) and norm(vals[0]) == 'self.triples'}
    rebinds = [n for n in walk_local(fi.node) if isinstance(n, ast.Assign) and norm(n.targets[0]) == 'self.triples']
    for n in ast.walk(sv):
        if isinstance(n, (ast.GeneratorExp, ast.SetComp, ast.ListComp)) and norm(n.generators[0].iter) in alias_names and rebinds:
            # the attribute is re-bound to a NEW list: the alias still names the list from before the removal
            rep.violation('penman.graph:Graph.__isub__: occurrence is judged on the triples that remain', fi.loc(n),
                          f'`{norm(n.generators[0].iter)}` was taken from self.triples before `{norm(rebinds[0])[:50]}` bound the attribute to a new list: the variables that "still occur" are '
                          f'computed from the triples as they were BEFORE the removal, so an explicit top stays although no remaining triple mentions it '
                          f'(Graph([...], top="b") - <every triple with b> still reports top b, and variables() still contains it)')
            return rep
    for n in ast.walk(sv):
        if isinstance(n, (ast.GeneratorExp, ast.SetComp, ast.ListComp)):
            gens = n.generators
            if norm(gens[0].iter) == 'self.triples' or norm(gens[0].iter) in remaining_names or (norm(gens[0].iter) in alias_names and not rebinds):
                over_triples = True
                tv = gens[0].target
                if isinstance(tv, ast.Name):
                    for g in gens[1:]:
                        if isinstance(g.iter, ast.Subscript) and norm(g.iter.value) == tv.id:
                            sl = g.iter.slice
                            if norm(sl) == '::2':
                                slots |= {0, 2}
                            elif isinstance(sl, ast.Slice):
                                slots |= set(range(3)[slice(try_fold(sl.lower)[1] if sl.lower else None,
                                                            try_fold(sl.upper)[1] if sl.upper else None,
                                                            try_fold(sl.step)[1] if sl.step else None)])
                        elif isinstance(g.iter, ast.Tuple):
                            for x in g.iter.elts:
                                if isinstance(x, ast.Subscript) and norm(x.value) == tv.id and isinstance(x.slice, ast.Constant):
                                    slots.add(x.slice.value)
                    if isinstance(n.elt, ast.Subscript) and norm(n.elt.value) == tv.id and isinstance(n.elt.slice, ast.Constant):
                        slots.add(n.elt.slice.value)
                    # flattened pieces:  chain.from_iterable(t[::2] for t in self.triples)
                    par_ = pm.get(id(n))
                    if isinstance(n.elt, ast.Subscript) and norm(n.elt.value) == tv.id and isinstance(n.elt.slice, ast.Slice) \
                            and isinstance(par_, ast.Call) and norm(par_.func) in ('chain.from_iterable', 'itertools.chain.from_iterable'):
                        sl = n.elt.slice
                        slots |= set(range(3)[slice(try_fold(sl.lower)[1] if sl.lower else None,
                                                    try_fold(sl.upper)[1] if sl.upper else None,
                                                    try_fold(sl.step)[1] if sl.step else None)])
                elif isinstance(tv, ast.Tuple) and len(tv.elts) == 3:
                    names = [norm(x) for x in tv.elts]
                    used = {x.id for x in ast.walk(n.elt) if isinstance(x, ast.Name)}
                    slots |= {i for i, nm in enumerate(names) if nm in used}
    key = 'penman.graph:Graph.__isub__: the remaining variables are the sources and the targets of the remaining triples'
    good = over_triples and {0, 2} <= slots and 1 not in slots
    rep.add(key, fi.loc(r), 'ok' if good else ('violation' if over_triples and slots and not ({0, 2} <= slots) else 'undecided'),
            '' if good else f'the set is built from slot(s) {sorted(slots)} of the remaining triples: a top that survives only as a '
                            f'{"target" if 2 not in slots else "source"} is dropped although it still occurs')
    # the set is computed from the triples *after* removal
    sdef = next((n for n in walk_local(fi.node) if isinstance(n, ast.Assign) and norm(n.targets[0]) == setname), None)
    rem = next((n for n in walk_local(fi.node) if isinstance(n, ast.Assign) and norm(n.targets[0]).startswith('self.triples')), None)
    if sdef is not None and rem is not None:
        over_local = any(isinstance(x, ast.comprehension) and norm(x.iter) in remaining_names for x in ast.walk(sdef))
        order_ok = over_local or cfg.node_of(sdef) in cfg.reachable_from([cfg.node_of(rem)])
        rep.add('penman.graph:Graph.__isub__: occurrence is judged on the triples that remain', fi.loc(sdef), 'ok' if order_ok else 'undecided')
    return rep


@rule('R55', 're-entrancy counts are taken over edges (non-instance triples whose target is a variable), plus one for the top, minus one')
def r55(ctx: Ctx) -> RuleReport:
    rep = RuleReport('R55', r55.title, floor=3)
    fi = ctx.repo.func('penman.graph', 'Graph.reentrancies')
    cfg = CFG(fi.node)
    IN = cond_facts(cfg)
    pm = ctx.repo.parent_map(fi.node)
    incs = [n for n in walk_local(fi.node) if isinstance(n, ast.AugAssign) and isinstance(n.op, ast.Add) and try_fold(n.value) == (True, 1)
            and isinstance(n.target, ast.Subscript)]
    # the same count written without a defaultdict:  d[k] = d.get(k, 0) + 1   and, for a dict that is still empty,  d[top] = 1
    plain = {}
    for n in walk_local(fi.node):
        if isinstance(n, ast.Assign) and len(n.targets) == 1 and isinstance(n.targets[0], ast.Subscript) and isinstance(n.targets[0].value, ast.Name):
            d_, k_ = n.targets[0].value.id, norm(n.targets[0].slice)
            v_ = n.value
            if isinstance(v_, ast.BinOp) and isinstance(v_.op, ast.Add) and try_fold(v_.right) == (True, 1) and isinstance(v_.left, ast.Call) \
                    and norm(v_.left.func) == f'{d_}.get' and len(v_.left.args) == 2 and norm(v_.left.args[0]) == k_ and try_fold(v_.left.args[1]) == (True, 0):
                plain[id(n)] = n
            elif try_fold(v_) == (True, 1) and 'top' in k_ and not any(isinstance(a, ast.For) for a in _anc(pm, n)):
                empties = [x for x in ctx.cg.local_assigns(fi).get(d_, []) if isinstance(x, ast.Dict) and not x.keys]
                if empties:
                    plain[id(n)] = n
    incs = incs + list(plain.values())
    loop_incs = []
    top_inc = None
    def _tgt(n):
        return n.target if isinstance(n, ast.AugAssign) else n.targets[0]
    for n in incs:
        in_loop = any(isinstance(a, ast.For) for a in _anc(pm, n))
        if in_loop:
            loop_incs.append(n)
        elif 'top' in norm(_tgt(n).slice):
            top_inc = n
    rep.add('penman.graph:Graph.reentrancies: the top has one implicit entrancy', fi.loc(), 'ok' if top_inc is not None else 'undecided')
    if not loop_incs:
        # Counter.update(<target of every edge>) counts the same thing
        ups = [n for n in walk_local(fi.node) if isinstance(n, ast.Call) and isinstance(n.func, ast.Attribute) and n.func.attr == 'update' and n.args
               and isinstance(n.args[0], (ast.GeneratorExp, ast.ListComp)) and len(n.args[0].generators) == 1]
        ctr = any(isinstance(v, ast.Call) and norm(v.func) in ('Counter', 'collections.Counter') for vs in ctx.cg.local_assigns(fi).values()
                  for v in vs if isinstance(v, ast.AST))
        if len(ups) == 1 and ctr:
            g = ups[0].args[0].generators[0]
            tv = g.target.id if isinstance(g.target, ast.Name) else None
            good = norm(g.iter) == 'self.edges()' and not g.ifs and norm(ups[0].args[0].elt) in (f'{tv}.target', f'{tv}[2]')
            rep.add('penman.graph:Graph.reentrancies: the loop ranges over the edges of the graph', fi.loc(ups[0]), 'ok' if good else 'undecided', norm(ups[0])[:70])
            rep.add('penman.graph:Graph.reentrancies: the target of the edge is counted', fi.loc(ups[0]), 'ok' if good else 'undecided')
            rets = [n for n in walk_local(fi.node) if isinstance(n, ast.Return) and n.value is not None]
            src = norm(rets[0].value) if rets else ''
            good = '- 1' in src and ('>= 2' in src or '> 1' in src)
            rep.add('penman.graph:Graph.reentrancies: reports count - 1 for nodes with at least two entrancies', fi.loc(), 'ok' if good else 'undecided', src[:80])
            return rep
    if not loop_incs:
        # entrancies collected in a set per node and counted by its size: parallel edges fall together
        adds = [n for n in walk_local(fi.node) if isinstance(n, ast.Call) and isinstance(n.func, ast.Attribute) and n.func.attr == 'add' and isinstance(n.func.value, ast.Subscript)
                and any(isinstance(a, ast.For) for a in _anc(pm, n))]
        rets_ = [n for n in walk_local(fi.node) if isinstance(n, ast.Return) and n.value is not None]
        if adds and rets_ and 'len(' in norm(rets_[0].value):
            rep.violation('penman.graph:Graph.reentrancies: one count per entrant edge', fi.loc(adds[0]),
                          f'`{norm(adds[0])[:50]}` records each entrancy in a SET and the result is the size of that set: two edges into a node that put the same value there '
                          f'(two relations from the same node, a repeated triple) count once, so the count is no longer the in-degree - '
                          f'"(w / want :ARG0 (b / boy) :ARG1 b)" reports no re-entrancy for b')
            return rep
    if len(loop_incs) != 1:
        rep.undecided('penman.graph:Graph.reentrancies: one count per entrant edge', fi.loc(), f'{len(loop_incs)} increments in loops')
        return rep
    inc = loop_incs[0]
    loop = next(a for a in _anc(pm, inc) if isinstance(a, ast.For))
    it = norm(loop.iter)
    key = 'penman.graph:Graph.reentrancies: the loop ranges over the edges of the graph'
    if it == 'self.edges()':
        rep.ok(key, fi.loc(loop), 'self.edges()')
        tv = loop.target.id if isinstance(loop.target, ast.Name) else None
        names3 = [norm(e) for e in loop.target.elts] if isinstance(loop.target, ast.Tuple) and len(loop.target.elts) == 3 else []
        ksrc = norm(_tgt(inc).slice)
        if isinstance(_tgt(inc).slice, ast.Name):
            kd = [x for x in ctx.cg.local_assigns(fi).get(ksrc, []) if isinstance(x, ast.AST)]
            if len(kd) == 1:
                ksrc = norm(kd[0])              # target = edge.target
        good = ksrc in (f'{tv}.target', f'{tv}[2]') or (names3 and ksrc == names3[2])
        rep.add('penman.graph:Graph.reentrancies: the target of the edge is counted', fi.loc(inc), 'ok' if good else 'undecided', norm(inc))
    elif it == 'self.triples':
        # a hand-written filter: it must be the edges predicate
        tv = loop.target
        subst: Dict[str, object] = {}
        tname = 't'
        if isinstance(tv, ast.Name):
            subst[tv.id] = ast.Name(id=tname, ctx=ast.Load())
        elif isinstance(tv, ast.Tuple) and len(tv.elts) == 3:
            for i, x in enumerate(tv.elts):
                if isinstance(x, ast.Name):
                    subst[x.id] = ast.Subscript(value=ast.Name(id=tname, ctx=ast.Load()), slice=ast.Constant(value=i), ctx=ast.Load())
        for nm, vals in ctx.cg.local_assigns(fi).items():
            if len(vals) == 1 and isinstance(vals[0], ast.AST) and not isinstance(vals[0], (ast.Import, ast.ImportFrom)) and nm not in subst:
                if isinstance(vals[0], ast.Call):
                    subst[nm] = vals[0]
        facts = facts_at(cfg, IN, pm, inc)
        conj = []
        for f, pol in facts:
            e = ast.parse(f, mode='eval').body
            fm = bn.Abstractor(subst).formula(e)
            conj.append(fm if pol else bn.mk_not(fm))
        got = bn.mk_and(conj)
        want = bn.mk_and([bn.mk_not(('atom', 'CONCEPT_ROLE == t[1]')), ('atom', 't[2] in self.variables()')])
        d = bn.equivalent(got, want)
        rep.add(key, fi.loc(loop), 'ok' if d is None else 'violation',
                '' if d is None else f'triples are counted when {bn.show(got)}; edges are the triples with {bn.show(want)} '
                                     f'(differs for {d}): an instance triple whose concept is spelled like a variable is counted as an edge')
    else:
        rep.undecided(key, fi.loc(loop), f'iterates {it}')
    rets = [n for n in walk_local(fi.node) if isinstance(n, ast.Return) and n.value is not None]
    src = norm(rets[0].value) if rets else ''
    good = 'cnt - 1' in src.replace(' ', ' ') and '>= 2' in src or ('- 1' in src and ('>= 2' in src or '> 1' in src))
    rep.add('penman.graph:Graph.reentrancies: reports count - 1 for nodes with at least two entrancies', fi.loc(), 'ok' if good else 'undecided', src[:80])
    return rep


def _anc(pm, node):
    n = node
    while id(n) in pm:
        n = pm[id(n)]
        yield n


@rule('R57', 'Graph methods that build a new Graph from self hand over the stored top (_top), not the resolved one')
def r57(ctx: Ctx) -> RuleReport:
    rep = RuleReport('R57', r57.title, floor=2)
    gc = ctx.repo.cls('penman.graph', 'Graph')
    for name in ('__or__', '__sub__'):
        fi = gc.methods.get(name)
        if fi is None:
            raise AnalysisError(f'Graph.{name} vanished')
        ctors = [c for c, ts in ctx.cg.calls_in(fi) if any(t.kind == 'class' and t.cls.fq == gc.fq for t in ts)]
        copies = [c for c, ts in ctx.cg.calls_in(fi) if any(t.kind == 'ext' and t.name == 'copy.deepcopy' for t in ts)]
        key = f'penman.graph:Graph.{name}: the result starts as a copy of self that keeps an implicit top implicit'
        if copies and not ctors:
            rep.ok(key, fi.loc(), 'copy.deepcopy(self) copies _top as it is')
            continue
        bad = []
        for c in ctors:
            top = next((k.value for k in c.keywords if k.arg == 'top'), c.args[1] if len(c.args) > 1 else None)
            if top is not None and norm(top) == 'self.top':
                bad.append(norm(c)[:60])
        rep.add(key, fi.loc(), 'violation' if bad else 'ok',
                f'{bad}: `self.top` resolves an implicit top to the source of the first triple and stores it as an explicit one; a '
                f'later difference then keeps it although an implicit top would follow the first remaining triple' if bad else '')
    # the in-place operators leave _top alone unless it disappears (R54)
    for name in ('__ior__',):
        fi = gc.methods[name]
        st = [n for n in walk_local(fi.node) if isinstance(n, (ast.Assign, ast.AugAssign)) and '_top' in norm(n.targets[0] if isinstance(n, ast.Assign) else n.target)]
        rep.add(f'penman.graph:Graph.{name}: union does not touch the top', fi.loc(), 'violation' if st else 'ok')
    return rep


@rule('R58', 'interpretation tells edges from attributes by the variables of ALL nodes of the tree, the top included')
def r58(ctx: Ctx) -> RuleReport:
    from ..resolve import facts_ex
    rep = RuleReport('R58', r58.title, floor=2)
    fi = ctx.repo.func('penman.layout', 'interpret')
    tp = fi.positional[0]
    # the set passed to _interpret_node
    call = next((c for c, ts in ctx.cg.calls_in(fi) if any(t.kind == 'func' and t.func.qualname == '_interpret_node' for t in ts)), None)
    if call is None or len(call.args) < 2:
        raise AnalysisError('interpret does not call _interpret_node(node, variables, model)')
    v = single_def(ctx, fi, call.args[1])
    src = norm(v)
    key = 'penman.layout:interpret: the variable set is {variable of every node in t.nodes()}'
    inner0 = ctx.repo.func('penman.layout', '_interpret_node')
    vp0 = inner0.positional[1]
    grows = [n for n in walk_local(inner0.node) if isinstance(n, ast.Call) and isinstance(n.func, ast.Attribute) and n.func.attr in ('add', 'update')
             and norm(n.func.value) == vp0]
    if grows:
        rep.violation(key, inner0.loc(grows[0]), f'`{norm(grows[0])}`: the variable set is filled while the tree is being interpreted (it starts as `{src[:40]}`), so a '
                      f'reference to a variable whose node is written later in the text is taken for a constant: its inverted role is not deinverted and '
                      f'the triple is classified as an attribute')
        return rep
    good = False
    if isinstance(v, (ast.SetComp, ast.GeneratorExp, ast.ListComp)) or (isinstance(v, ast.Call) and norm(v.func) == 'set' and v.args):
        comp = v if not isinstance(v, ast.Call) else v.args[0]
        if isinstance(comp, (ast.SetComp, ast.GeneratorExp, ast.ListComp)) and len(comp.generators) == 1:
            g = comp.generators[0]
            if norm(g.iter) == f'{tp}.nodes()' and not g.ifs:
                if isinstance(g.target, ast.Tuple) and isinstance(comp.elt, ast.Name) and norm(g.target.elts[0]) == comp.elt.id:
                    good = True
                if isinstance(g.target, ast.Name) and norm(comp.elt) == f'{g.target.id}[0]':
                    good = True
    if good:
        rep.ok(key, fi.loc(v), src[:70])
    elif '.walk()' in src:
        rep.violation(key, fi.loc(v), f'`{src[:80]}` collects variables from the branches of the tree: the top node is nobody\'s branch, so a '
                      f're-entrant reference to the top is taken for a constant and an inverted role on it is not deinverted')
    else:
        raise AnalysisError(f'R58: the variable set has an unrecognised shape: {src[:80]}')
    # rearrange(attributes_first=True) tells attributes from edges with the same kind of set
    rf = ctx.repo.func('penman.layout', 'rearrange')
    rtp = rf.positional[0]
    rsets = []
    for n in walk_local(rf.node):
        if isinstance(n, ast.Assign) and isinstance(n.targets[0], ast.Name):
            alts = [n.value.body, n.value.orelse] if isinstance(n.value, ast.IfExp) else [n.value]
            for a_ in alts:
                if isinstance(a_, (ast.SetComp, ast.GeneratorExp, ast.ListComp, ast.Call)) and (f'{rtp}.nodes()' in norm(a_) or f'{rtp}.walk()' in norm(a_)):
                    rsets.append(ast.copy_location(ast.Assign(targets=n.targets, value=a_), n))
    rkey = 'penman.layout:rearrange: with attributes_first the variable set is {variable of every node in t.nodes()}'
    for n in rsets:
        comp = n.value if not isinstance(n.value, ast.Call) else (n.value.args[0] if n.value.args else None)
        rgood = False
        if isinstance(comp, (ast.SetComp, ast.GeneratorExp, ast.ListComp)) and len(comp.generators) == 1:
            g = comp.generators[0]
            if norm(g.iter) == f'{rtp}.nodes()' and not g.ifs:
                if isinstance(g.target, ast.Tuple) and isinstance(comp.elt, ast.Name) and norm(g.target.elts[0]) == comp.elt.id:
                    rgood = True
                if isinstance(g.target, ast.Name) and norm(comp.elt) == f'{g.target.id}[0]':
                    rgood = True
        bad_index = None
        if isinstance(comp, (ast.SetComp, ast.GeneratorExp, ast.ListComp)) and len(comp.generators) == 1 and norm(comp.generators[0].iter) == f'{rtp}.nodes()' \
                and isinstance(comp.generators[0].target, ast.Name) and isinstance(comp.elt, ast.Subscript) and norm(comp.elt.value) == comp.generators[0].target.id \
                and isinstance(comp.elt.slice, ast.Constant) and comp.elt.slice.value != 0:
            bad_index = comp.elt.slice.value
        if rgood:
            rep.ok(rkey, rf.loc(n), norm(n.value)[:70])
            # the set is consulted exactly when the caller asked for attributes first
            af = next((p_ for p_ in rf.params if p_ == 'attributes_first'), None)
            if af:
                orig = next((x for x in walk_local(rf.node) if isinstance(x, ast.Assign) and x.lineno == n.lineno), n)
                fx = facts_ex(ctx, rf, orig) if not isinstance(orig.value, ast.IfExp) else {(norm(orig.value.test), orig.value.body is n.value)}
                k4 = 'penman.layout:rearrange: the variable set is used exactly when attributes_first is true'
                if (af, True) in fx:
                    rep.ok(k4, rf.loc(orig))
                elif (af, False) in fx:
                    rep.violation(k4, rf.loc(orig), f'the set of node variables is built when `{af}` is false: the flag works the wrong way round (attributes are put first by default and not when asked for)')
                else:
                    rep.violation(k4, rf.loc(orig), f'whether the set of node variables is built does not depend on `{af}` (guards: {sorted(fx) or "none"}): attributes are put in front of the edges always or never, '
                                  f'whatever the caller asks for')
        elif bad_index is not None:
            rep.violation(rkey, rf.loc(n), f'`{norm(n.value)[:60]}` takes element {bad_index} of every node (its branch list), not its variable: no branch target is ever found in the set')
        elif '.walk()' in norm(n.value):
            rep.violation(rkey, rf.loc(n), f'`{norm(n.value)[:80]}` collects variables from the branches of the tree: the top node is nobody\'s branch, so a '
                          f're-entrant reference to the top counts as an attribute and is sorted in front of the edges')
        else:
            rep.undecided(rkey, rf.loc(n), norm(n.value)[:80])
    if not rsets:
        # no variable set at all: is "attribute" decided by the target being atomic?
        keyfs = [f for f in ctx.repo.all_functions() if f.parent is rf]
        atomic_only = None
        for kf in keyfs:
            has_member = any(isinstance(x, ast.Compare) and any(isinstance(o, (ast.In, ast.NotIn)) for o in x.ops) for x in walk_local(kf.node))
            atom = [x for x in walk_local(kf.node) if isinstance(x, ast.Call) and norm(x.func) == 'is_atomic']
            if atom and not has_member and any(isinstance(x, ast.Name) and x.id == 'attributes_first' for x in ast.walk(kf.node)):
                atomic_only = (kf, atom[0])
        if atomic_only:
            kf, a_ = atomic_only
            rep.violation(rkey, kf.loc(a_), f'no set of node variables is built any more; with attributes_first a branch counts as an attribute when `{norm(a_)}` holds. A re-entrancy '
                          f'(":ARG2 g" where g is a node of the tree) has an atomic target too: it is sorted into the attribute block, in front of the real attributes\' edges - the '
                          f'documented order "attributes, then edges" is not what --rearrange attributes-first produces')
        else:
            rep.undecided(rkey, rf.loc(), 'no set built from t.nodes()')
    # _interpret_node passes the same set down unchanged
    inner = ctx.repo.func('penman.layout', '_interpret_node')
    vp = inner.positional[1]
    recs = [c for c, ts in ctx.cg.calls_in(inner) if any(t.kind == 'func' and t.func.fq == inner.fq for t in ts)]
    good = bool(recs) and all(len(c.args) >= 2 and norm(c.args[1]) == vp for c in recs) and not ctx.cg.local_assigns(inner).get(vp)
    rep.add('penman.layout:_interpret_node: the same variable set is used at every depth', inner.loc(), 'ok' if good else 'undecided')
    # Tree.nodes / _nodes cover the top and every nested node
    nf = ctx.repo.func('penman.tree', '_nodes')
    from ..resolve import facts_ex
    np_ = nf.positional[0]
    self_in = any((isinstance(n, ast.List) and any(norm(e) == np_ for e in n.elts)) or
                  (isinstance(n, ast.Call) and isinstance(n.func, ast.Attribute) and n.func.attr == 'append' and n.args and norm(n.args[0]) == np_)
                  for n in walk_local(nf.node))
    # ... but a node without a variable - the empty node "()" - is not a node of the graph: it must not contribute None to the variable set
    vname = None
    for n in walk_local(nf.node):
        if isinstance(n, ast.Assign) and isinstance(n.targets[0], ast.Tuple) and len(n.targets[0].elts) == 2 and norm(n.value) == np_:
            vname = norm(n.targets[0].elts[0])
    if vname:
        k7 = 'penman.tree:_nodes: the empty node (variable None) is not listed'
        selfs = []
        for n in walk_local(nf.node):
            if isinstance(n, ast.List) and any(norm(e) == np_ for e in n.elts):
                selfs.append(n)
            if isinstance(n, ast.Call) and isinstance(n.func, ast.Attribute) and n.func.attr == 'append' and n.args and norm(n.args[0]) == np_:
                selfs.append(n)
        pmn = ctx.repo.parent_map(nf.node)
        for sx in selfs:
            par = pmn.get(id(sx))
            guarded = False
            if isinstance(par, ast.IfExp):
                t_ = norm(par.test).replace(' ', '')
                guarded = (t_ == f'{vname}isNone' and par.orelse is sx) or (t_ == f'{vname}isnotNone' and par.body is sx)
            fxn = {(f.replace(' ', ''), pol) for f, pol in facts_ex(ctx, nf, sx)}
            guarded = guarded or (f'{vname}isNone', False) in fxn or (f'{vname}isnotNone', True) in fxn
            rep.add(k7, nf.loc(sx), 'ok' if guarded else 'violation',
                    '' if guarded else f'`{norm(sx)[:40]}` lists the node whatever its variable: for a tree with "()" the variable set of interpret contains None, and None is also the target of a '
                                       f'role written without a target - such a branch is then read as an edge to a node and its inverted role is turned round')
    loops = [n for n in walk_local(nf.node) if isinstance(n, ast.For)]
    rec_ok = False
    for lp in loops:
        tv = norm(lp.target.elts[1]) if isinstance(lp.target, ast.Tuple) and len(lp.target.elts) == 2 else None
        for c in ast.walk(lp):
            if isinstance(c, ast.Call) and norm(c.func) == nf.name and c.args and tv and norm(c.args[0]) == tv:
                fx = facts_ex(ctx, nf, c)
                if (f'is_atomic({tv})', False) in fx and not [x for x in ast.walk(lp) if isinstance(x, (ast.Break, ast.Return))]:
                    rec_ok = True
    fifo = [n for n in walk_local(nf.node) if isinstance(n, ast.Call) and isinstance(n.func, ast.Attribute) and
            (n.func.attr == 'popleft' or (n.func.attr == 'pop' and n.args and try_fold(n.args[0]) == (True, 0)))]
    if not rec_ok and fifo:
        rep.violation('penman.tree:_nodes: the node itself and, recursively, every non-atomic branch target', nf.loc(fifo[0]),
                      f'`{norm(fifo[0])}` takes the oldest entry of the agenda: the nodes are listed breadth-first, but triples, variable prefixes and '
                      f'relabelling are defined on the depth-first order of the text (they differ from depth 3 on)')
    else:
        rep.add('penman.tree:_nodes: the node itself and, recursively, every non-atomic branch target', nf.loc(),
                'ok' if self_in and rec_ok else 'undecided', f'node itself listed: {self_in}; recursion into every nested target: {rec_ok}')
    # the graph gets the root variable of the tree as its explicit top
    gcalls = [c for c, ts in ctx.cg.calls_in(fi) if any(t.kind == 'class' and t.cls.name == 'Graph' for t in ts)]
    for c in gcalls:
        top = next((k.value for k in c.keywords if k.arg == 'top'), c.args[1] if len(c.args) > 1 else None)
        rep.add('penman.layout:interpret: the root variable of the tree is passed as the top of the graph', fi.loc(c),
                'ok' if top is not None else 'violation',
                '' if top is not None else f'`{norm(c)[:70]}` leaves the top implicit, i.e. the source of the first triple: when the first branch of the root is an '
                                           f'inverted role, deinversion puts another variable there and the graph gets the wrong top')
    return rep


@rule('R59', 'the fused form role(a,b) is split at the first comma only: the whole remainder is the target')
def r59(ctx: Ctx) -> RuleReport:
    rep = RuleReport('R59', r59.title, floor=1)
    fi = ctx.repo.func('penman._parse', '_parse_triple')
    found = False
    for n in walk_local(fi.node):
        if isinstance(n, ast.Call) and isinstance(n.func, ast.Attribute) and n.func.attr in ('partition', 'split', 'rpartition', 'rsplit') \
                and n.args and try_fold(n.args[0]) == (True, ',') and norm(n.func.value).endswith('.text') and 'symbol' in norm(n.func.value):
            found = True
            key = f'penman._parse:_parse_triple: {norm(n)}'
            if n.func.attr == 'partition':
                rep.ok(key, fi.loc(n), 'partition splits at the first comma and keeps the rest intact')
            elif n.func.attr == 'split' and len(n.args) == 2 and try_fold(n.args[1]) == (True, 1):
                rep.ok(key, fi.loc(n), 'split(",", 1)')
            else:
                rep.violation(key, fi.loc(n), f'{n.func.attr}(",") cuts at every comma (or at the last): a target that itself contains a comma, '
                              f'such as 1,000, loses everything after its first comma')
    if not found:
        raise AnalysisError('_parse_triple: no split of the first symbol at a comma')
    return rep


@rule('R60', 'no function that returns mutable objects is memoised (results of separate calls would share state)')
def r60(ctx: Ctx) -> RuleReport:
    rep = RuleReport('R60', r60.title, floor=0)
    # built-in positive example for the matcher
    probe = ast.parse('@lru_cache(maxsize=128)\ndef f(x):\n    return [x]\n@functools.cache\ndef g(x):\n    return x\n').body
    if sum(1 for fn in probe if _memo_decorators(fn)) != 2:
        raise AnalysisError('R60 self-test: memoisation decorators are not recognised')
    n = 0
    for fi in ctx.repo.all_functions():
        decs = _memo_decorators(fi.node)
        if not decs:
            continue
        n += 1
        t = ctx.types.returns.get(fi.fq, frozenset()) | ctx.types.declared_return(fi)
        mutable = [a for a in _flatten(t) if a[0] in ('list', 'dict', 'set', 'inst')]
        key = f'{fi.module.name}:{fi.qualname}: @{decs[0]}'
        rep.add(key, fi.loc(), 'violation' if mutable else 'ok',
                f'the cached result contains mutable objects ({sorted({a[0] + (":" + a[1].split(":")[-1] if a[0] == "inst" else "") for a in mutable})}): '
                f'every later call with an equal argument returns the same objects, so editing one result changes the others and the '
                f'outcome of later calls' if mutable else 'returns immutable data only')
    rep.analysed['memoised_functions'] = n
    return rep


def _memo_decorators(fn) -> List[str]:
    out = []
    for d in getattr(fn, 'decorator_list', []):
        src = norm(d)
        base = src.split('(')[0].split('.')[-1]
        if base in ('lru_cache', 'cache', 'cached_property', 'memoize', 'memoized'):
            out.append(src)
    return out


def _flatten(t):
    for a in t:
        yield a
        for x in a[1:]:
            if isinstance(x, frozenset):
                yield from _flatten(x)
            elif isinstance(x, tuple):
                for y in x:
                    if isinstance(y, frozenset):
                        yield from _flatten(y)


@rule('R61', 'no library function keeps results in module-level state (a result never depends on earlier calls)')
def r61(ctx: Ctx) -> RuleReport:
    rep = RuleReport('R61', r61.title, floor=0)
    probe = ast.parse('_memo = None\ndef f(g):\n    global _memo\n    if _memo is not None and _memo[0] == g:\n        return _memo[1]\n    _memo = (g, 1)\n    return 1\n').body[1]
    if not _global_rebinds(probe):
        raise AnalysisError('R61 self-test: a global rebinding is not recognised')
    n = 0
    for fi in ctx.repo.all_functions():
        if fi.module.name.startswith('penman.__main__') or fi.module.name == 'penman.main':
            continue
        n += 1
        for name, st in _global_rebinds(fi.node):
            reads = [x for x in walk_local(fi.node) if isinstance(x, ast.Name) and x.id == name and isinstance(x.ctx, ast.Load)]
            rets = [x for x in walk_local(fi.node) if isinstance(x, ast.Return) and x.value is not None
                    and any(isinstance(y, ast.Name) and y.id == name for y in ast.walk(x.value))]
            # only argument-dependent data is a memo; a lazily created constant (default model, compiled pattern) is not
            tainted = set(fi.params)
            changed = True
            while changed:
                changed = False
                for x in walk_local(fi.node):
                    if isinstance(x, (ast.Assign, ast.AugAssign, ast.AnnAssign, ast.For)) and getattr(x, 'value', getattr(x, 'iter', None)) is not None:
                        srcs = {y.id for y in ast.walk(x.value if not isinstance(x, ast.For) else x.iter) if isinstance(y, ast.Name)}
                        if srcs & tainted:
                            tg = x.targets if isinstance(x, ast.Assign) else [x.target]
                            for t in tg:
                                for y in ast.walk(t):
                                    if isinstance(y, ast.Name) and y.id not in tainted:
                                        tainted.add(y.id)
                                        changed = True
            val = getattr(st, 'value', None)
            dep = val is not None and any(isinstance(y, ast.Name) and y.id in tainted and y.id != name for y in ast.walk(val))
            rep.add(f'{fi.module.name}:{fi.qualname}: global {name}', fi.loc(st), 'violation' if reads and dep else 'info',
                    f'`{name}` is module-level state that the function both rebinds and reads'
                    + (' and returns from' if rets else '') +
                    ': a later call can be answered from an earlier call\'s data, so the result depends on the call history '
                    '(any key comparison short of identity plus immutability lets two different arguments share an answer)' if reads and dep else '')
    rep.analysed['functions'] = n
    return rep


def _global_rebinds(fn) -> List[Tuple[str, ast.stmt]]:
    names: Set[str] = set()
    for n in ast.walk(fn):
        if isinstance(n, ast.Global):
            names |= set(n.names)
    out = []
    for n in ast.walk(fn):
        if isinstance(n, (ast.Assign, ast.AugAssign, ast.AnnAssign)):
            tg = n.targets if isinstance(n, ast.Assign) else [n.target]
            for t in tg:
                for x in ast.walk(t):
                    if isinstance(x, ast.Name) and x.id in names and isinstance(x.ctx, ast.Store):
                        out.append((x.id, n))
    return out


@rule('R62', 'a search through a model table goes on after an entry that does not match')
def r62(ctx: Ctx) -> RuleReport:
    from ..resolve import view
    rep = RuleReport('R62', r62.title, floor=1)
    for qn in ('Model.dereify', 'Model.reify'):
        fi = ctx.repo.func('penman.model', qn)
        v = view(ctx, fi)
        for loop in [n for n in walk_local(fi.node) if isinstance(n, ast.For) and ('reifications[' in norm(n.iter) or 'dereifications[' in norm(n.iter))]:
            tnames = {x.id for x in ast.walk(loop.target) if isinstance(x, ast.Name)}
            key = f'{fi.fq}: for {norm(loop.target)} in {norm(loop.iter)[:40]}'
            exits = [x for x in ast.walk(loop) if isinstance(x, (ast.Break, ast.Raise)) and x is not loop]
            bad = None
            for x in exits:
                # arms of the if/elif chain(s) over the entry that enclose the exit: body = matched, orelse = did not match
                about = []
                child = x
                while child is not loop and id(child) in v.pm:
                    par = v.pm[id(child)]
                    if isinstance(par, ast.If) and tnames & {y.id for y in ast.walk(par.test) if isinstance(y, ast.Name)}:
                        if any(child is b for b in par.body):
                            about.append((norm(par.test), True))
                        elif any(child is b for b in par.orelse):
                            about.append((norm(par.test), False))
                    child = par
                if about and all(not pol for _, pol in about):
                    bad = (x, about)
            if bad is not None:
                x, about = bad
                rep.violation(key, fi.loc(x), f'`{norm(x)}` is reached exactly when the entry does not match ({[f for f, _ in about][:2]} are false): only the '
                              f'first table entry is ever consulted, so a concept or role with several (de)reifications fails for all but the first')
            else:
                rep.ok(key, fi.loc(loop), 'the loop leaves only on a match (or when the table is exhausted)')
    return rep


def _names_in(src: str) -> Set[str]:
    try:
        return {x.id for x in ast.walk(ast.parse(src, mode='eval')) if isinstance(x, ast.Name)}
    except SyntaxError:
        return set()


@rule('R63', 'an alignment converted between role and target alignments keeps its prefix as well as its indices')
def r63(ctx: Ctx) -> RuleReport:
    rep = RuleReport('R63', r63.title, floor=2)
    classes = {'Alignment', 'RoleAlignment', 'AlignmentMarker'}
    for fi in ctx.repo.all_functions():
        if fi.module.name == 'penman.surface' and fi.cls is not None:
            continue            # the classes' own parsers build from text, not from another marker
        for c, ts in ctx.cg.calls_in(fi):
            if not any(t.kind == 'class' and t.cls.name in classes for t in ts):
                continue
            if not c.args or not (isinstance(c.args[0], ast.Attribute) and c.args[0].attr == 'indices'):
                continue
            src = norm(c.args[0].value)
            pre = next((k.value for k in c.keywords if k.arg == 'prefix'), c.args[1] if len(c.args) > 1 else None)
            key = f'{fi.module.name}:{fi.qualname}: {norm(c.func)}({src}.indices, ...)'
            if pre is not None and norm(pre) == f'{src}.prefix':
                rep.ok(key, fi.loc(c))
            elif pre is None:
                rep.violation(key, fi.loc(c), f'the new marker copies {src}.indices but not {src}.prefix: an alignment written ~e.1 comes back as ~1')
            else:
                rep.undecided(key, fi.loc(c), f'prefix={norm(pre)}')
    return rep


@rule('R64', 'no open-class pattern in a model\'s role table matches a role ending in -of (such a role could no longer be told from an inversion)')
def r64(ctx: Ctx) -> RuleReport:
    from ..rx import Lang, ParsedPattern, sre_c
    rep = RuleReport('R64', r64.title, floor=20)
    of = Lang.from_pattern(r'.*-of')
    n = 0
    for m in ctx.repo.modules.values():
        if not m.name.startswith('penman.models.') or 'roles' not in m.constants:
            continue
        node = m.constants['roles']
        if not isinstance(node, ast.Dict):
            rep.undecided(f'{m.name}: roles table', m.relpath, 'not a dict literal')
            continue
        for k in node.keys:
            ok, pat = try_fold(k, {}, ctx.repo, m)
            if not ok or not isinstance(pat, str):
                rep.undecided(f'{m.name}: role pattern {norm(k)[:30]}', f'{m.relpath}:{k.lineno}', 'key is not a constant string')
                continue
            n += 1
            pp = ParsedPattern(pat)
            literal = all(op is sre_c.LITERAL for op, _ in pp.tree)
            if literal:
                rep.ok(f'{m.name}: role {pat}', f'{m.relpath}:{k.lineno}', 'a single role')
                continue
            w = Lang(pp.rx).witness_intersection(of)
            rep.add(f'{m.name}: role pattern {pat}', f'{m.relpath}:{k.lineno}', 'violation' if w is not None else 'ok',
                    f'the open-class pattern {pat!r} also matches {w!r}: the model then *defines* that role, so it is not recognised as the inversion of '
                    f'{w[:-3]!r}; an edge written from its target\'s side with this role decodes with source and target the wrong way round'
                    if w is not None else 'cannot match a role ending in -of')
    rep.analysed['role_patterns'] = n
    return rep


@rule('R65', 'dereification carries every marker of the replaced triple over, except the role alignment it replaces')
def r65(ctx: Ctx) -> RuleReport:
    from ..select import Selector
    rep = RuleReport('R65', r65.title, floor=1)
    fi = ctx.repo.func('penman.transform', '_dereify_agenda')
    sel = Selector(ctx)
    want = bn.mk_not(('atom', 'isinstance(t, RoleAlignment)'))
    key = f'{fi.fq}: markers of the second triple are copied unless they are role alignments'
    found = False
    from ..resolve import local_callees
    sites = [(f, n) for f in local_callees(ctx, fi, depth=1) if f.module.name == fi.module.name and (f.fq == fi.fq or f.qualname.startswith('_'))
             for n in walk_local(f.node)]
    root_fi = fi
    for fi, n in sites:
        pred = None
        # filterfalse(<is a role alignment>, g.epidata.get(second, [])) / filter(<is not one>, ...), the predicate a module-level function or a lambda
        if isinstance(n, ast.Call) and norm(n.func).split('.')[-1] in ('filterfalse', 'filter') and len(n.args) == 2 and '.epidata.get(' in norm(n.args[1]):
            pf = n.args[0]
            body_ = None
            if isinstance(pf, ast.Lambda) and len(pf.args.args) == 1:
                body_, pv_ = pf.body, pf.args.args[0].arg
            elif isinstance(pf, ast.Name) and pf.id in fi.module.functions:
                h_ = fi.module.functions[pf.id]
                rets_ = [x for x in walk_local(h_.node) if isinstance(x, ast.Return) and x.value is not None]
                if len(rets_) == 1 and len(h_.positional) == 1:
                    body_, pv_ = rets_[0].value, h_.positional[0]
            if body_ is not None:
                try:
                    s2 = sel.bind_target(ast.Name(id=pv_, ctx=ast.Store()), {})
                    f_ = sel.formula(fi, body_, n, s2)
                    pred = bn.mk_not(f_) if norm(n.func).split('.')[-1] == 'filterfalse' else f_
                except AnalysisError:
                    pred = None
        if pred is not None:
            found = True
            d = bn.equivalent(pred, want)
            if d is None:
                rep.ok(key, fi.loc(n), bn.show(pred))
            else:
                rep.violation(key, fi.loc(n), f'the markers that are carried over are those with `{bn.show(pred)}`; the documented selection is `{bn.show(want)}` (they differ for {d})')
            continue
        if isinstance(n, (ast.GeneratorExp, ast.ListComp)) and len(n.generators) == 1 and '.epidata.get(' in norm(n.generators[0].iter) \
                and norm(n.elt) == norm(n.generators[0].target):
            g = n.generators[0]
            s2 = sel.bind_target(g.target, {})
            pred = bn.mk_and([sel.formula(fi, c, n, s2) for c in g.ifs])
        elif isinstance(n, ast.For) and '.epidata.get(' in norm(n.iter):
            try:
                preds = sel.loop_predicates(fi, n, {})
            except AnalysisError as exc:
                rep.undecided(key, fi.loc(n), str(exc))
                found = True
                continue
            same = [p for p, kind in preds.values() if kind == 'same']
            if len(same) == 1:
                pred = same[0]
        if pred is None:
            continue
        found = True
        d = bn.equivalent(pred, want)
        if d is None:
            rep.ok(key, fi.loc(n), bn.show(pred))
        else:
            dropped = bn.equivalent(bn.mk_and([want, bn.mk_not(pred)]), False)
            rep.add(key, fi.loc(n), 'violation' if dropped is not None else 'undecided',
                    f'a marker is copied only when {bn.show(pred)}: with {dropped} a marker that is not a role alignment is dropped, so layout '
                    f'markers or alignments of the replaced triple are lost' if dropped is not None else bn.show(pred))
    if not found:
        rep.undecided(key, root_fi.loc(), 'no copy of g.epidata.get(<second triple>, []) found')
    return rep


@rule('R66', 'a list that the same function pops is never indexed at [-1] / popped unless it is known to be non-empty there')
def r66(ctx: Ctx) -> RuleReport:
    from ..resolve import facts_ex, view
    rep = RuleReport('R66', r66.title, floor=0)
    for fi in ctx.repo.all_functions():
        popped = {n.func.value.id for n in walk_local(fi.node) if isinstance(n, ast.Call) and isinstance(n.func, ast.Attribute)
                  and n.func.attr == 'pop' and not n.args and isinstance(n.func.value, ast.Name)}
        # only lists: the name is bound to a list display / list(...) / reversed copy in this function
        lists = set()
        for nm in popped:
            t = ctx.types.type_of(fi, ast.Name(id=nm, ctx=ast.Load())) if False else None
            vals = [v for v in ctx.cg.local_assigns(fi).get(nm, []) if isinstance(v, ast.AST)]
            if any(isinstance(v, (ast.List, ast.ListComp)) or (isinstance(v, ast.Call) and norm(v.func) == 'list') for v in vals):
                lists.add(nm)
        if not lists:
            continue
        v = view(ctx, fi)
        for n in walk_local(fi.node):
            site = None
            if isinstance(n, ast.Subscript) and isinstance(n.value, ast.Name) and n.value.id in lists and isinstance(n.ctx, ast.Load) \
                    and try_fold(n.slice) == (True, -1):
                site = (n, n.value.id, f'{n.value.id}[-1]')
            if site is None:
                continue
            node, nm, what = site
            facts = facts_ex(ctx, fi, node)
            nonempty = (nm, True) in facts or (f'not {nm}', False) in facts or (f'len({nm}) > 0', True) in facts \
                or (f'len({nm}) == 0', False) in facts
            in_try = False
            x = node
            while id(x) in v.pm:
                x = v.pm[id(x)]
                if isinstance(x, ast.Try) and any(node is y for b in x.body for y in ast.walk(b)) and any(
                        h.type is None or 'IndexError' in norm(h.type) or norm(h.type) in ('Exception', 'LookupError') for h in x.handlers):
                    in_try = True
            # can a pop() of the same list reach this read without an intervening append?
            reach = False
            try:
                here = v.node_of(node)
                pops = [v.node_of(c) for c in walk_local(fi.node) if isinstance(c, ast.Call) and isinstance(c.func, ast.Attribute)
                        and c.func.attr == 'pop' and not c.args and norm(c.func.value) == nm]
                grow = {v.node_of(c) for c in walk_local(fi.node) if isinstance(c, ast.Call) and isinstance(c.func, ast.Attribute)
                        and c.func.attr in ('append', 'extend', 'insert') and norm(c.func.value) == nm
                        and not any(isinstance(a, ast.If) for a in _anc(v.pm, c) if a is not fi.node and not isinstance(a, (ast.For, ast.While)))}
                for pn in pops:
                    if v.cfg.path_avoiding([(pn, None)], {here}, lambda nd: nd.id in grow) is not None or pn == here:
                        reach = True
            except (KeyError, AnalysisError):
                reach = True
            key = f'{fi.module.name}:{fi.qualname}: {what}'
            if nonempty or in_try:
                rep.ok(key, fi.loc(node), 'guarded by a non-emptiness test' if nonempty else 'inside try/except IndexError')
            elif reach:
                rep.violation(key, fi.loc(node), f'`{what}` is evaluated after `{nm}.pop()` may have emptied the list and nothing tests `{nm}` in between: '
                              f'markers that close more nodes than are open (as dereification leaves behind) raise IndexError instead of ending the scan')
            else:
                rep.ok(key, fi.loc(node), 'no pop() reaches this read')
    return rep


@rule('R32', 'a value cast to Variable that may be a constant is known to be a variable before it becomes the source of a graph triple')
def r32(ctx: Ctx) -> RuleReport:
    from ..resolve import expand, facts_ex, view
    rep = RuleReport('R32', r32.title, floor=3)
    repo = ctx.repo

    def is_cast_var(e) -> bool:
        return isinstance(e, ast.Call) and norm(e.func) in ('cast', 'typing.cast') and len(e.args) == 2 and norm(e.args[0]) == 'Variable'
    # producers: functions returning a triple whose source slot is cast(Variable, <something derived from a parameter>)
    producers: Dict[str, FuncInfo] = {}
    for fi in repo.all_functions():
        for r in [n for n in walk_local(fi.node) if isinstance(n, ast.Return) and n.value is not None]:
            v = r.value
            if isinstance(v, ast.Tuple) and len(v.elts) == 3:
                s0 = v.elts[0]
                if is_cast_var(s0):
                    producers[fi.fq] = fi
                elif isinstance(s0, ast.Name):
                    vals = [x for x in ctx.cg.local_assigns(fi).get(s0.id, []) if isinstance(x, ast.AST)]
                    if any(is_cast_var(x) for x in vals):
                        producers[fi.fq] = fi
                    # the same claim made with an annotation instead of a cast:  new_source: Variable = target  # type: ignore
                    elif any(isinstance(x, ast.AnnAssign) and isinstance(x.target, ast.Name) and x.target.id == s0.id and norm(x.annotation) == 'Variable' and x.value is not None
                             for x in walk_local(fi.node)) and fi.module.name == 'penman.model':
                        producers[fi.fq] = fi
    changed = True
    while changed:      # wrappers: return <producer>(own parameter)
        changed = False
        for fi in repo.all_functions():
            if fi.fq in producers:
                continue
            for c, ts in ctx.cg.calls_in(fi):
                if any(t.kind == 'func' and t.func.fq in producers for t in ts) and c.args and isinstance(c.args[0], ast.Name) \
                        and c.args[0].id in fi.params:
                    par = repo.parent_map(fi.node).get(id(c))
                    if isinstance(par, (ast.Return, ast.Assign)):
                        # a helper that makes the membership test itself (`_, role, target = triple; if target in variables: return model.deinvert(triple)`)
                        # hands out a safe triple: its callers need no test of their own
                        pn = c.args[0].id
                        slot2 = {f'{pn}[2]'}
                        for n_ in walk_local(fi.node):
                            if isinstance(n_, ast.Assign) and isinstance(n_.targets[0], ast.Tuple) and len(n_.targets[0].elts) == 3 and norm(n_.value) == pn:
                                slot2.add(norm(n_.targets[0].elts[2]))
                        if any(pol and any(f.startswith(f'{x} in ') for x in slot2) for f, pol in facts_ex(ctx, fi, c)):
                            continue
                        producers[fi.fq] = fi
                        changed = True
    rep.analysed['producers'] = sorted(producers)
    if len(producers) < 2:
        raise AnalysisError(f'R32: expected Model.invert / Model.dereify among the producers, found {sorted(producers)}')
    from ..resolve import local_callees as _lcs
    inode = repo.maybe_func('penman.layout', '_interpret_node')
    helpers = {f.fq for f in _lcs(ctx, inode, depth=1)} if inode is not None else set()
    consumers = [f for f in repo.all_functions() if f.module.name == 'penman.transform' or f.fq in helpers]
    for fi in consumers:
        v = view(ctx, fi)
        for c, ts in ctx.cg.calls_in(fi):
            ps = [t.func for t in ts if t.kind == 'func' and t.func.fq in producers]
            if not ps:
                continue
            key = f'{fi.module.name}:{fi.qualname}: {norm(c)[:60]}'
            # (a) the argument's target slot is a variable by type or by a dominating membership test
            a0 = c.args[0] if c.args else None
            proven = None
            if isinstance(a0, ast.Name):
                from ..resolve import unique_def
                a0 = unique_def(v, a0.id, c) or a0
            if isinstance(a0, ast.Tuple) and len(a0.elts) == 3:
                t = ctx.types.type_of(fi, c.args[0].elts[2]) if isinstance(c.args[0], ast.Tuple) else frozenset()
                only_var = bool(t) and all(a[0] in ('Var',) for a in t)
                src = norm(expand(ctx, fi, a0.elts[2], c, pure_only=True))
                fx = facts_ex(ctx, fi, c)
                guarded = any(pol and f.startswith(f'{src} in ') for f, pol in fx)
                nested = src.endswith('[0]') and (f'is_atomic({src[:-3]})', False) in fx
                if only_var:
                    proven = f'{src} is typed as a variable'
                elif guarded:
                    proven = f'`{src} in ...` holds at the call'
                elif nested:
                    proven = f'{src} is the variable of a nested node (is_atomic({src[:-3]}) is false here)'
            if proven is None and c.args and isinstance(c.args[0], ast.Name) and c.args[0].id in fi.params:
                # the triple is a parameter that the function takes apart: `_, role, target = triple` ... `if target in variables:`
                pn_ = c.args[0].id
                slot2_ = {f'{pn_}[2]'} | {norm(n_.targets[0].elts[2]) for n_ in walk_local(fi.node) if isinstance(n_, ast.Assign) and isinstance(n_.targets[0], ast.Tuple)
                                           and len(n_.targets[0].elts) == 3 and norm(n_.value) == pn_}
                fx_ = facts_ex(ctx, fi, c)
                hit_ = next((f for f, pol in fx_ if pol and any(f.startswith(f'{x} in ') for x in slot2_)), None)
                if hit_:
                    proven = f'`{hit_}` holds at the call'
            # (b) the source slot of the result is tested before the result is used
            if proven is None:
                par = v.pm.get(id(c))
                res = par.targets[0].id if isinstance(par, ast.Assign) and isinstance(par.targets[0], ast.Name) else None
                if res:
                    uses = [n for n in walk_local(fi.node) if isinstance(n, ast.Name) and n.id == res and isinstance(n.ctx, ast.Load)
                            and not (isinstance(v.pm.get(id(n)), ast.Subscript) and isinstance(v.pm.get(id(v.pm.get(id(n)))), ast.Compare))]
                    tested = [u for u in uses if any((pol and f.startswith(f'{res}[0] in ')) or (not pol and f.startswith(f'{res}[0] not in '))
                                                      for f, pol in facts_ex(ctx, fi, u))]
                    if uses and len(tested) == len(uses):
                        proven = f'every use of `{res}` is dominated by a membership test of {res}[0]'
                        # ... against ALL variables of the graph: a collection that only holds the variables with an instance triple is too narrow
                        sets_ = set()
                        for u in uses:
                            for f, pol in facts_ex(ctx, fi, u):
                                for pre in (f'{res}[0] in ', f'{res}[0] not in '):
                                    if f.startswith(pre):
                                        sets_.add(f[len(pre):])
                        for S_ in sorted(sets_):
                            if not S_.isidentifier():
                                continue
                            sv = [x for x in ctx.cg.local_assigns(fi).get(S_, []) if isinstance(x, ast.AST)]
                            if any(isinstance(x, ast.Call) and isinstance(x.func, ast.Attribute) and x.func.attr == 'variables' for x in sv):
                                continue
                            fills = [n for n in walk_local(fi.node) if (isinstance(n, ast.Assign) and isinstance(n.targets[0], ast.Subscript) and norm(n.targets[0].value) == S_)
                                     or (isinstance(n, ast.Call) and isinstance(n.func, ast.Attribute) and n.func.attr in ('add', 'setdefault') and norm(n.func.value) == S_)]
                            only_instances = fills and all(any(pol and 'CONCEPT_ROLE' in f and '==' in f or (not pol and 'CONCEPT_ROLE' in f and '!=' in f)
                                                               for f, pol in facts_ex(ctx, fi, n)) for n in fills)
                            if only_instances:
                                rep.violation(key + ' (which variables count)', fi.loc(c), f'`{res}[0]` is tested against `{S_}`, which is filled from the instance triples only: a variable '
                                              f'that has no instance triple (a node without concept in a graph built from plain triples, a concept-less top) is not in it, so a '
                                              f'relation node that points from such a variable is never dereified although its source is a node of the graph')
                                proven = None
                                break
                        if proven is None:
                            continue
                    elif uses:
                        u = next(x for x in uses if x not in tested)
                        rep.violation(key, fi.loc(u), f'the source of the triple returned by {ps[0].qualname} is a target cast to Variable; `{res}` is '
                                      f'used here without any test that {res}[0] is a variable of the graph: when the relation\'s source role '
                                      f'points to a constant the result is a triple whose source is not a node')
                        continue
            rep.add(key, fi.loc(c), 'ok' if proven else 'undecided', proven or 'neither the argument nor the result is shown to have a variable in source position')
    return rep


@rule('R70', 'a tree atom (None when a target or concept is missing) is only dereferenced where it is known to be a string')
def r70(ctx: Ctx) -> RuleReport:
    from ..resolve import facts_ex
    rep = RuleReport('R70', r70.title, floor=3)
    STR_METHODS = {'partition', 'rpartition', 'split', 'rsplit', 'startswith', 'endswith', 'strip', 'lstrip', 'rstrip', 'replace', 'find',
                   'index', 'rindex', 'rfind', 'lower', 'upper', 'isalpha', 'encode', 'format', 'join', 'count'}
    for fi in ctx.repo.all_functions():
        if fi.module.name not in ('penman._format', 'penman.tree', 'penman.layout', 'penman.transform'):
            continue
        for n in walk_local(fi.node):
            if not (isinstance(n, ast.Call) and isinstance(n.func, ast.Attribute) and n.func.attr in STR_METHODS and isinstance(n.func.value, ast.Name)):
                continue
            x = n.func.value
            t = ctx.types.type_of(fi, x)
            if not has(t, 'Atom'):
                continue
            fx = facts_ex(ctx, fi, n)
            nm = x.id
            def proves(f, pol, name):
                if pol and (f in (f'{name} is not None', f'isinstance({name}, str)', name) or (f.endswith(f' in {name}') and f[:1] in '\'"')):
                    return True
                return (not pol) and f in (f'{name} is None', f'not {name}')
            guarded = any(proves(f, pol, nm) for f, pol in fx)
            # a caller-side guarantee: the parameter is only ever passed values already tested there
            key = f'{fi.module.name}:{fi.qualname}: {norm(n)[:50]}'
            if guarded:
                rep.ok(key, fi.loc(n), 'the atom is known to be a string here')
                continue
            if nm in fi.params:
                callers = ctx.cg.callers.get(fi.fq, [])
                idx = fi.positional.index(nm) if nm in fi.positional else None
                ok_all = bool(callers) and idx is not None
                for cfi, call in callers:
                    a = call.args[idx] if idx is not None and idx < len(call.args) else None
                    if not isinstance(a, ast.Name):
                        ok_all = False
                        break
                    cf = facts_ex(ctx, cfi, call)
                    if not any(proves(f, pol, a.id) for f, pol in cf):
                        ok_all = False
                if ok_all:
                    rep.ok(key, fi.loc(n), 'every caller passes an atom it has tested')
                    continue
            rep.violation(key, fi.loc(n), f'`{nm}` may be None (a branch without a target, "(a :ARG0 )", or a node without a concept, "(a / )", parses to None): '
                          f'.{n.func.attr}() then raises AttributeError instead of the text being written')
    return rep


@rule('R73', 'context that a function holds under the same name as an optional parameter of its callee is passed on (model, top, key, indent ...)')
def r73(ctx: Ctx) -> RuleReport:
    rep = RuleReport('R73', r73.title, floor=20)
    frozen = {
        ('penman._lexer:TokenIterator.expect', 'penman._lexer:TokenIterator.error', 'token'):
            'the call sits in the handler of the failed self.next(): no token was bound',
    }
    n_calls = 0
    _r73_view: Dict[str, tuple] = {}
    _r73_rd: Dict[str, dict] = {}
    for fi in ctx.repo.all_functions():
        scope = set(fi.params) | {k for k, v in ctx.cg.local_assigns(fi).items() if v}
        for call, ts in ctx.cg.calls_in(fi):
            for t in ts:
                callee, skip = None, 0
                if t.kind == 'func':
                    callee = t.func
                    skip = 1 if callee.is_method() and 'staticmethod' not in callee.decorators() else 0
                elif t.kind == 'class':
                    callee, skip = t.cls.find_method('__init__'), 1
                if callee is None:
                    continue
                if any(k.arg is None for k in call.keywords) or any(isinstance(x, ast.Starred) for x in call.args):
                    continue
                a = callee.node.args
                names = [x.arg for x in a.posonlyargs + a.args][skip:]
                nd = len(a.defaults)
                optional = set(names[len(names) - nd:] if nd else []) | {k.arg for k, dv in zip(a.kwonlyargs, a.kw_defaults) if dv is not None}
                passed = set(names[:len(call.args)]) | {k.arg for k in call.keywords if k.arg}
                n_calls += 1
                missing = sorted(p for p in optional - passed if p in scope)
                if missing:
                    # the caller must HOLD the value when it makes the call: a definition reaches the call that is not made by the statement the call belongs to
                    # (`for _, _, target in self.edges()` binds `target` from the very result of the call)
                    try:
                        from ..cfg import reaching_defs as _rdefs
                        vw = _r73_view.setdefault(fi.fq, (CFG(fi.node), ctx.repo.parent_map(fi.node)))
                        cfg_, pm_ = vw
                        rd_ = _r73_rd.setdefault(fi.fq, _rdefs(cfg_, fi.params))
                        cn_ = owner_node(cfg_, pm_, call)
                        held = []
                        # a call in the iterable of a `for` is evaluated once, before the loop: what the body binds does not reach it
                        enclosing_for = None
                        q_ = call
                        while id(q_) in pm_:
                            par_ = pm_[id(q_)]
                            if isinstance(par_, (ast.For, ast.AsyncFor)) and par_.iter is q_:
                                enclosing_for = par_
                                break
                            if isinstance(par_, ast.stmt):
                                break
                            q_ = par_
                        inside = set()
                        if enclosing_for is not None:
                            inside = {cfg_.stmt_node[id(x)] for x in ast.walk(enclosing_for) if id(x) in cfg_.stmt_node}
                        for p in missing:
                            defs_ = set(rd_.get(cn_, {}).get(p, ())) - {cn_} - inside
                            if defs_:
                                held.append(p)
                        missing = held
                    except AnalysisError:
                        pass
                key = f'{fi.module.name}:{fi.qualname}: {norm(call)[:60]}'
                if not missing:
                    if optional & passed & scope:
                        rep.ok(key, fi.loc(call), f'passes {sorted(optional & passed & scope)}')
                    continue
                for p in missing:
                    fz = frozen.get((fi.fq, callee.fq, p))
                    if t.kind == 'class' and ctor_param_unused(ctx, fi, call, t.cls, p):
                        rep.add(key, fi.loc(call), 'info', f'`{p}` is left out, but no method called on the new object reads what __init__ derives from it')
                    elif fz:
                        rep.exception(key, fi.loc(call), fz)
                    else:
                        rep.violation(key + f' omits {p}', fi.loc(call),
                                      f'{fi.qualname} holds `{p}` but calls {callee.qualname} without it: the callee falls back to its default '
                                      f'({p}=None means the default model / the implicit top / no key ...), so the result is computed in another context than the caller\'s')
    rep.analysed['calls_to_functions_with_optional_parameters'] = n_calls
    return rep


def _explicit_raises(ctx: Ctx, fi: FuncInfo, stmts, depth: int = 5) -> Set[str]:
    """library exception classes raised on purpose by the statements or by what they (resolvably) call"""
    out: Set[str] = set()
    seen = set()
    lib = {c.name for c in ast.walk(ctx.repo.module('penman.exceptions').tree) if isinstance(c, ast.ClassDef)}

    def names_of(exc):
        if isinstance(exc, ast.Call):
            exc = exc.func
        s = norm(exc)
        return s.rsplit('.', 1)[-1]

    def scan(owner: FuncInfo, nodes, d):
        for st in nodes:
            for x in ast.walk(st):
                if isinstance(x, ast.Raise) and x.exc is not None:
                    nm = names_of(x.exc)
                    if nm in lib or nm == 'error':
                        out.add('DecodeError' if nm == 'error' else nm)
                elif isinstance(x, ast.Call) and d > 0:
                    try:
                        ts = ctx.cg.resolve_call(x, owner)
                    except Exception:
                        ts = []
                    for t in ts:
                        if t.kind == 'func' and id(t.func) not in seen:
                            seen.add(id(t.func))
                            scan(t.func, t.func.node.body, d - 1)
    scan(fi, stmts, depth)
    return out


@rule('R74', 'no handler catches a blanket exception class: an error is either the documented one or it propagates')
def r74(ctx: Ctx) -> RuleReport:
    rep = RuleReport('R74', r74.title, floor=8)
    BROAD = {'Exception', 'BaseException', 'builtins.Exception'}
    for fi in ctx.repo.all_functions():
        for n in walk_local(fi.node):
            if not isinstance(n, ast.Try):
                continue
            for h in n.handlers:
                types = [] if h.type is None else ([norm(x) for x in h.type.elts] if isinstance(h.type, ast.Tuple) else [norm(h.type)])
                key = f'{fi.module.name}:{fi.qualname}: except {", ".join(types) or "<anything>"}'
                broad = h.type is None or any(t in BROAD for t in types)
                reraises = any(isinstance(x, ast.Raise) for x in ast.walk(h))
                if broad and not reraises:
                    swallowed = _explicit_raises(ctx, fi, n.body)
                    if fi.module.name == 'penman.transform':
                        swallowed -= {'ModelError'}     # "this node cannot be (de)reified" is what the agenda builders catch by design
                    if swallowed:
                        rep.violation(key, fi.loc(h), f'the handler swallows every exception, including {", ".join(sorted(swallowed))} which the guarded '
                                      f'statements raise on purpose: the documented error is turned into a silently wrong or missing result')
                    else:
                        rep.add(key, fi.loc(h), 'info', 'broad handler, but nothing the guarded statements call raises a library error on purpose')
                elif broad:
                    rep.add(key, fi.loc(h), 'info', 'broad handler that re-raises')
                else:
                    rep.ok(key, fi.loc(h))
    return rep


@rule('R75', 'a lookup table stored on an object is a plain dict: reading a missing key must not insert it')
def r75(ctx: Ctx) -> RuleReport:
    rep = RuleReport('R75', r75.title, floor=0)
    for fi in ctx.repo.all_functions():
        if fi.cls is None:
            continue
        dd = {nm for nm, vals in ctx.cg.local_assigns(fi).items() if any(
            isinstance(v, ast.Call) and norm(v.func) in ('defaultdict', 'collections.defaultdict') for v in vals if isinstance(v, ast.AST))}
        if not dd:
            continue
        for n in walk_local(fi.node):
            if isinstance(n, ast.Assign) and isinstance(n.targets[0], ast.Attribute) and norm(n.targets[0].value) == 'self':
                attr = n.targets[0].attr
                v = n.value
                key = f'{fi.module.name}:{fi.qualname}: self.{attr} = {norm(v)[:30]}'
                if isinstance(v, ast.Call) and norm(v.func) == 'dict' and v.args and isinstance(v.args[0], ast.Name) and v.args[0].id in dd:
                    rep.ok(key, fi.loc(n), 'converted to a plain dict')
                elif isinstance(v, ast.Name) and v.id in dd:
                    reads = []
                    for m in fi.cls.methods.values():
                        reads += [(m, x) for x in walk_local(m.node) if isinstance(x, ast.Subscript) and isinstance(x.ctx, ast.Load)
                                  and norm(x.value) == f'self.{attr}']
                    # a read under `key in self.attr` (or after `key not in self.attr: raise`) cannot insert
                    unguarded = []
                    for m, x in reads:
                        k = norm(x.slice).replace(' ', '')
                        fx = {(f.replace(' ', ''), pol) for f, pol in facts_ex(ctx, m, x)}
                        if (f'{k}inself.{attr}', True) in fx or (f'{k}notinself.{attr}', False) in fx:
                            continue
                        unguarded.append((m, x))
                    if reads and not unguarded:
                        rep.ok(key, fi.loc(n), f'self.{attr} stays a defaultdict, but each of the {len(reads)} subscript read(s) is under a membership test on the same key')
                    elif unguarded:
                        m, x = unguarded[0]
                        rep.violation(key, fi.loc(n), f'self.{attr} stays a defaultdict, and {m.qualname} reads it with `{norm(x)[:40]}`: looking up a key that is '
                                      f'not there inserts an empty entry, so a failed query changes the object (is_role_reifiable flips, two equal '
                                      f'models stop being equal)')
                    else:
                        rep.add(key, fi.loc(n), 'info', 'a defaultdict is stored but never read by subscript')
    return rep


@rule('R76', 'no module-level mutable object is handed out as a default value (objects without their own value would share it)')
def r76(ctx: Ctx) -> RuleReport:
    rep = RuleReport('R76', r76.title, floor=0)
    probe = ast.parse('_EMPTY = {}\nclass T:\n    def __init__(self, m=None):\n        self.m = m or _EMPTY\n')
    if not _shared_defaults(probe, {'_EMPTY'}):
        raise AnalysisError('R76 self-test: the matcher misses `x or _SHARED`')
    n = 0
    for m in ctx.repo.modules.values():
        mut = set()
        for name, v in m.constants.items():
            if isinstance(v, (ast.Dict, ast.List, ast.Set)) and not getattr(v, 'keys', getattr(v, 'elts', None)):
                mut.add(name)
            elif isinstance(v, ast.Call) and norm(v.func) in ('dict', 'list', 'set', 'defaultdict', 'OrderedDict', 'collections.defaultdict') and not v.args:
                mut.add(name)
        n += len(mut)
        if not mut:
            continue
        for fi in m.all_funcs:
            for node, name in _shared_defaults(fi.node, mut):
                rep.violation(f'{m.name}:{fi.qualname}: {norm(node)[:60]}', fi.loc(node),
                              f'`{name}` is one module-level object: every caller that does not bring its own value gets this same object, so a change made '
                              f'through one result (tree.metadata["id"] = ...) shows up in all the others and in later calls')
    rep.analysed['module_level_empty_mutables'] = n
    return rep


def _shared_defaults(root, names):
    out = []
    for n in ast.walk(root):
        v = None
        if isinstance(n, ast.Assign) and isinstance(n.targets[0], ast.Attribute):
            v = n.value
        elif isinstance(n, ast.Return) and n.value is not None:
            v = n.value
        if v is None:
            continue
        cands = []
        if isinstance(v, ast.BoolOp) and isinstance(v.op, ast.Or):
            cands = v.values[1:]
        elif isinstance(v, ast.IfExp):
            cands = [v.body, v.orelse]
        elif isinstance(v, ast.Name):
            cands = [v]
        for c in cands:
            if isinstance(c, ast.Name) and c.id in names:
                out.append((n, c.id))
    return out


@rule('R77', 'the graphs of a stream are handled independently: no value computed for one graph is read while handling a later one')
def r77(ctx: Ctx) -> RuleReport:
    from ..resolve import view
    from ..cfg import assigned_names
    rep = RuleReport('R77', r77.title, floor=3)
    targets = [('penman._parse', 'iterparse'), ('penman.codec', '_iterdecode'), ('penman.__main__', 'process'), ('penman.codec', '_dump_stream'),
               ('penman.codec', 'PENMANCodec.iterdecode'), ('penman.codec', 'PENMANCodec.iterparse')]
    for mod, qn in targets:
        fi = ctx.repo.maybe_func(mod, qn)
        if fi is None:
            continue
        v = view(ctx, fi)
        cfg = v.cfg
        for loop in [n for n in walk_local(fi.node) if isinstance(n, (ast.For, ast.While))]:
            head = cfg.node_of(loop)
            body_nodes = [nd for nd in cfg.nodes if nd.ast is not None and nd.ast is not loop and any(x is nd.ast for x in ast.walk(loop))]
            loop_target = {x.id for x in ast.walk(loop.target) if isinstance(x, ast.Name)} if isinstance(loop, ast.For) else set()
            names = set()
            for nd in body_nodes:
                if nd.kind == 'stmt':
                    names |= assigned_names(nd.ast)
            item_defs = set()
            if isinstance(loop, ast.While):
                # `t = next(items, None)` ... `while t is not None: ...; t = next(items, None)`: t is the item of the round that follows, as a for target is
                tested = {x.id for x in ast.walk(loop.test) if isinstance(x, ast.Name)}
                for nd in body_nodes:
                    a = nd.ast
                    if nd.kind == 'stmt' and isinstance(a, ast.Assign) and len(a.targets) == 1 and isinstance(a.targets[0], ast.Name) and a.targets[0].id in tested \
                            and isinstance(a.value, ast.Call) and norm(a.value.func) == 'next' and a.value.args:
                        item_defs.add(nd.id)
            key = f'{fi.module.name}:{fi.qualname}: loop at {norm(loop)[:40].splitlines()[0]}'
            carried = []
            for x in sorted(names - loop_target):
                defs = [nd for nd in body_nodes if nd.kind == 'stmt' and x in assigned_names(nd.ast)]
                # accumulators and first-iteration flags are meant to be carried
                def harmless(nd):
                    a = nd.ast
                    if isinstance(a, ast.AugAssign):
                        return True
                    if isinstance(a, ast.Assign) and isinstance(a.targets[0], ast.Name) and isinstance(a.value, ast.BinOp) \
                            and isinstance(a.value.op, (ast.BitOr, ast.Add)) and norm(a.value.left) == a.targets[0].id:
                        return True         # x = x | y  /  x = x + y : an accumulator
                    return isinstance(a, ast.Assign) and isinstance(a.value, ast.Constant) and isinstance(a.value.value, (bool, int))
                if all(harmless(d) or d.id in item_defs for d in defs):
                    continue
                redef = {d.id for d in defs}

                def uses(nd, x=x):
                    if nd.ast is None:
                        return False
                    root = nd.ast
                    if isinstance(root, (ast.For, ast.While, ast.If)) and nd.kind != 'cond':
                        root = getattr(root, 'iter', None) or getattr(root, 'test', None)
                        if root is None:
                            return False
                    return any(isinstance(y, ast.Name) and y.id == x and isinstance(y.ctx, ast.Load) for y in ast.walk(root))
                for d in defs:
                    if harmless(d) or d.id in item_defs:
                        continue
                    # def -> loop head without another definition ...
                    p1 = cfg.path_avoiding([(d.id, None)], {head}, lambda nd: nd.id in redef and nd.id != d.id)
                    if p1 is None:
                        continue
                    # ... and from the head to a use without passing a definition
                    use_nodes = {nd.id for nd in body_nodes if uses(nd) and nd.id not in redef}
                    use_nodes |= {nd.id for nd in body_nodes if uses(nd) and nd.id in redef}     # x = f(x) reads first
                    p2 = None
                    for lab in ('T', None):
                        p2 = p2 or cfg.path_avoiding([(head, lab)], use_nodes, lambda nd: nd.id in redef and not uses(nd))
                    if p2 is not None:
                        carried.append((x, d, p2))
            if carried:
                x, d, p2 = carried[0]
                rep.violation(key, fi.loc(d.ast), f'`{x}`, assigned by `{norm(d.ast)[:50]}` while one graph is handled, can still be read when a later graph is handled ('
                              + ' -> '.join(repr(cfg.nodes[i]) for i in p2[-3:])[:160] + '): data of one graph (its metadata, its text) leaks into the next')
            else:
                rep.ok(key, fi.loc(loop))
    return rep


def _is_counter(ctx: Ctx, fi: FuncInfo, name: str, depth: int = 0) -> bool:
    if name in fi.params and not ctx.cg.local_assigns(fi).get(name) and depth < 2:
        callers = ctx.cg.callers.get(fi.fq, [])
        idx = fi.positional.index(name) if name in fi.positional else None
        if not callers or idx is None:
            return False
        for cfi, call in callers:
            a = call.args[idx] if idx < len(call.args) else next((k.value for k in call.keywords if k.arg == name), None)
            if isinstance(a, ast.Call) and norm(a.func) in ('count', 'itertools.count'):
                continue
            if not (isinstance(a, ast.Name) and _is_counter(ctx, cfi, a.id, depth + 1)):
                return False
        return True
    f = fi
    while f is not None:
        vals = [v for v in ctx.cg.local_assigns(f).get(name, []) if isinstance(v, ast.AST)]
        if vals:
            return all(isinstance(v, ast.Call) and norm(v.func) in ('count', 'itertools.count') for v in vals)
        f = f.parent
    return False


@rule('R78', 'a search for an unused name terminates: candidates come from a counter that is part of the name, or a repeated candidate is detected')
def r78(ctx: Ctx) -> RuleReport:
    from ..resolve import facts_ex
    rep = RuleReport('R78', r78.title, floor=2)
    for fi in ctx.repo.all_functions():
        for loop in [n for n in walk_local(fi.node) if isinstance(n, (ast.While, ast.For))]:
            # the loop searches while the candidate is taken:  while X in S   /   for ...: if X not in S: break
            test_src = norm(loop.test) if isinstance(loop, ast.While) else ' '.join(norm(x.test) for x in ast.walk(loop) if isinstance(x, ast.If))
            m = None
            for x in (ast.walk(loop.test) if isinstance(loop, ast.While) else [y for i_ in ast.walk(loop) if isinstance(i_, ast.If) for y in ast.walk(i_.test)]):
                if isinstance(x, ast.Compare) and len(x.ops) == 1 and isinstance(x.ops[0], (ast.In, ast.NotIn)) and isinstance(x.left, ast.Name) \
                        and isinstance(x.comparators[0], ast.Name):
                    m = (x.left.id, x.comparators[0].id)
            if m is None:
                continue
            cand, taken = m
            gens = [n for n in ast.walk(loop) if isinstance(n, ast.Assign) and isinstance(n.targets[0], ast.Name) and n.targets[0].id == cand]
            if not gens:
                continue
            if isinstance(loop, ast.For) and not (isinstance(loop.iter, ast.Call) and norm(loop.iter.func) in ('count', 'itertools.count')):
                continue
            key = f'{fi.module.name}:{fi.qualname}: search for a {cand} not in {taken}'
            counters = {n.target.id for n in ast.walk(loop) if isinstance(n, ast.AugAssign) and isinstance(n.target, ast.Name)
                        and isinstance(n.op, (ast.Add, ast.Sub)) and not (try_fold(n.value)[0] and try_fold(n.value)[1] == 0)}
            stuck = [n for n in ast.walk(loop) if isinstance(n, ast.AugAssign) and isinstance(n.target, ast.Name) and try_fold(n.value) == (True, 0)]
            if isinstance(loop, ast.For):
                counters |= {x.id for x in ast.walk(loop.target) if isinstance(x, ast.Name)}
            verdicts = []
            for g in gens:
                v = g.value
                if isinstance(v, ast.JoinedStr) and any(isinstance(p, ast.FormattedValue) and isinstance(p.value, ast.Name) and p.value.id in counters
                                                        and p.format_spec is None for p in v.values):
                    verdicts.append('distinct')         # a literal template that spells out the counter
                elif isinstance(v, ast.JoinedStr) and any(
                        isinstance(p, ast.FormattedValue) and isinstance(p.value, ast.Call) and norm(p.value.func) == 'next' and p.value.args
                        and isinstance(p.value.args[0], ast.Name) and p.format_spec is None and _is_counter(ctx, fi, p.value.args[0].id) for p in v.values):
                    verdicts.append('distinct')         # the next value of an endless counter is part of the name
                elif isinstance(v, ast.Call) and isinstance(v.func, ast.Attribute) and v.func.attr == 'format' and isinstance(v.func.value, ast.Name) \
                        and v.func.value.id in fi.params:
                    # the template is the caller's: nothing forces it to use the counter
                    detected = False
                    for r in [x for x in ast.walk(loop) if isinstance(x, ast.Raise)]:
                        fx = facts_ex(ctx, fi, r)
                        seen = [f.split(' in ', 1)[1] for f, pol in fx if pol and f.startswith(f'{cand} in ')]
                        for sname in seen:
                            if any(isinstance(a, ast.Call) and isinstance(a.func, ast.Attribute) and a.func.attr == 'add' and norm(a.func.value) == sname
                                   and a.args and norm(a.args[0]) == cand for a in ast.walk(loop)):
                                detected = True
                    verdicts.append('detected' if detected else 'unbounded')
                else:
                    verdicts.append('unknown')
            if stuck and 'unknown' in verdicts:
                rep.violation(key, fi.loc(stuck[0]), f'`{norm(stuck[0])}` never changes the counter the candidate is made from: once the first candidate `{norm(gens[0].value)[:30]}` is taken, '
                              f'every further candidate is the same and the search never ends')
            elif 'unbounded' in verdicts:
                rep.violation(key, fi.loc(loop), f'the candidates are produced by `{norm(gens[0].value)[:60]}` from a format string supplied by the caller: if it does not use '
                              f'the counter (a constant such as "x", or "{{prefix}}" for two concepts with the same initial) every candidate is the same and the '
                              f'loop never ends; nothing in the loop detects a repeated candidate')
            elif 'unknown' in verdicts:
                rep.undecided(key, fi.loc(loop), norm(gens[0].value)[:60])
            else:
                rep.ok(key, fi.loc(loop), ', '.join(sorted(set(verdicts))))
    return rep


@rule('R79', 'reify_attributes reifies exactly the attribute triples (the predicate of Graph.attributes)')
def r79(ctx: Ctx) -> RuleReport:
    from ..select import Selector
    rep = RuleReport('R79', r79.title, floor=1)
    fi = ctx.repo.func('penman.transform', 'reify_attributes')
    gp = fi.positional[0]
    sel = Selector(ctx)
    loops = [n for n in walk_local(fi.node) if isinstance(n, ast.For) and norm(n.iter) == f'{gp}.triples']
    if len(loops) != 1:
        rep.undecided(f'{fi.fq}: loop over g.triples', fi.loc(), f'{len(loops)} loops')
        return rep
    loop = loops[0]
    subst = sel.bind_target(loop.target, {})
    for n in ast.walk(loop):
        if isinstance(n, ast.Assign) and isinstance(n.targets[0], ast.Tuple) and len(n.targets[0].elts) == 3 and norm(n.value) == norm(loop.target):
            for i, x in enumerate(n.targets[0].elts):
                if isinstance(x, ast.Name):
                    subst[x.id] = ast.Subscript(value=ast.Name(id='t', ctx=ast.Load()), slice=ast.Constant(value=i), ctx=ast.Load())
    # the statement that creates the new node: an appended triple / tuple with the concept role in the middle, or the '_' candidate
    site = None
    for n in ast.walk(loop):
        if isinstance(n, ast.Tuple) and len(n.elts) == 3 and norm(n.elts[1]) == 'CONCEPT_ROLE' and not (isinstance(loop.target, ast.Tuple) and n is loop.target):
            site = n
            break
    if site is None:
        for n in ast.walk(loop):
            if isinstance(n, ast.Constant) and n.value == '_':
                site = n
                break
    if site is None:
        rep.undecided(f'{fi.fq}: the statement that creates the node of a reified attribute', fi.loc(loop))
        return rep
    decision = site
    try:
        got = sel.path_condition(fi, loop, site, {})
    except AnalysisError as exc:
        rep.undecided(f'{fi.fq}: the test that selects the triples to reify', fi.loc(loop), str(exc))
        return rep
    vname = next((nm for nm, vals in ctx.cg.local_assigns(fi).items() if any(isinstance(v, ast.Call) and norm(v.func) == f'{gp}.variables' for v in vals
                                                                               if isinstance(v, ast.AST))), None)
    def canon(f):
        if isinstance(f, tuple) and f[0] == 'atom':
            a = f[1].replace(f'{gp}.variables()', 'VARS')
            if vname:
                a = a.replace(f' in {vname}', ' in VARS')
            return ('atom', a)
        if isinstance(f, tuple) and f[0] == 'not':
            return bn.mk_not(canon(f[1]))
        if isinstance(f, tuple) and f[0] in ('and', 'or'):
            return (f[0], [canon(x) for x in f[1]])
        return f
    got = canon(got)
    want = bn.mk_and([bn.mk_not(('atom', 'CONCEPT_ROLE == t[1]')), bn.mk_not(('atom', 't[2] in VARS'))])
    d = bn.equivalent(got, want)
    key = f'{fi.fq}: a triple is reified iff it is not an instance triple and its target is not a variable'
    if d is None:
        rep.ok(key, fi.loc(decision), bn.show(got))
    else:
        narrower = bn.equivalent(bn.mk_and([want, bn.mk_not(got)]), False)
        rep.add(key, fi.loc(decision), 'violation' if narrower is not None else 'undecided',
                f'triples are reified when {bn.show(got)}; Graph.attributes() returns those with {bn.show(want)}: with {narrower} an attribute is left in the '
                f'graph, so "reifying attributes leaves no attribute" fails' if narrower is not None else bn.show(got))
    return rep


# ---------------------------------------------------------------------------------------------
_CHARWISE_CALLS = {'set', 'frozenset', 'list', 'tuple', 'sorted', 'deque'}
_CHARWISE_METHODS = {'extend', 'update', 'union', 'intersection', 'difference', 'symmetric_difference', 'issubset', 'issuperset',
                     'difference_update', 'intersection_update', 'extendleft', 'isdisjoint'}


def _semantic_string(t) -> bool:
    """may be one variable / role / constant / atom text (a str that stands for ONE item), and is never a collection"""
    atoms = {a[0] for a in t}
    if not atoms & {'Var', 'Role', 'Const', 'Atom', 'str'}:
        return False
    return not atoms & {'list', 'set', 'tuple', 'dict', 'iter', 'any', 'inst', 'ext', 'Node', 'Branch', 'Triple'}


@rule('R80', 'a variable, role or constant (one string) is never consumed as a collection of its characters')
def r80(ctx: Ctx) -> RuleReport:
    rep = RuleReport('R80', r80.title, floor=10)
    n = 0
    for fi in ctx.repo.all_functions():
        for x in walk_local(fi.node):
            if not isinstance(x, ast.Call):
                continue
            arg = None
            what = None
            if isinstance(x.func, ast.Name) and x.func.id in _CHARWISE_CALLS and len(x.args) == 1 and not x.keywords:
                arg, what = x.args[0], f'{x.func.id}(...)'
            elif isinstance(x.func, ast.Attribute) and x.func.attr in _CHARWISE_METHODS and len(x.args) >= 1:
                recv = ctx.types.type_of(fi, x.func.value)
                if {a[0] for a in recv} & {'list', 'set'}:
                    arg, what = x.args[0], f'.{x.func.attr}(...)'
            if arg is None:
                continue
            n += 1
            # `a or ()`, `() if c else a`: every alternative that can be chosen is judged
            alts = []

            def flat(e):
                if isinstance(e, ast.BoolOp):
                    for v in e.values:
                        flat(v)
                elif isinstance(e, ast.IfExp):
                    flat(e.body)
                    flat(e.orelse)
                else:
                    alts.append(e)
            flat(single_def(ctx, fi, arg) if isinstance(arg, ast.Name) else arg)
            key = f'{fi.module.name}:{fi.qualname}: {norm(x)[:60]}'
            bad = None
            for a in alts:
                if isinstance(a, (ast.Tuple, ast.List, ast.Set, ast.ListComp, ast.SetComp, ast.GeneratorExp, ast.Dict, ast.DictComp)):
                    continue
                if isinstance(a, ast.Constant) and not isinstance(a.value, str):
                    continue
                t = ctx.types.type_of(fi, a)
                if _semantic_string(t) and {q[0] for q in t} & {'Var', 'Role', 'Const', 'Atom'}:
                    bad = (a, t)
                    break
            if bad:
                rep.violation(key, fi.loc(x), f'`{norm(bad[0])}` is one {"/".join(sorted(q[0] for q in bad[1] if q[0] != "none"))} (a string), but {what} takes it apart into '
                              f'its characters: a name longer than one character is then represented by letters that are not names at all '
                              f'(a missing comma in `(x)`, extend instead of append, set(x) instead of {{x}})')
            else:
                rep.ok(key, fi.loc(x))
    rep.analysed['collection_consumers'] = n
    return rep


# ---------------------------------------------------------------------------------------------
def _local_loads(node) -> List[ast.Name]:
    """Name loads evaluated by this CFG node itself (not by nested function bodies; comprehension variables excluded)."""
    a = node.ast
    roots: List[ast.AST] = []
    if node.kind == 'cond':
        roots = [a]
    elif node.kind == 'for':
        roots = [a.iter]
    elif node.kind == 'handler':
        roots = [a.type] if a.type is not None else []
    elif node.kind == 'stmt':
        if isinstance(a, (ast.With, ast.AsyncWith)):
            roots = [it.context_expr for it in a.items]
        elif isinstance(a, (ast.FunctionDef, ast.AsyncFunctionDef, ast.ClassDef)):
            roots = list(a.decorator_list) + (list(a.args.defaults) + [d for d in a.args.kw_defaults if d is not None] if not isinstance(a, ast.ClassDef) else list(a.bases))
        else:
            roots = [a]
    out: List[ast.Name] = []

    def walk(x, bound: frozenset):
        if isinstance(x, (ast.FunctionDef, ast.AsyncFunctionDef, ast.Lambda, ast.ClassDef)):
            return
        if isinstance(x, (ast.ListComp, ast.SetComp, ast.GeneratorExp, ast.DictComp)):
            b = set(bound)
            for i, g in enumerate(x.generators):
                walk(g.iter, frozenset(b))
                b |= {n.id for n in ast.walk(g.target) if isinstance(n, ast.Name)}
                for c in g.ifs:
                    walk(c, frozenset(b))
            for part in ([x.key, x.value] if isinstance(x, ast.DictComp) else [x.elt]):
                walk(part, frozenset(b))
            return
        if isinstance(x, ast.Name):
            if isinstance(x.ctx, ast.Load) and x.id not in bound:
                out.append(x)
            return
        for c in ast.iter_child_nodes(x):
            walk(c, bound)
    for r in roots:
        if r is not None:
            walk(r, frozenset())
    return out


@rule('R81', 'no local variable can be read before it was bound (no path ends in UnboundLocalError instead of the documented result or error)')
def r81(ctx: Ctx) -> RuleReport:
    from ..cfg import assigned_names
    rep = RuleReport('R81', r81.title, floor=100)
    n_reads = 0
    for fi in ctx.repo.all_functions():
        try:
            cfg = CFG(fi.node)
        except AnalysisError:
            continue
        a = fi.node.args
        params = [x.arg for x in a.posonlyargs + a.args + a.kwonlyargs] + ([a.vararg.arg] if a.vararg else []) + ([a.kwarg.arg] if a.kwarg else [])
        declared = {nm for x in walk_local(fi.node) if isinstance(x, (ast.Global, ast.Nonlocal)) for nm in x.names}
        local = set(params)
        for nd in cfg.nodes:
            if nd.kind in ('stmt', 'for') and nd.ast is not None:
                local |= assigned_names(nd.ast)
            if nd.kind == 'handler' and nd.ast.name:
                local.add(nd.ast.name)
        for x in walk_local(fi.node):
            if isinstance(x, ast.NamedExpr) and isinstance(x.target, ast.Name):
                local.add(x.target.id)
        local -= declared

        def transfer(node, label, s):
            if label == 'exc':
                return s
            if node.kind == 'stmt' and isinstance(node.ast, ast.Expr) and isinstance(node.ast.value, ast.Call) \
                    and norm(node.ast.value.func) in ('sys.exit', 'exit', 'quit', 'os._exit', 'os.abort', 'parser.error', 'parser.exit'):
                return frozenset(local)         # the call does not return: nothing after it is read on this path
            if node.kind == 'stmt' and node.ast is not None:
                s = s | frozenset(assigned_names(node.ast))
                if isinstance(node.ast, ast.Delete):
                    s = s - frozenset(t.id for t in node.ast.targets if isinstance(t, ast.Name))
                return s
            if node.kind == 'for':
                if label == 'F' and any(isinstance(x, ast.Call) and norm(x.func) in ('count', 'itertools.count', 'cycle', 'itertools.cycle', 'repeat', 'itertools.repeat')
                                        and not (norm(x.func).endswith('repeat') and len(x.args) > 1) for x in ast.walk(node.ast.iter)) \
                        and not any(isinstance(x, ast.Call) and norm(x.func).split('.')[-1] in ('islice', 'takewhile', 'zip') for x in ast.walk(node.ast.iter)):
                    return frozenset(local)     # an endless iterator is never exhausted: the loop is only left by break / return / raise
                # lenient: the loop variable counts as bound after the loop as well (the zero-iteration case is the caller's contract)
                return s | frozenset(assigned_names(node.ast))
            if node.kind == 'handler' and node.ast.name:
                return s | frozenset([node.ast.name])
            if node.kind == 'cond':
                return s | frozenset(t.target.id for t in ast.walk(node.ast) if isinstance(t, ast.NamedExpr) and isinstance(t.target, ast.Name))
            return s
        DA = cfg.forward(frozenset(params), transfer, lambda p, q: p & q)
        reach = cfg.reachable_from([cfg.entry])
        before = len(rep.violations())
        for nd in cfg.nodes:
            if nd.ast is None or nd.id not in reach or nd.id not in DA:
                continue
            for nm in _local_loads(nd):
                if nm.id not in local:
                    continue
                n_reads += 1
                if nm.id in DA[nd.id]:
                    continue
                # AugAssign reads its own target; a statement's own NamedExpr binds before use only in evaluation order - keep simple
                key = f'{fi.module.name}:{fi.qualname}: {nm.id} is bound when `{norm(nd.ast)[:50]}` reads it'
                rep.violation(key, fi.loc(nm), f'a path from the entry of {fi.qualname} reaches this read of `{nm.id}` without passing any binding of it: '
                              f'that call ends in UnboundLocalError, which is neither a result nor the documented error')
        if len(rep.violations()) == before:
            rep.ok(f'{fi.module.name}:{fi.qualname}: every read of a local is preceded by a binding on every path', fi.loc())
    rep.analysed['local_reads'] = n_reads
    return rep


# ---------------------------------------------------------------------------------------------
@rule('R84', 'surface.alignments / role_alignments examine every marker of a triple (a triple may carry a role alignment, a target alignment and layout markers)')
def r84(ctx: Ctx) -> RuleReport:
    from ..resolve import expand, local_callees
    rep = RuleReport('R84', r84.title, floor=1)
    roots = [ctx.repo.func('penman.surface', 'alignments'), ctx.repo.func('penman.surface', 'role_alignments')]
    seen = set()
    for root in roots:
        for fi in local_callees(ctx, root, depth=2):
            if fi.fq in seen or fi.module.name != 'penman.surface':
                continue
            seen.add(fi.fq)
            pm = ctx.repo.parent_map(fi.node)
            # the per-triple marker lists: values of <g>.epidata
            outer = [n for n in walk_local(fi.node) if isinstance(n, (ast.For, ast.comprehension)) and '.epidata' in norm(n.iter)]
            for o in outer:
                tgt = o.target
                if not (isinstance(tgt, ast.Tuple) and len(tgt.elts) == 2 and norm(o.iter).endswith('.epidata.items()')):
                    rep.undecided(f'{fi.fq}: the marker lists are read with `for triple, markers in g.epidata.items()`', fi.loc(o if isinstance(o, ast.For) else fi.node), norm(o.iter))
                    continue
                tv, mv = norm(tgt.elts[0]), norm(tgt.elts[1])
                scope = o if isinstance(o, ast.For) else pm.get(id(o))
                stores = [n for n in ast.walk(scope) if isinstance(n, ast.Assign) and isinstance(n.targets[0], ast.Subscript) and norm(n.targets[0].slice) == tv]
                comps = [scope] if isinstance(scope, ast.DictComp) else []
                key = f'{fi.fq}: every marker of a triple is examined'
                fixed = [n for n in ast.walk(scope) if isinstance(n, ast.Subscript) and norm(n.value) == mv and not isinstance(n.slice, ast.Slice)]
                scans = [n for n in ast.walk(scope) if isinstance(n, (ast.For, ast.comprehension)) and norm(n.iter) == mv]
                # ... or over a helper generator that walks its first argument completely: for m in helper(markers, ...)
                for n in ast.walk(scope):
                    if isinstance(n, (ast.For, ast.comprehension)) and isinstance(n.iter, ast.Call) and n.iter.args and norm(n.iter.args[0]) == mv:
                        hs = [t.func for t in ctx.cg.resolve_call(n.iter, fi) if t.kind == 'func']
                        if len(hs) == 1 and hs[0].positional:
                            hp = hs[0].positional[0]
                            hloops = [x for x in walk_local(hs[0].node) if isinstance(x, ast.For) and norm(x.iter) == hp]
                            if len(hloops) == 1 and any(isinstance(y, ast.Yield) for y in ast.walk(hloops[0])) \
                                    and not [y for y in ast.walk(hloops[0]) if isinstance(y, (ast.Break, ast.Return))]:
                                scans.append(n)
                # ... or a helper VALUE computed by a complete walk: m = helper(markers, ...) where the helper loops over its first argument to the end
                for n in ast.walk(scope):
                    if isinstance(n, ast.Call) and n.args and norm(n.args[0]) == mv and not isinstance(pm.get(id(n)), (ast.For, ast.comprehension)):
                        hs = [t.func for t in ctx.cg.resolve_call(n, fi) if t.kind == 'func']
                        if len(hs) == 1 and hs[0].positional:
                            hp = hs[0].positional[0]
                            hloops = [x for x in walk_local(hs[0].node) if isinstance(x, ast.For) and norm(x.iter) == hp]
                            if len(hloops) == 1 and not [y for y in ast.walk(hloops[0]) if isinstance(y, (ast.Break, ast.Return))]:
                                scans.append(hloops[0])
                early = [b for sc in scans if isinstance(sc, ast.For) for b in ast.walk(sc) if isinstance(b, ast.Break)]
                if fixed and not scans:
                    rep.violation(key, fi.loc(fixed[0]), f'only `{norm(fixed[0])}` is looked at: the marker list of a triple has no fixed layout (a branch such as '
                                  f'`:polarity~e.1 -~e.2` carries a role alignment and a target alignment, then Push/POP), so an alignment at another position is not reported')
                elif scans:
                    rep.ok(key, fi.loc(scans[0] if isinstance(scans[0], ast.For) else fi.node), f'loop over {mv}' + (' (stops at the first match)' if early else ''))
                else:
                    rep.undecided(key, fi.loc(fi.node), f'no loop over {mv}')
    return rep


# ---------------------------------------------------------------------------------------------
@rule('R85', 'the default variable prefix is the first alphabetic character of the concept in the sense of str.isalpha (any script)')
def r85(ctx: Ctx) -> RuleReport:
    from ..rx import CS, Lang, MAXCP
    rep = RuleReport('R85', r85.title, floor=1)
    fi = ctx.repo.func('penman.tree', '_default_variable_prefix')
    key = f'{fi.fq}: a character counts as a letter exactly when str.isalpha() says so'
    calls = [n for n in walk_local(fi.node) if isinstance(n, ast.Call) and isinstance(n.func, ast.Attribute)]
    alpha_calls = [c for c in calls if c.func.attr == 'isalpha' and not c.args]
    other_preds = [c for c in calls if c.func.attr in ('isalnum', 'isascii', 'islower', 'isupper', 'isidentifier', 'isdigit', 'isnumeric', 'istitle') and not c.args]
    rx_calls = [c for c in calls if c.func.attr in ('search', 'match', 'fullmatch', 'findall', 'finditer')]
    if alpha_calls and not rx_calls:
        rep.ok(key, fi.loc(alpha_calls[0]), norm(alpha_calls[0]))
        if other_preds:
            rep.violation(key + f' ({norm(other_preds[0])})', fi.loc(other_preds[0]), f'`{norm(other_preds[0])}` also takes part in the choice: it differs from isalpha() on some characters, '
                          f'so some concept gets the prefix of another character than its first letter')
        return rep
    if other_preds and not rx_calls:
        rep.violation(key, fi.loc(other_preds[0]), f'the letter test is `{norm(other_preds[0])}`, which is not str.isalpha(): digits, or only ASCII / only lower-case letters, are '
                      f'(not) taken, so the prefix is not the first alphabetic character')
        return rep
    decided = False
    # filter(<predicate>, concept) with the predicate str.isalpha or operator.methodcaller('isalpha') (possibly through a module-level name)
    for c in [n for n in walk_local(fi.node) if isinstance(n, ast.Call) and norm(n.func) in ('filter', 'next', 'any', 'map') and n.args]:
        for a_ in ast.walk(c):
            pred = a_
            if isinstance(pred, ast.Name) and pred.id in fi.module.constants:
                pred = fi.module.constants[pred.id]
            mc = isinstance(pred, ast.Call) and norm(pred.func) in ('operator.methodcaller', 'methodcaller') and len(pred.args) == 1 and not pred.keywords
            if (mc and try_fold(pred.args[0]) == (True, 'isalpha')) or (isinstance(pred, ast.Attribute) and norm(pred) == 'str.isalpha'):
                if not decided and not rx_calls and not other_preds:
                    rep.ok(key, fi.loc(c), norm(pred))
                    decided = True
            elif mc and try_fold(pred.args[0])[0] and not decided:
                rep.violation(key, fi.loc(c), f'the letter test is `{norm(pred)}`, which is not str.isalpha()')
                decided = True
    if decided:
        return rep
    for c in rx_calls:
        pat = flags = None
        if isinstance(c.func.value, ast.Name) and c.func.value.id == 're' and c.args:
            okp, pat = fold_in_any(ctx, fi, c.args[0])
            flags = 0
            for k in c.keywords:
                if k.arg == 'flags':
                    okf, flags = fold_in_any(ctx, fi, k.value)
        else:
            pat, flags = _regex_of(ctx, fi, c.func.value)
        if not isinstance(pat, str):
            continue
        import re as _re
        try:
            width = _re._parser.parse(pat, int(flags or 0)).getwidth()
            crx = _re.compile(pat, int(flags or 0))
        except Exception as e:       # noqa
            rep.undecided(key, fi.loc(c), f'pattern {pat!r} does not compile: {e}')
            decided = True
            continue
        if tuple(width) != (1, 1):
            rep.undecided(key, fi.loc(c), f'pattern {pat!r} does not match exactly one character (width {width})')
            decided = True
            continue

        def as_cs(pred):
            iv, start = [], None
            for cp_ in range(MAXCP + 1):
                ok = pred(chr(cp_))
                if ok and start is None:
                    start = cp_
                elif not ok and start is not None:
                    iv.append((start, cp_ - 1)); start = None
            if start is not None:
                iv.append((start, MAXCP))
            return CS(iv)
        # the constant pattern is evaluated on every code point (constant folding of the regex, penman itself is not run)
        got = as_cs(lambda ch: crx.fullmatch(ch) is not None)
        want = as_cs(str.isalpha)
        decided = True
        if got == want:
            rep.ok(key, fi.loc(c), f'pattern {pat!r}')
        else:
            miss, extra = want - got, got - want
            w = (miss or extra).sample()
            rep.violation(key, fi.loc(c), f'the letter is found with the pattern {pat!r}, whose single characters are not the alphabetic ones: {w!r} (U+{ord(w):04X}) is '
                          + ('a letter the pattern does not accept' if miss else 'accepted but not a letter') +
                          ': a concept that begins with it gets the prefix of a later character (or "_"), so the new names are not the ones documented')
    if not decided:
        rep.undecided(key, fi.loc(), 'neither .isalpha() nor a constant pattern')
    return rep


def _regex_of(ctx, fi, e):
    """(pattern, flags) of an expression that denotes a compiled pattern: re.compile(...) inline, a local or a module-level name bound to it"""
    import re as _re
    if isinstance(e, ast.Name):
        d = single_def(ctx, fi, e)
        if d is e:
            d = fi.module.constants.get(e.id)
        e = d
    if not (isinstance(e, ast.Call) and norm(e.func) in ('re.compile', 'compile') and e.args):
        return None, None
    okp, pat = fold_in_any(ctx, fi, e.args[0])
    fl = 0
    fx = e.args[1] if len(e.args) > 1 else next((k.value for k in e.keywords if k.arg == 'flags'), None)
    if fx is not None:
        for x in ast.walk(fx):
            if isinstance(x, ast.Attribute) and hasattr(_re, x.attr) and isinstance(getattr(_re, x.attr), int):
                fl |= int(getattr(_re, x.attr))
            elif isinstance(x, ast.Constant) and isinstance(x.value, int):
                fl |= x.value
    return (pat if okp else None), fl


def fold_in_any(ctx, fi, e):
    from ..resolve import fold_in
    try:
        return fold_in(ctx, fi, e)
    except Exception:
        return False, None


# ---------------------------------------------------------------------------------------------
_CONSUMERS = {'list', 'tuple', 'set', 'frozenset', 'sorted', 'sum', 'min', 'max', 'any', 'all', 'enumerate', 'zip', 'map', 'filter',
              'reversed', 'dict', 'Counter', 'deque', 'chain', 'islice', 'tee', 'join'}


@rule('R86', 'an argument that may be a one-shot iterable (a file, a generator of lines or of graphs) is walked at most once')
def r86(ctx: Ctx) -> RuleReport:
    rep = RuleReport('R86', r86.title, floor=5)
    for fi in ctx.repo.all_functions():
        a = fi.node.args
        cands = []
        for arg in a.posonlyargs + a.args + a.kwonlyargs:
            ann = norm(arg.annotation) if arg.annotation is not None else ''
            if any(w in ann for w in ('Iterable[', 'Iterator[', 'FileOrFilename', 'IO[', 'TextIO', 'Generator[')):
                cands.append(arg.arg)
        # local one-shot iterators: x = <pattern>.finditer(..) / iter(..) / map(..) / filter(..) / zip(..) / (generator expression)
        locals_once = {}
        for n_ in walk_local(fi.node):
            if isinstance(n_, ast.Assign) and len(n_.targets) == 1 and isinstance(n_.targets[0], ast.Name):
                v_ = n_.value
                one_shot = isinstance(v_, ast.GeneratorExp) or (isinstance(v_, ast.Call) and (
                    (isinstance(v_.func, ast.Attribute) and v_.func.attr in ('finditer', 'scandir', 'iterdir', 'items_iter')) or
                    (isinstance(v_.func, ast.Name) and v_.func.id in ('iter', 'map', 'filter', 'zip', 'reversed', 'enumerate'))))
                locals_once.setdefault(n_.targets[0].id, []).append(one_shot)
        cands += [nm_ for nm_, flags_ in locals_once.items() if len(flags_) == 1 and flags_[0] and nm_ not in cands and nm_ not in fi.params]
        if not cands:
            continue
        try:
            cfg = CFG(fi.node)
        except AnalysisError:
            continue
        pm = ctx.repo.parent_map(fi.node)
        for p in cands:
            # consumption sites: CFG node -> description
            sites: Dict[int, str] = {}
            for x in walk_local(fi.node):
                if not (isinstance(x, ast.Name) and x.id == p and isinstance(x.ctx, ast.Load)):
                    continue
                par = pm.get(id(x))
                how = None
                # `p or ()` / `p if p else ()` hand the same object on
                xx = x
                while isinstance(par, (ast.BoolOp, ast.IfExp)) and not (isinstance(par, ast.IfExp) and par.test is xx):
                    xx, par = par, pm.get(id(par))
                if xx is not x:
                    x = xx
                if isinstance(par, (ast.For, ast.AsyncFor)) and par.iter is x:
                    how = f'for ... in {p}'
                elif isinstance(par, ast.comprehension) and par.iter is x:
                    how = f'comprehension over {p}'
                elif isinstance(par, ast.Call) and (x in par.args or any(k.value is x for k in par.keywords)):
                    fn = par.func
                    nm = fn.id if isinstance(fn, ast.Name) else (fn.attr if isinstance(fn, ast.Attribute) else '')
                    resolved = [t for t in ctx.cg.resolve_call(par, fi) if t.kind in ('func', 'class')]
                    if nm in _CONSUMERS or resolved:
                        how = f'{norm(fn)}({p})'
                elif isinstance(par, ast.YieldFrom):
                    how = f'yield from {p}'
                elif isinstance(par, ast.Starred):
                    how = f'*{p}'
                if how:
                    try:
                        sites[owner_node(cfg, pm, x)] = how
                    except Exception:
                        pass
            if not sites:
                continue
            key = f'{fi.module.name}:{fi.qualname}: `{p}` is walked at most once on every path'
            strfacts = {(f'isinstance({p}, str)', True), (f'isinstance({p}, (str, Path))', True), (f'isinstance({p}, (str, bytes))', True)}

            def walk_from(starts):
                """CFG nodes reachable from the given out-edges while `p` still denotes the caller's object and may be a one-shot iterable"""
                seen, stack = set(), list(starts)
                while stack:
                    n = stack.pop()
                    if n in seen:
                        continue
                    seen.add(n)
                    node = cfg.nodes[n]
                    if node.kind in ('stmt', 'for') and node.ast is not None and p in assigned_names(node.ast) and n not in sites:
                        continue                    # re-bound (e.g. to the list of lines)
                    for m, lab in cfg.succ[n]:
                        if lab == 'exc' or m == cfg.rexit:
                            continue
                        if node.kind == 'cond' and (norm(node.ast), lab == 'T') in strfacts:
                            continue                # a str can be walked any number of times
                        stack.append(m)
                return seen
            twice = None
            for nid, how in sites.items():
                node = cfg.nodes[nid]
                if node.kind == 'stmt' and node.ast is not None and p in assigned_names(node.ast):
                    continue                        # `lines = list(lines)`: later walks see the copy
                if node.kind == 'for':
                    after = walk_from([m for m, lab in cfg.succ[nid] if lab == 'F'] + [m for m, lab in cfg.succ[nid] if lab is None])
                    # breaks leave the loop as well
                    body = walk_from([m for m, lab in cfg.succ[nid] if lab == 'T'])
                    others = {x for x in sites if x != nid}
                    hit = (after | body) & others
                    if nid in after:
                        twice = (nid, how + ' (the loop itself is inside another loop)')
                        break
                else:
                    after = walk_from([m for m, lab in cfg.succ[nid]])
                    hit = after & set(sites)
                if hit:
                    h = sorted(hit)[0]
                    twice = (h, sites[h]) if h != nid else (nid, how + ' inside a loop')
                    first_how = how
                    break
            if twice:
                first = first_how if 'first_how' in dir() else twice[1]
                rep.violation(key, fi.loc(cfg.nodes[twice[0]].ast), f'`{twice[1]}` can run after `{first}` already walked `{p}`: when the caller passes a file object or a generator, '
                              f'the second walk finds it exhausted and the graphs silently disappear (a str or a list would hide this)')
            else:
                rep.ok(key, fi.loc(), ', '.join(sorted(set(sites.values()))))
    return rep


# ---------------------------------------------------------------------------------------------
def _derived_from(fn: ast.AST, param: str):
    """names of `fn` whose value is built from `param` (assignment, loop target, append/extend/update of a derived value), and the
    statements that read `param` itself to feed one of them"""
    derived, feeders = set(), []
    def reads(e, names):
        return e is not None and any(isinstance(x, ast.Name) and x.id in names for x in ast.walk(e))
    changed = True
    while changed:
        changed = False
        for st in walk_local(fn):
            new, src = set(), None
            if isinstance(st, (ast.Assign, ast.AnnAssign, ast.AugAssign)) and st.value is not None:
                tg = st.targets if isinstance(st, ast.Assign) else [st.target]
                new, src = {x.id for t in tg for x in ast.walk(t) if isinstance(x, ast.Name) and not isinstance(t, (ast.Attribute, ast.Subscript))}, st.value
            elif isinstance(st, (ast.For, ast.comprehension)):
                new, src = {x.id for x in ast.walk(st.target) if isinstance(x, ast.Name)}, st.iter
            elif isinstance(st, ast.Expr) and isinstance(st.value, ast.Call) and isinstance(st.value.func, ast.Attribute) \
                    and isinstance(st.value.func.value, ast.Name) and st.value.func.attr in ('append', 'extend', 'add', 'insert', 'update', 'setdefault'):
                new, src = {st.value.func.value.id}, ast.Tuple(elts=list(st.value.args) + [k.value for k in st.value.keywords], ctx=ast.Load())
            new.discard(param)
            if not new or src is None:
                continue
            if reads(src, {param}) and st not in feeders and isinstance(st, (ast.stmt,)):
                feeders.append(st)
            if reads(src, derived | {param}) and not new <= derived:
                derived |= new
                changed = True
    return derived, feeders


@rule('R88', 'what a constructor is given reaches the object (self.x derives from the parameter x), and metadata travels with the graph / tree through every conversion')
def r88(ctx: Ctx) -> RuleReport:
    from ..cfg import reaching_defs
    from ..resolve import expand
    rep = RuleReport('R88', r88.title, floor=8)
    # (a) constructors of Graph and Tree
    for mod, cls in (('penman.graph', 'Graph'), ('penman.tree', 'Tree'), ('penman.codec', 'PENMANCodec')):
        init = ctx.repo.cls(mod, cls).find_method('__init__')
        cfg = CFG(init.node)
        a = init.node.args
        params = [x.arg for x in a.posonlyargs + a.args + a.kwonlyargs]
        rd = reaching_defs(cfg, params)
        pm = ctx.repo.parent_map(init.node)
        for n in walk_local(init.node):
            if not (isinstance(n, ast.Assign) and isinstance(n.targets[0], ast.Attribute) and norm(n.targets[0].value) == 'self'):
                continue
            attr = n.targets[0].attr.lstrip('_')
            if attr not in params:
                continue
            key = f'{init.fq}: self.{n.targets[0].attr} derives from the parameter {attr}'
            nid = cfg.node_of(n)
            uses = [x for x in ast.walk(n.value) if isinstance(x, ast.Name) and x.id == attr]
            target_nids = [nid]
            if not uses:
                # the value may be a local that was built from the parameter (a loop appending the converted items)
                derived, feeders = _derived_from(init.node, attr)
                if any(isinstance(x, ast.Name) and x.id in derived for x in ast.walk(n.value)) and feeders:
                    target_nids = [cfg.node_of(f) for f in feeders if cfg.node_of(f) is not None]
                if target_nids == [nid] or not target_nids:
                    rep.violation(key, init.loc(n), f'`{norm(n)[:60]}` does not use the parameter `{attr}`: whatever the caller passes is ignored')
                    continue
            def carried(prune: bool) -> bool:
                """can the caller's value (possibly wrapped: x = x or [], x = dict(x)) travel from the entry to this store?"""
                seen_, stack_ = set(), [cfg.entry]
                while stack_:
                    x_ = stack_.pop()
                    if x_ in seen_:
                        continue
                    seen_.add(x_)
                    if x_ in target_nids:
                        return True
                    node_ = cfg.nodes[x_]
                    if x_ != cfg.entry and node_.kind in ('stmt', 'for') and node_.ast is not None and attr in assigned_names(node_.ast):
                        rhs = getattr(node_.ast, 'value', None)
                        if rhs is None or not any(isinstance(y, ast.Name) and y.id == attr for y in ast.walk(rhs)):
                            continue                    # replaced by something that does not come from the parameter
                    for m_, lab_ in cfg.succ[x_]:
                        if prune and node_.kind == 'cond':
                            src_ = norm(node_.ast)
                            if src_ in given and (lab_ == 'T') != given[src_]:
                                continue
                        stack_.append(m_)
                return False
            given = {f'{attr} is None': False, f'{attr} is not None': True, f'not {attr}': False, attr: True, f'{attr} == None': False}
            # the parameter is thrown away under a condition that does not say it was not given
            from ..resolve import facts_ex as _fx88
            dropped = None
            for nd_ in cfg.nodes:
                if nd_.kind == 'stmt' and isinstance(nd_.ast, ast.Assign) and len(nd_.ast.targets) == 1 and isinstance(nd_.ast.targets[0], ast.Name) and nd_.ast.targets[0].id == attr \
                        and isinstance(nd_.ast.value, ast.Constant) and nd_.ast.value.value is None and nid in cfg.reachable_from([nd_.id]):
                    fx_ = _fx88(ctx, init, nd_.ast)
                    absent = any((f in given and pol != given[f]) for f, pol in fx_)
                    if fx_ and not absent:
                        dropped = (nd_.ast, sorted(f for f, pol in fx_ if pol)[:2])
            if dropped:
                rep.violation(key, init.loc(dropped[0]), f'`{norm(dropped[0])}` discards a `{attr}` the caller DID pass (it runs under {dropped[1]}, not under "{attr} is None"): the object is built as '
                              f'if the argument had not been given - an explicit top that equals the first source becomes an implicit one, and stops being the top as soon as the '
                              f'first triple is removed')
                continue
            from_param = carried(False)
            kept = from_param and carried(True)
            if from_param and not kept:
                rep.violation(key, init.loc(n), f'when the caller passes a `{attr}`, it is replaced before `{norm(n)[:40]}` (the parameter only survives when it is None / empty): '
                              f'the object is built with the default instead of what was asked for')
            elif from_param:
                rep.ok(key, init.loc(n))
            else:
                defs = sorted(rd.get(nid, {}).get(attr, ()))
                rep.violation(key, init.loc(n), f'on every path to `{norm(n)[:50]}` the parameter `{attr}` has been overwritten '
                              f'({"; ".join(norm(cfg.nodes[d].ast)[:40] for d in defs[:2])}): the value passed by the caller never reaches the object '
                              f'(decode loses the metadata comments / the markers / the top it has just read)')
    # (b) conversions: a Graph or Tree built from a graph / tree parameter gets that parameter's metadata
    for fi in ctx.repo.all_functions():
        if fi.cls is not None and fi.cls.name in ('Graph', 'Tree'):
            continue
        holders = []
        for p in fi.positional:
            cls_ = ctx.cg.class_of(ast.Name(id=p, ctx=ast.Load()), fi, fi.module)
            if 'penman.graph:Graph' in cls_ or 'penman.tree:Tree' in cls_:
                holders.append(p)
        if not holders:
            continue
        for call, ts in ctx.cg.calls_in(fi):
            tcls = [t.cls for t in ts if t.kind == 'class' and t.cls.fq in ('penman.graph:Graph', 'penman.tree:Tree')]
            if not tcls:
                continue
            init = tcls[0].find_method('__init__')
            pos = init.positional[1:]
            md = next((k.value for k in call.keywords if k.arg == 'metadata'), None)
            if md is None and 'metadata' in pos and pos.index('metadata') < len(call.args):
                md = call.args[pos.index('metadata')]
            # only objects built from the holder's content count (Graph(new_triples, top=g.top ...), Tree(node ...) after reading g / t)
            if call.args and isinstance(call.args[0], ast.Name) and call.args[0].id in holders:
                continue                        # Tree(tree): wraps a raw node that is not a Tree yet
            if fi.qualname in ('_decode', '_iterdecode'):
                continue
            key = f'{fi.module.name}:{fi.qualname}: {norm(call)[:60]} carries the metadata of its source'
            if any(k.arg is None for k in call.keywords):
                rep.undecided(key, fi.loc(call), '**kwargs')
                continue
            if md is None:
                rep.violation(key, fi.loc(call), f'the new {tcls[0].name} is built from `{holders[0]}` without metadata=: the comment lines of the graph (# ::id, # ::snt ...) are '
                              f'dropped by this step, so they are missing from the output although the text had them')
                continue
            mdx = expand(ctx, fi, md, call)
            good = isinstance(mdx, ast.Attribute) and mdx.attr == 'metadata' and isinstance(mdx.value, ast.Name) and mdx.value.id in holders
            rep.add(key, fi.loc(call), 'ok' if good else 'undecided', norm(md))
    return rep


# ---------------------------------------------------------------------------------------------
@rule('R90', 'a branch target, which is either an atom (a string) or a nested node (a tuple), is only taken apart after the test that tells the two apart')
def r90(ctx: Ctx) -> RuleReport:
    rep = RuleReport('R90', r90.title, floor=2)
    n = 0
    for fi in ctx.repo.all_functions():
        if fi.module.name not in ('penman.layout', 'penman.tree', 'penman._format', 'penman.transform', 'penman._parse'):
            continue
        cfg = IN = pm = None
        for x in walk_local(fi.node):
            base = None
            if isinstance(x, ast.Subscript) and isinstance(x.ctx, ast.Load) and isinstance(x.value, ast.Name) and isinstance(x.slice, ast.Constant) \
                    and isinstance(x.slice.value, int):
                base = x.value
            if base is None:
                continue
            t = ctx.types.type_of(fi, base)
            kinds = {a[0] for a in t}
            if not (kinds & {'Atom', 'Var', 'Const', 'str'} and kinds & {'Node', 'tuple'}):
                continue
            # only names that are visibly the target half of a branch: `role, target = branch`, `for role, target in branches`
            is_target = False
            for y in walk_local(fi.node):
                tg = y.target if isinstance(y, (ast.For, ast.comprehension)) else (y.targets[0] if isinstance(y, ast.Assign) and len(y.targets) == 1 else None)
                if isinstance(tg, ast.Tuple) and len(tg.elts) == 2 and isinstance(tg.elts[1], ast.Name) and tg.elts[1].id == base.id:
                    is_target = True
            if not is_target:
                continue
            n += 1
            if cfg is None:
                cfg = CFG(fi.node)
                IN = cond_facts(cfg)
                pm = ctx.repo.parent_map(fi.node)
            try:
                fx = facts_at(cfg, IN, pm, x)
            except Exception:
                fx = set()
            b = base.id
            sure = {(f'is_atomic({b})', False), (f'tree.is_atomic({b})', False), (f'isinstance({b}, tuple)', True), (f'isinstance({b}, str)', False)}
            key = f'{fi.module.name}:{fi.qualname}: `{norm(x)[:40]}` is evaluated only for a nested node'
            if fx & sure:
                rep.ok(key, fi.loc(x))
            else:
                atomic = {(f'is_atomic({b})', True), (f'tree.is_atomic({b})', True), (f'isinstance({b}, str)', True)}
                if fx & atomic:
                    rep.violation(key, fi.loc(x), f'`{norm(x)[:40]}` is evaluated where `{b}` is known to be an atom: it yields one character of the string (or fails to unpack), '
                                  f'which is then used as a variable or as a branch list')
                else:
                    rep.violation(key, fi.loc(x), f'`{b}` may be an atom (a string) here - no test tells it apart from a nested node on this path - and `{norm(x)[:40]}` then yields one '
                                  f'character of the string instead of the variable of a node')
    rep.analysed['subscripts_of_atom_or_node'] = n
    return rep


# ---------------------------------------------------------------------------------------------
@rule('R89', 'the public callables keep their documented parameters: same names, same order, same default values')
def r89(ctx: Ctx) -> RuleReport:
    import json as _json
    from pathlib import Path as _Path
    rep = RuleReport('R89', r89.title, floor=40)
    spec = _json.loads((_Path(__file__).resolve().parent.parent.parent / 'spec' / 'signatures.json').read_text())['signatures']
    for fq, want in sorted(spec.items()):
        mod, qn = fq.split(':')
        private = qn.split('.')[-1].startswith('_') and not qn.endswith('__init__')
        try:
            fi = ctx.repo.func(mod, qn)
        except Exception:
            if not private:
                rep.undecided(f'{fq}: exists', 'penman/', 'documented callable not found under this name')
            continue
        a = fi.node.args
        pos = a.posonlyargs + a.args
        dfl = [None] * (len(pos) - len(a.defaults)) + list(a.defaults)
        got = [(p.arg, dv) for p, dv in zip(pos, dfl)] + [(p.arg, dv) for p, dv in zip(a.kwonlyargs, a.kw_defaults)]
        gotd = dict(got)
        key = f'{fq}: parameters and defaults as documented'
        problems = []
        names_got = [n for n, _ in got]
        names_want = [n for n, _ in want]
        # order of the documented positional parameters
        common = [n for n in names_got if n in names_want]
        if common != [n for n in names_want if n in names_got] and not private:
            problems.append(f'parameter order is {names_got}, documented {names_want}')
        for n, dsrc in want:
            if n not in gotd:
                if not private:
                    problems.append(f'parameter `{n}` is gone')
                continue
            dv = gotd[n]
            if dsrc.startswith('<required'):
                continue                        # gaining a default does not break a caller
            if dv is None:
                problems.append(f'`{n}` lost its default {dsrc}')
                continue
            okw, vw = try_fold(ast.parse(dsrc, mode='eval').body, {}, ctx.repo, fi.module)
            okg, vg = try_fold(dv, {}, ctx.repo, fi.module)
            same = (okw and okg and vw == vg and type(vw) is type(vg)) or norm(dv) == dsrc
            if not same and okw and okg:
                if _default_only_compared(ctx, fi, n):
                    rep.add(f'{fq}: default of `{n}`', fi.loc(), 'info', f'default of `{n}` is {norm(dv)}, documented {dsrc}; the value is stored on the object and '
                            f'only ever read by __eq__/__repr__/__hash__, so no result of a call depends on it')
                    continue
                problems.append(f'default of `{n}` is {norm(dv)}, documented {dsrc}')
            elif not same:
                problems.append(None)
        for n, dv in got:
            if n not in names_want and dv is None and n not in ('self', 'cls') and not private:
                problems.append(f'new required parameter `{n}`')
        real = [p_ for p_ in problems if p_]
        if real:
            rep.violation(key, fi.loc(), '; '.join(real) + ': every caller that relies on the documented call (the command-line tool and the codec included) now gets different behaviour')
        elif problems:
            rep.undecided(key, fi.loc(), 'a default is written as an expression that does not fold to a constant')
        else:
            rep.ok(key, fi.loc())
    return rep


def _default_only_compared(ctx, fi, param: str) -> bool:
    """The constructor parameter is stored unchanged in exactly one attribute, and that attribute is read nowhere in the package except in
    __eq__ / __ne__ / __repr__ / __str__ / __hash__ of the class (closed world: any `.attr` load anywhere else counts as a use)."""
    if fi.cls is None or fi.name != '__init__':
        return False
    stores = [n for n in walk_local(fi.node) if isinstance(n, ast.Assign) and isinstance(n.value, ast.Name) and n.value.id == param]
    uses = [n for n in walk_local(fi.node) if isinstance(n, ast.Name) and n.id == param and isinstance(n.ctx, ast.Load)]
    if len(stores) != 1 or len(uses) != 1:
        return False
    t = stores[0].targets[0]
    if not (len(stores[0].targets) == 1 and isinstance(t, ast.Attribute) and norm(t.value) == 'self'):
        return False
    attr = t.attr
    for f in ctx.repo.all_functions():
        for n in walk_local(f.node):
            if isinstance(n, ast.Attribute) and n.attr == attr and isinstance(n.ctx, ast.Load):
                if f.cls is fi.cls and f.name in ('__eq__', '__ne__', '__repr__', '__str__', '__hash__'):
                    continue
                return False
            if isinstance(n, ast.Call) and norm(n.func) == 'vars' or isinstance(n, ast.Attribute) and n.attr == '__dict__':
                return False
            if isinstance(n, ast.Call) and norm(n.func) == 'getattr' and len(n.args) >= 2 \
                    and not isinstance(n.args[1], (ast.Name, ast.Constant, ast.Subscript)):
                return False                            # a computed attribute name
    # getattr(obj, name) with a name taken from a table: the attribute's name would have to be a string constant somewhere
    for m in ctx.repo.modules.values():
        if any(isinstance(n, ast.Constant) and n.value == attr for n in ast.walk(m.tree)):
            return False
    for m in ctx.repo.modules.values():
        for n in ast.walk(m.tree):
            if isinstance(n, ast.Attribute) and n.attr == attr and isinstance(n.ctx, ast.Load):
                # module-level code outside any function
                if not any(getattr(f.node, 'lineno', -1) <= n.lineno <= getattr(f.node, 'end_lineno', -1) for f in m.all_funcs):
                    return False
    return True


# ---------------------------------------------------------------------------------------------
@rule('R96', 'a callable annotated with a non-optional result type returns a value on every normal exit (never None by falling off the end or by `return None`)')
def r96(ctx: Ctx) -> RuleReport:
    rep = RuleReport('R96', r96.title, floor=40)
    # helpers that are only reachable from __repr__ / __str__
    callers: Dict[str, Set[str]] = {}
    for f in ctx.repo.all_functions():
        for c in ctx.cg.callees(f):
            callers.setdefault(c.fq, set()).add(f.fq)
    # greatest fixed point (mutual recursion between such helpers is common): start from every private function that has callers,
    # remove those with a caller that is neither a display method nor itself still in the set
    display_only: Set[str] = {f.fq for f in ctx.repo.all_functions() if f.name.startswith('_') and not f.name.startswith('__')}
    changed_ = True
    while changed_:
        changed_ = False
        for fq_ in sorted(display_only):
            cs = callers.get(fq_, set()) - {fq_}
            if not all(c in display_only or c.rsplit('.', 1)[-1] in ('__repr__', '__str__') for c in cs):
                display_only.discard(fq_)
                changed_ = True
    # ... and that are in fact reached from a display method
    reach_: Set[str] = set()
    stack_ = [f for f in ctx.repo.all_functions() if f.name in ('__repr__', '__str__')]
    while stack_:
        f = stack_.pop()
        for c in ctx.cg.callees(f):
            if c.fq not in reach_:
                reach_.add(c.fq)
                stack_.append(c)
    display_only &= reach_
    # type aliases that admit None (penman.types: Constant = Union[str, float, int, None] ...)
    nullable = set()
    for m_ in ctx.repo.modules.values():
        for nm_, val_ in m_.constants.items():
            if isinstance(val_, ast.AST) and ('None' in norm(val_) or 'Optional' in norm(val_)) and ('Union' in norm(val_) or 'Optional' in norm(val_)):
                nullable.add(nm_)
    grew = True
    while grew:
        grew = False
        for m_ in ctx.repo.modules.values():
            for nm_, val_ in m_.constants.items():
                if nm_ not in nullable and isinstance(val_, ast.AST) and isinstance(val_, (ast.Name, ast.Subscript)) \
                        and any(isinstance(x, ast.Name) and x.id in nullable for x in ast.walk(val_)) and norm(val_).startswith(('Union', 'Optional')) or \
                        (nm_ not in nullable and isinstance(val_, ast.Name) and val_.id in nullable):
                    nullable.add(nm_)
                    grew = True
    for fi in ctx.repo.all_functions():
        ann = fi.node.returns
        if ann is None:
            continue
        a = norm(ann)
        if isinstance(ann, ast.Name) and ann.id in nullable:
            continue
        if isinstance(ann, ast.Subscript) and norm(ann.value) == 'Union' and any(isinstance(x, ast.Name) and x.id in nullable for x in ast.walk(ann.slice)):
            continue
        if a in ('None', "'None'") or 'Optional' in a or 'None' in a or a.startswith('Iterator') or a.startswith('Generator') or a in ('Any', 'NoReturn', 'typing.Any'):
            continue
        if any(isinstance(n, (ast.Yield, ast.YieldFrom)) for n in walk_local(fi.node)):
            continue
        if fi.name in ('__repr__', '__str__') or fi.fq in display_only:
            continue                            # how an object prints itself is outside every property
        if fi.node.body and all(isinstance(s, (ast.Expr, ast.Pass)) or (isinstance(s, ast.Raise)) for s in fi.node.body):
            continue                            # abstract / stub
        try:
            cfg = CFG(fi.node)
        except AnalysisError:
            continue
        key = f'{fi.module.name}:{fi.qualname}: every normal exit returns a {a[:30]}'
        bad = None
        for n, lab in cfg.pred.get(cfg.exit, []) if hasattr(cfg, 'pred') else []:
            pass
        preds = [n for n in range(len(cfg.nodes)) if any(m == cfg.exit for m, _ in cfg.succ[n])]
        reach = cfg.reachable_from([cfg.entry])
        for n in preds:
            if n not in reach:
                continue
            nd = cfg.nodes[n]
            if nd.kind == 'stmt' and isinstance(nd.ast, ast.Return):
                v = nd.ast.value
                if v is None or (isinstance(v, ast.Constant) and v.value is None):
                    bad = (nd.ast, f'`{norm(nd.ast)}`')
                    break
            else:
                # falls off the end (unless the last statement never returns: sys.exit and friends)
                if nd.kind == 'stmt' and isinstance(nd.ast, ast.Expr) and isinstance(nd.ast.value, ast.Call) and norm(nd.ast.value.func) in ('sys.exit', 'exit', 'quit', 'os._exit'):
                    continue
                bad = (nd.ast if nd.ast is not None else fi.node, 'the end of the function is reached without a return')
                break
        if bad:
            rep.violation(key, fi.loc(bad[0]), f'{bad[1]}: the caller, who is promised a {a[:40]}, receives None (printed as "None", iterated, or indexed further on)')
        else:
            rep.ok(key, fi.loc())
    return rep


# ---------------------------------------------------------------------------------------------
@rule('R101', 'a role is only compared with roles, and a variable / constant only with variables / constants (E3 types of the two sides of ==, != and in)')
def r101(ctx: Ctx) -> RuleReport:
    rep = RuleReport('R101', r101.title, floor=20)
    ROLE = {'Role'}
    NODEISH = {'Var', 'Const', 'Atom'}
    n_cmp = 0
    for fi in ctx.repo.all_functions():
        for x in walk_local(fi.node):
            if not (isinstance(x, ast.Compare) and len(x.ops) == 1 and isinstance(x.ops[0], (ast.Eq, ast.NotEq))):
                continue
            def kinds(e):
                okc, val = try_fold(e, {}, ctx.repo, fi.module)
                if okc and isinstance(val, str) and (val.startswith(':') or val == '/') and len(val) > 1 or (okc and val == '/'):
                    return {'Role'}                     # CONCEPT_ROLE, ':instance', '/' ...
                if isinstance(e, ast.Attribute) and e.attr in ('top_role', 'concept_role'):
                    return {'Role'}
                return {a[0] for a in ctx.types.type_of(fi, e)} - {'none'}
            lt, rt = kinds(x.left), kinds(x.comparators[0])
            if not lt or not rt or 'any' in lt or 'any' in rt:
                continue
            n_cmp += 1
            key = f'{fi.module.name}:{fi.qualname}: `{norm(x)[:50]}` compares like with like'
            CONT = {'list', 'tuple', 'set', 'dict', 'Node', 'Branch', 'Triple', 'iter'}
            TEXT = {'Var', 'Const', 'Atom', 'Role', 'str'}
            if (lt <= CONT and rt <= TEXT) or (rt <= CONT and lt <= TEXT):
                rep.violation(key, fi.loc(x), f'`{norm(x.left)}` is a {"/".join(sorted(lt))} and `{norm(x.comparators[0])}` a {"/".join(sorted(rt))}: a container is never equal to a string, '
                              f'so the comparison has a fixed outcome - the wrong element (e.g. the branch list of a node instead of its variable) is being compared')
            elif (lt <= ROLE and rt <= NODEISH) or (rt <= ROLE and lt <= NODEISH):
                rep.violation(key, fi.loc(x), f'one side is a role ({norm(x.left) if lt <= ROLE else norm(x.comparators[0])}), the other a '
                              f'{"/".join(sorted((rt if lt <= ROLE else lt)))} ({norm(x.comparators[0]) if lt <= ROLE else norm(x.left)}): a role always starts with ":" and a variable or constant '
                              f'never does, so the comparison has a fixed outcome - the wrong slot of the triple is being looked at')
            else:
                rep.ok(key, fi.loc(x))
    rep.analysed['typed_comparisons'] = n_cmp
    return rep


# ---------------------------------------------------------------------------------------------
@rule('R100', 'relabelling looks a name up in the map only when it is known to be there, and takes the concept of a node from its "/" branch')
def r100(ctx: Ctx) -> RuleReport:
    from ..resolve import facts_ex
    rep = RuleReport('R100', r100.title, floor=2)
    from .lexical import map_vars_func
    mv = map_vars_func(ctx)
    mp = mv.positional[1] if len(mv.positional) > 1 else 'varmap'
    node_vars = set()
    for n in walk_local(mv.node):
        if isinstance(n, ast.Assign) and isinstance(n.targets[0], ast.Tuple) and len(n.targets[0].elts) == 2 and norm(n.value) == mv.positional[0]:
            node_vars.add(norm(n.targets[0].elts[0]))
    for x in walk_local(mv.node):
        if isinstance(x, ast.Subscript) and isinstance(x.ctx, ast.Load) and norm(x.value) == mp:
            k = norm(x.slice)
            key = f'{mv.fq}: `{norm(x)}` is evaluated only for a name that is in the map'
            if k in node_vars:
                rep.ok(key, mv.loc(x), 'the variable of the node itself (every node variable is mapped: R52)')
                continue
            fx = facts_ex(ctx, mv, x)
            if (f'{k} in {mp}', True) in fx or (f'{k} not in {mp}', False) in fx:
                rep.ok(key, mv.loc(x), f'guarded by `{k} in {mp}`')
            else:
                rep.violation(key, mv.loc(x), f'`{k}` is the text of any atomic branch target - a constant, a string, a number - and only variables are keys of `{mp}`: '
                              f'KeyError for the first constant, although constants must be left as they are')
    rv = ctx.repo.func('penman.tree', 'Tree.reset_variables')
    from ..resolve import local_callees as _lc
    scope_fs = _lc(ctx, rv, depth=1)
    gens = [n for f_ in scope_fs for n in walk_local(f_.node) if isinstance(n, (ast.GeneratorExp, ast.ListComp)) and len(n.generators) == 1
            and isinstance(n.generators[0].target, ast.Tuple)
            and len(n.generators[0].target.elts) == 2 and norm(n.elt) == norm(n.generators[0].target.elts[1])]
    key = f'{rv.fq}: the concept that names a node is the target of its "/" branch'
    if not gens:
        # loop form: for role, tgt in branches: if role == '/': concept = tgt; break
        loopform = False
        for f_, lp in [(f_, n) for f_ in scope_fs for n in walk_local(f_.node) if isinstance(n, ast.For) and isinstance(n.target, ast.Tuple) and len(n.target.elts) == 2]:
            r_ = norm(lp.target.elts[0])
            t_ = norm(lp.target.elts[1])
            for a_ in ast.walk(lp):
                if isinstance(a_, (ast.Assign, ast.Return)) and a_.value is not None and norm(a_.value) == t_:
                    fx_ = {(f.replace(' ', ''), pol) for f, pol in facts_ex(ctx, f_, a_)}
                    if (f"{r_}=='/'", True) in fx_ or (f'{r_}==CONCEPT_ROLE', True) in fx_:
                        loopform = True
                        rep.ok(key, rv.loc(a_), 'loop form')
        if not loopform:
            rep.undecided(key, rv.loc(), 'no `(target for role, target in branches if role == "/")`')
    for g in gens:
        r_ = norm(g.generators[0].target.elts[0])
        conds = [c for c in g.generators[0].ifs if not (isinstance(c, ast.Constant) and c.value is True)]
        srcs = {norm(c).replace(' ', '') for c in conds}
        if srcs & {f"{r_}=='/'", f"'/'=={r_}", f'{r_}==CONCEPT_ROLE'}:
            rep.ok(key, rv.loc(g))
        elif not conds:
            rep.violation(key, rv.loc(g), 'the target of the FIRST branch is taken whatever its role: for a node without a concept, e.g. (b :ARG0 c), the prefix comes from "c" instead of being "_"')
        else:
            # a predicate helper on the role: what else than "/" does it accept?
            wider = None
            for c in conds:
                for x in ast.walk(c):
                    if isinstance(x, ast.Call) and isinstance(x.func, ast.Name) and x.func.id in rv.module.functions and x.args and norm(x.args[0]) == r_:
                        h_ = rv.module.functions[x.func.id]
                        rets_ = [y for y in walk_local(h_.node) if isinstance(y, ast.Return) and y.value is not None]
                        if len(rets_) == 1 and h_.positional:
                            hp_ = h_.positional[0]
                            alts_ = rets_[0].value.values if isinstance(rets_[0].value, ast.BoolOp) and isinstance(rets_[0].value.op, ast.Or) else [rets_[0].value]
                            srcs_ = [norm(a_).replace(' ', '') for a_ in alts_]
                            if f"{hp_}=='/'" in srcs_ and len(srcs_) > 1:
                                extra_ = [a_ for a_, s_ in zip(alts_, srcs_) if s_ != f"{hp_}=='/'"]
                                if any(isinstance(y, ast.Call) and isinstance(y.func, ast.Attribute) and y.func.attr in ('startswith', 'endswith') for e_ in extra_ for y in ast.walk(e_)) \
                                        or any(isinstance(e_, ast.Compare) for e_ in extra_):
                                    wider = (h_, extra_[0])
            if wider:
                h_, e_ = wider
                rep.violation(key, rv.loc(g), f'the concept branch is recognised with {h_.qualname}, which is also true when `{norm(e_)}`: in a tree the concept branch is "/" and nothing else - a '
                              f'role that merely begins like the concept role (":instance-of" is an ordinary inverted role whose target is a VARIABLE) is then treated as the concept, so '
                              f'the reference under it is not renamed with its node and the relabelled tree is no longer the same graph')
            else:
                rep.undecided(key, rv.loc(g), sorted(srcs)[0][:50])
    return rep


# ---------------------------------------------------------------------------------------------
@rule('R96b', 'a function whose result the callers use does return one (not None from every exit)')
def r96b(ctx: Ctx) -> RuleReport:
    rep = RuleReport('R96b', r96b.title, floor=30)
    pmaps: Dict[str, dict] = {}
    # what is only reachable from __repr__ / __str__ is outside every property (see R96)
    disp: Set[str] = set()
    stk = [f for f in ctx.repo.all_functions() if f.name in ('__repr__', '__str__')]
    while stk:
        f_ = stk.pop()
        for c_ in ctx.cg.callees(f_):
            if c_.fq not in disp:
                disp.add(c_.fq)
                stk.append(c_)
    other_callers: Set[str] = set()
    for f_ in ctx.repo.all_functions():
        if f_.fq in disp or f_.name in ('__repr__', '__str__'):
            continue
        for c_ in ctx.cg.callees(f_):
            other_callers.add(c_.fq)
    disp -= other_callers
    for callee in ctx.repo.all_functions():
        if callee.fq in disp:
            continue
        if callee.name in ('__init__', '__repr__', '__str__') or any(isinstance(n, (ast.Yield, ast.YieldFrom)) for n in walk_local(callee.node)):
            continue
        rets = [n for n in walk_local(callee.node) if isinstance(n, ast.Return)]
        valued = [r for r in rets if r.value is not None and not (isinstance(r.value, ast.Constant) and r.value.value is None)]
        if valued:
            continue
        body = [s_ for s_ in callee.node.body if not (isinstance(s_, ast.Expr) and isinstance(s_.value, ast.Constant))]
        if not body or all(isinstance(s_, (ast.Pass, ast.Raise)) for s_ in body):
            continue
        # callers that use the result as a value
        used_at = None
        for f in ctx.repo.all_functions():
            for call, ts in ctx.cg.calls_in(f):
                if not any(t.kind == 'func' and t.func is callee for t in ts) or len([t for t in ts if t.kind == 'func']) != 1:
                    continue
                pm = pmaps.setdefault(f.fq, ctx.repo.parent_map(f.node))
                par = pm.get(id(call))
                if isinstance(par, ast.Expr):
                    continue                            # called for its effect
                if isinstance(par, ast.Return) and f is callee:
                    continue
                used_at = (f, call, par)
                break
            if used_at:
                break
        key = f'{callee.module.name}:{callee.qualname}: returns what its callers use'
        if used_at:
            f, call, par = used_at
            rep.violation(key, callee.loc(), f'no exit of {callee.qualname} returns a value, but {f.qualname} uses the result (`{norm(par)[:60]}`): the caller works with None '
                          f'(TypeError / AttributeError further on, or "None" in the output)')
        else:
            rep.ok(key, callee.loc(), 'result not used')
    # the functions that do return a value on some exit are covered by R96 when annotated; count them as analysed
    n = len([f for f in ctx.repo.all_functions()])
    rep.analysed['functions'] = n
    for f in ctx.repo.all_functions():
        if any(isinstance(x, ast.Return) and x.value is not None for x in walk_local(f.node)):
            rep.ok(f'{f.module.name}:{f.qualname}: has a valued return', f.loc())
    return rep


# ---------------------------------------------------------------------------------------------
@rule('R104', 'a value derived from the current element of a loop does not survive into the next iteration through a variable that is only set on some paths')
def r104(ctx: Ctx) -> RuleReport:
    from ..cfg import reaching_defs
    rep = RuleReport('R104', r104.title, floor=20)
    n_loops = 0
    for fi in ctx.repo.all_functions():
        loops = [n for n in walk_local(fi.node) if isinstance(n, (ast.For, ast.While))]
        if not loops:
            continue
        try:
            cfg = CFG(fi.node)
        except AnalysisError:
            continue
        a = fi.node.args
        params = [x.arg for x in a.posonlyargs + a.args + a.kwonlyargs]
        rd = None
        for loop in loops:
            n_loops += 1
            head = cfg.node_of(loop)
            if isinstance(loop, ast.For):
                elem = {x.id for x in ast.walk(loop.target) if isinstance(x, ast.Name)}
            else:
                # a while loop has no element variable: what every iteration binds unconditionally at the top level of its body plays that part
                elem = set()
                for st_ in loop.body:
                    if isinstance(st_, ast.Assign) and isinstance(st_.value, (ast.Call, ast.Subscript, ast.Attribute)):
                        for t_ in st_.targets:
                            elem |= {x.id for x in ast.walk(t_) if isinstance(x, ast.Name)}
                if not elem:
                    continue
            body_nodes = {cfg.stmt_node[id(x)] for x in ast.walk(loop) if id(x) in cfg.stmt_node} - {head}
            # element-derived names: assigned (anywhere in the body) from an expression that mentions the loop element or another derived name
            derived = set(elem)
            grew = True
            while grew:
                grew = False
                for n in ast.walk(loop):
                    tg = val = None
                    if isinstance(n, ast.Assign) and len(n.targets) == 1:
                        tg, val = n.targets[0], n.value
                    elif isinstance(n, ast.For) and n is not loop:
                        tg, val = n.target, n.iter
                    if tg is None:
                        continue
                    if any(isinstance(x, ast.Name) and x.id in derived for x in ast.walk(val)):
                        for x in ast.walk(tg):
                            if isinstance(x, ast.Name) and x.id not in derived:
                                derived.add(x.id)
                                grew = True
            key_loop = f'{fi.module.name}:{fi.qualname}: loop over {norm(loop.iter if isinstance(loop, ast.For) else loop.test)[:40]} carries no element-derived value into the next iteration'
            found = None
            for v in sorted(derived - elem):
                defs_in = [n for n in ast.walk(loop) if isinstance(n, ast.Assign) and len(n.targets) == 1 and any(isinstance(x, ast.Name) and x.id == v for x in ast.walk(n.targets[0]))]
                if not defs_in:
                    continue
                # accumulators refer to their own old value, flags are set to constants: both are carried on purpose
                if all(any(isinstance(x, ast.Name) and x.id == v for x in ast.walk(d.value)) for d in defs_in):
                    continue
                if any(isinstance(n, ast.AugAssign) and isinstance(n.target, ast.Name) and n.target.id == v for n in ast.walk(loop)):
                    continue
                if all(isinstance(d.value, ast.Constant) for d in defs_in):
                    continue
                if all(isinstance(d.value, ast.Constant) or any(isinstance(x, ast.Name) and x.id == v for x in ast.walk(d.value)) for d in defs_in):
                    continue                    # a flag: set to constants here, combined with its own old value there (x = x and y  is  x &= y)
                data_defs = [d for d in defs_in if any(isinstance(x, ast.Name) and x.id in derived for x in ast.walk(d.value))]
                if not data_defs:
                    continue
                if rd is None:
                    rd = reaching_defs(cfg, params)
                dn = {cfg.node_of(d) for d in defs_in if id(d) in cfg.stmt_node}
                data_dn = {cfg.node_of(d) for d in data_defs if id(d) in cfg.stmt_node}
                # a use inside the loop that is reached (a) by a data definition of an earlier iteration, i.e. along a path through the loop head
                for u in ast.walk(loop):
                    if not (isinstance(u, ast.Name) and u.id == v and isinstance(u.ctx, ast.Load)):
                        continue
                    try:
                        un = owner_node(cfg, ctx.repo.parent_map(fi.node), u)
                    except Exception:
                        continue
                    if un not in body_nodes and un != head:
                        continue
                    reach = rd.get(un, {}).get(v, frozenset())
                    if not (reach & data_dn):
                        continue
                    # is there a path head -> use that passes no definition of v (this iteration leaves it alone)?
                    starts = [(head, 'T')] if isinstance(loop, ast.For) else [(head, None)]
                    # a `for ... in count()` is only left by break: its exhaustion edge does not exist, so its body (which binds v) cannot be skipped
                    endless_bodies = set()
                    for lp2 in ast.walk(loop):
                        if isinstance(lp2, ast.For) and lp2 is not loop and any(isinstance(x, ast.Call) and norm(x.func) in ('count', 'itertools.count', 'cycle', 'itertools.cycle') for x in ast.walk(lp2.iter)) \
                                and any(isinstance(d2, ast.Assign) and any(isinstance(x, ast.Name) and x.id == v for x in ast.walk(d2.targets[0])) for d2 in lp2.body if isinstance(d2, ast.Assign)):
                            endless_bodies.add(cfg.node_of(lp2))
                    # (paths stay inside the loop: leaving it and coming back through an enclosing loop is a new run of this loop, not a next iteration)
                    inside = body_nodes | {head} | {nd_.id for nd_ in cfg.nodes if nd_.kind == 'cond' and nd_.ast is not None and any(nd_.ast is x for x in ast.walk(loop))}
                    stale = cfg.path_avoiding(starts, {un}, lambda nd: nd.id in dn or nd.id == head or nd.id in endless_bodies or nd.id not in inside)
                    # ... and some complete iteration leaves v alone (otherwise v is ordinary loop state that every continuing iteration renews)
                    if stale is not None:
                        full = cfg.path_avoiding(starts, {head}, lambda nd: nd.id in dn or nd.id in endless_bodies or nd.id not in inside)
                        if full is None:
                            stale = None
                    if stale is not None:
                        found = (v, u, data_defs[0])
                        break
                if found:
                    break
            if found:
                v, u, d = found
                rep.violation(key_loop, fi.loc(u), f'`{v}` is set from the current element by `{norm(d)[:50]}` only on some paths through the loop body, and `{norm(u)}` at line {u.lineno} can be reached '
                              f'in a later iteration without `{v}` having been set again: that iteration silently uses the value that belonged to an earlier element')
            else:
                rep.ok(key_loop, fi.loc(loop))
    rep.analysed['loops'] = n_loops
    return rep


# ---------------------------------------------------------------------------------------------
@rule('R106', 'a stream that the caller handed in is neither closed nor read in pieces of a fixed size')
def r106(ctx: Ctx) -> RuleReport:
    from ..cfg import reaching_defs
    rep = RuleReport('R106', r106.title, floor=3)
    for fi in ctx.repo.all_functions():
        a = fi.node.args
        streams = [x.arg for x in a.posonlyargs + a.args + a.kwonlyargs
                   if x.annotation is not None and any(w in norm(x.annotation) for w in ('FileOrFilename', 'IO[', 'TextIO', 'Iterable[str]', 'Iterable[', 'Iterator['))
                   or x.arg in ('fh', 'file', 'source', 'lines', 'f')]
        if not streams:
            continue
        try:
            cfg = CFG(fi.node)
        except AnalysisError:
            continue
        rd = reaching_defs(cfg, fi.params)
        pm = ctx.repo.parent_map(fi.node)
        # aliases: x = <param> (plain copy)
        alias_defs = {}
        for n in walk_local(fi.node):
            if isinstance(n, ast.Assign) and isinstance(n.targets[0], ast.Name) and isinstance(n.value, ast.Name) and n.value.id in streams:
                alias_defs[cfg.node_of(n)] = (n.targets[0].id, n.value.id)

        def may_be_param(name_node) -> Optional[str]:
            if name_node.id in streams:
                try:
                    un = owner_node(cfg, pm, name_node)
                except Exception:
                    return None
                if cfg.entry in rd.get(un, {}).get(name_node.id, frozenset()):
                    return name_node.id
            try:
                un = owner_node(cfg, pm, name_node)
            except Exception:
                return None
            for d in rd.get(un, {}).get(name_node.id, frozenset()):
                if d in alias_defs and alias_defs[d][0] == name_node.id:
                    return alias_defs[d][1]
            return None
        key = f'{fi.module.name}:{fi.qualname}: the stream(s) {streams} are left open and read line by line'
        bad = None
        for n in walk_local(fi.node):
            if isinstance(n, (ast.With, ast.AsyncWith)):
                for it in n.items:
                    if isinstance(it.context_expr, ast.Name):
                        p_ = may_be_param(it.context_expr)
                        if p_:
                            bad = (n, f'`with {it.context_expr.id}:` closes `{p_}` on exit - a stream that belongs to the caller (an open file, a StringIO whose getvalue() is read afterwards, sys.stdout)')
            if isinstance(n, ast.Call) and isinstance(n.func, ast.Attribute) and isinstance(n.func.value, ast.Name):
                p_ = may_be_param(n.func.value)
                if p_ and n.func.attr == 'close':
                    bad = (n, f'`{norm(n)}` closes `{p_}`, a stream that belongs to the caller')
                if p_ and n.func.attr in ('readline', 'read', 'readlines') and (n.args or n.keywords):
                    bad = (n, f'`{norm(n)[:50]}` reads `{p_}` in pieces of a fixed size: a line longer than that is handed to the lexer in two parts, so a token or a comment is cut in the middle')
            if isinstance(n, ast.Attribute) and n.attr in ('readline', 'read') and isinstance(n.value, ast.Name) and isinstance(pm.get(id(n)), ast.Call) \
                    and pm.get(id(n)).func is not n and norm(pm.get(id(n)).func) in ('partial', 'functools.partial') and len(pm.get(id(n)).args) > 1:
                p_ = may_be_param(n.value)
                if p_:
                    bad = (n, f'`{norm(pm.get(id(n)))[:60]}` reads `{p_}` in pieces of a fixed size: a line longer than that is handed to the lexer in two parts')
        if bad:
            rep.violation(key, fi.loc(bad[0]), bad[1])
        else:
            rep.ok(key, fi.loc())
    return rep


# ---------------------------------------------------------------------------------------------
@rule('R107', 'evaluate reports "unbalanced quotes" exactly when one end of the atom is a double quote and the other is not')
def r107(ctx: Ctx) -> RuleReport:
    from ..resolve import expand
    rep = RuleReport('R107', r107.title, floor=1)
    fi = ctx.repo.func('penman.constant', 'evaluate')
    p = fi.positional[0]
    from ..resolve import local_callees as _lc3
    for f_ in _lc3(ctx, fi, depth=2):
        if any(isinstance(n, ast.Raise) and n.exc is not None and 'unbalanced' in norm(n.exc).lower() for n in walk_local(f_.node)):
            fi = f_
            p = f_.positional[0] if f_.positional else p
            break
    raises = [n for n in walk_local(fi.node) if isinstance(n, ast.Raise) and n.exc is not None and 'unbalanced' in norm(n.exc).lower()]
    pm = ctx.repo.parent_map(fi.node)
    if not raises:
        rep.undecided(f'{fi.fq}: an atom with a quote at one end only is rejected', fi.loc(), 'no raise mentioning unbalanced quotes')
        return rep
    for r in raises:
        par = pm.get(id(r))
        key = f'{fi.fq}: `{norm(r)[:50]}` is raised exactly when the two ends differ in being a double quote'
        if not isinstance(par, ast.If) or r not in par.body:
            rep.undecided(key, fi.loc(r), 'the raise is not the body of an if')
            continue
        test = expand(ctx, fi, par.test, par, pure_only=False)

        class X(ast.NodeTransformer):
            def visit_BinOp(self, n):
                self.generic_visit(n)
                if isinstance(n.op, ast.BitXor):
                    a_, b_ = n.left, n.right
                    return ast.BoolOp(op=ast.Or(), values=[ast.BoolOp(op=ast.And(), values=[a_, ast.UnaryOp(op=ast.Not(), operand=b_)]),
                                                           ast.BoolOp(op=ast.And(), values=[ast.UnaryOp(op=ast.Not(), operand=a_), b_])])
                return n

            def visit_Compare(self, n):
                self.generic_visit(n)
                if len(n.ops) == 1 and isinstance(n.ops[0], (ast.NotEq, ast.IsNot)) and all(isinstance(x, ast.Call) for x in (n.left, n.comparators[0])):
                    return X().visit(ast.BinOp(left=n.left, op=ast.BitXor(), right=n.comparators[0]))
                return n
        import copy as _cp
        test = ast.fix_missing_locations(X().visit(_cp.deepcopy(test)))
        ab = bn.Abstractor({})
        try:
            f_got = ab.formula(test)
            A, B = f"{p}.startswith('\"')", f"{p}.endswith('\"')"
            fa, fb = ab.formula(ast.parse(A, mode='eval').body), ab.formula(ast.parse(B, mode='eval').body)
            names: List[str] = []
            bn.atoms_of(f_got, names)
            base: List[str] = []
            bn.atoms_of(fa, base)
            bn.atoms_of(fb, base)
        except Exception as e:       # noqa
            rep.undecided(key, fi.loc(r), f'condition not propositional: {e}')
            continue
        extra = [a_ for a_ in names if a_ not in base]
        if extra:
            rep.violation(key, fi.loc(par), f'the test also depends on `{extra[0]}`: for some atom with a quote at both ends (for instance one whose last character before the closing quote is a backslash, '
                          f'as quote() writes for a string ending in a backslash) the string is rejected as unbalanced, or an unbalanced one is accepted')
            continue
        want = bn.mk_or([bn.mk_and([fa, bn.mk_not(fb)]), bn.mk_and([bn.mk_not(fa), fb])])
        wit = bn.equivalent(f_got, want)
        rep.add(key, fi.loc(par), 'ok' if wit is None else 'violation', '' if wit is None else f'the condition differs from (starts with a quote) xor (ends with a quote) for {wit}')
    return rep


# ---------------------------------------------------------------------------------------------
@rule('R109', 'every name a function reads is bound somewhere: as a local, in an enclosing function, at module level, or as a builtin (no path ends in NameError)')
def r109(ctx: Ctx) -> RuleReport:
    import builtins as _b
    import symtable as _st
    rep = RuleReport('R109', r109.title, floor=100)
    allowed = set(dir(_b)) | {'__name__', '__file__', '__doc__', '__package__', '__spec__', '__loader__', '__builtins__', '__path__', '__class__',
                              '__qualname__', '__module__', '__annotations__', '__debug__', '__dict__'}
    n = 0
    # functions that only serve the display methods (greatest fixed point over the callers, as in R96)
    callers_: Dict[str, Set[str]] = {}
    for f in ctx.repo.all_functions():
        for c in ctx.cg.callees(f):
            callers_.setdefault(c.fq, set()).add(f.fq)
    disp = {f.fq for f in ctx.repo.all_functions() if f.name.startswith('_') and not f.name.startswith('__') and callers_.get(f.fq)}
    ch_ = True
    while ch_:
        ch_ = False
        for fq_ in sorted(disp):
            cs = callers_.get(fq_, set()) - {fq_}
            if not cs or not all(c in disp or c.rsplit('.', 1)[-1] in ('__repr__', '__str__') for c in cs):
                disp.discard(fq_)
                ch_ = True
    display_scopes = set()
    for f in ctx.repo.all_functions():
        if f.fq in disp or f.name in ('__repr__', '__str__'):
            display_scopes.add((f.module.name, f.name, f.node.lineno))
    for m in ctx.repo.modules.values():
        src_tree = ast.parse(m.source)
        if any(isinstance(x, ast.ImportFrom) and any(a.name == '*' for a in x.names) for x in ast.walk(src_tree)):
            rep.undecided(f'{m.name}: names', m.relpath, '`from ... import *`: the module-level names are not known without running the import')
            continue
        top = _st.symtable(m.source, m.relpath, 'exec')
        mod_names = {sy.get_name() for sy in top.get_symbols() if sy.is_assigned() or sy.is_imported() or sy.is_namespace()}
        # `global x` inside a function followed by an assignment also creates the module-level name
        stack = list(top.get_children())
        tables = []
        while stack:
            t = stack.pop()
            tables.append(t)
            stack.extend(t.get_children())
        for t in tables:
            for sy in t.get_symbols():
                if sy.is_declared_global() and sy.is_assigned():
                    mod_names.add(sy.get_name())
        # annotations that are never evaluated: those of local variables, and every annotation under `from __future__ import annotations`
        future = any(isinstance(x, ast.ImportFrom) and x.module == '__future__' and any(a.name == 'annotations' for a in x.names) for x in src_tree.body)
        dead = set()
        for f_ in ast.walk(src_tree):
            if isinstance(f_, (ast.FunctionDef, ast.AsyncFunctionDef)):
                for x in ast.walk(f_):
                    if isinstance(x, ast.AnnAssign) and x is not f_:
                        dead |= {id(y) for y in ast.walk(x.annotation)}
                if future:
                    for a_ in f_.args.posonlyargs + f_.args.args + f_.args.kwonlyargs + [f_.args.vararg, f_.args.kwarg]:
                        if a_ is not None and a_.annotation is not None:
                            dead |= {id(y) for y in ast.walk(a_.annotation)}
                    if f_.returns is not None:
                        dead |= {id(y) for y in ast.walk(f_.returns)}
            if future and isinstance(f_, ast.AnnAssign):
                dead |= {id(y) for y in ast.walk(f_.annotation)}
        by_line = {}
        for x in ast.walk(src_tree):
            if isinstance(x, ast.Name) and isinstance(x.ctx, ast.Load) and id(x) not in dead:
                by_line.setdefault(x.id, []).append(x.lineno)
        for t in [top] + tables:
            bad_before = len(rep.violations())
            reads_here = 0
            for sy in t.get_symbols():
                nm = sy.get_name()
                if not sy.is_referenced():
                    continue
                n += 1
                reads_here += 1
                if t is top:
                    bound = nm in mod_names
                elif sy.is_declared_global() or not (sy.is_local() or sy.is_free()):
                    # (Symbol.is_global() is wrong for scopes that happen to be called "top" in CPython 3.12: derive it instead)
                    bound = nm in mod_names
                else:
                    continue                    # local, cell or free: the compiler found the binding scope (R81 checks the order)
                if bound or nm in allowed:
                    continue
                # annotations under `from __future__ import annotations` or string annotations are never evaluated: only flag names that
                # occur as a loaded ast.Name outside annotations
                lines = [ln for ln in by_line.get(nm, []) if t is top or (t.get_lineno() <= ln)]
                if not lines:
                    continue
                where = f'{t.get_type()} {t.get_name()}' if t is not top else 'module level'
                if t is not top and (m.name, t.get_name(), t.get_lineno()) in display_scopes:
                    rep.add(f'{m.name}: `{nm}` read in {where}', f'{m.relpath}:{lines[0]}', 'info',
                            f'`{nm}` is not bound, but {t.get_name()} is only reached from __str__ / __repr__: no property speaks about the display form')
                    continue
                rep.violation(f'{m.name}: `{nm}` read in {where}', f'{m.relpath}:{lines[0]}',
                              f'`{nm}` is read in {where} but nothing binds it: not a local or parameter, not a name of an enclosing function, not defined or '
                              f'imported at module level, not a builtin; evaluating it raises NameError in place of the documented result')
            if len(rep.violations()) == bad_before and t.get_type() != 'class':
                rep.ok(f'{m.name}: {t.get_type()} {t.get_name()} (line {t.get_lineno()})', f'{m.relpath}:{t.get_lineno()}', f'{reads_here} names read, all bound')
    rep.analysed['names_read'] = n
    return rep


# ---------------------------------------------------------------------------------------------
@rule('R111', 'the character set given to strip/rstrip/lstrip holds the characters meant: no raw-string escape turns "\\n" into a backslash and a letter')
def r111(ctx: Ctx) -> RuleReport:
    rep = RuleReport('R111', r111.title, floor=3)
    for fi in ctx.repo.all_functions():
        for n in walk_local(fi.node):
            if not (isinstance(n, ast.Call) and isinstance(n.func, ast.Attribute) and n.func.attr in ('strip', 'rstrip', 'lstrip')):
                continue
            key = f'{fi.module.name}:{fi.qualname}: `{norm(n)[:50]}`'
            if not n.args:
                if fi.module.name == 'penman._format' and not isinstance(n.func.value, ast.Constant) and not getattr(ctx, '_is_probe', False):
                    # the writer: the text holds symbols of the tree, and Python's whitespace is a larger set than the lexer's separators
                    rep.violation(key, fi.loc(n), f'`{norm(n)[:50]}` strips every character str.isspace() knows, on text that contains a symbol of the tree. The lexer separates tokens at '
                                  f'space, tab, CR, LF, VT and FF only: a symbol can end in U+00A0, U+3000, U+0085 ... ("(a / alpha :ARG0 b\u00a0)"), and that character is '
                                  f'dropped when the tree is written - parse(format(t)) is a different tree')
                    continue
                rep.ok(key, fi.loc(n), 'whitespace')
                continue
            oks, cs = fold_in_any(ctx, fi, n.args[0])
            if not oks or not isinstance(cs, str):
                rep.add(key, fi.loc(n), 'info', 'character set is not a constant')
                continue
            esc = [cs[i + 1] for i in range(len(cs) - 1) if cs[i] == '\\' and cs[i + 1] in 'nrtfv0abx']
            if esc:
                letters = sorted(set(esc))
                rep.violation(key, fi.loc(n), f'the set is {cs!r}: a backslash and the letter(s) {letters}, not the control characters the escape(s) stand for - '
                              f'line terminators stay on the text, while a trailing/leading {letters[0]!r} or backslash of the content is eaten')
            else:
                rep.ok(key, fi.loc(n), f'set {cs!r}')
    return rep


# ---------------------------------------------------------------------------------------------
@rule('R112', 'a walk over a tree node visits every branch: a loop over a slice of the branch list is justified by a test of what the slice leaves out')
def r112(ctx: Ctx) -> RuleReport:
    rep = RuleReport('R112', r112.title, floor=4)
    for modname in ('penman.tree', 'penman.layout', 'penman._format', 'penman.transform'):
        m = ctx.repo.module(modname)
        for fi in m.all_funcs:
            # names bound to the branch list of a node: `var, X = node` / `X = node[1]`
            bnames = set()
            for n in walk_local(fi.node):
                if isinstance(n, ast.Assign) and isinstance(n.targets[0], ast.Tuple) and len(n.targets[0].elts) == 2 \
                        and isinstance(n.targets[0].elts[1], ast.Name) and isinstance(n.value, (ast.Name, ast.Attribute)) \
                        and (norm(n.value).endswith('node') or norm(n.value) in fi.params):
                    bnames.add(n.targets[0].elts[1].id)
                if isinstance(n, ast.Assign) and isinstance(n.targets[0], ast.Name) and isinstance(n.value, ast.Subscript) \
                        and try_fold(n.value.slice) == (True, 1) and norm(n.value.value).endswith('node'):
                    bnames.add(n.targets[0].id)
            if not bnames:
                continue
            loops = [n for n in walk_local(fi.node) if isinstance(n, (ast.For, ast.comprehension))]
            for lp in loops:
                it = lp.iter
                # enumerate(X[...]) / reversed(X[...]) wrap the same sequence
                while isinstance(it, ast.Call) and norm(it.func) in ('enumerate', 'reversed', 'list', 'tuple', 'iter') and it.args:
                    it = it.args[0]
                if isinstance(it, ast.Name) and it.id in bnames:
                    rep.ok(f'{fi.fq}: loop over `{it.id}`', fi.loc(it), 'the whole branch list')
                    continue
                if not (isinstance(it, ast.Subscript) and isinstance(it.slice, ast.Slice) and isinstance(it.value, ast.Name) and it.value.id in bnames):
                    continue
                X = it.value.id
                sl = it.slice
                if sl.lower is None and sl.upper is None and sl.step is None:
                    rep.ok(f'{fi.fq}: loop over `{norm(it)}`', fi.loc(it), 'a copy of the whole list')
                    continue
                key = f'{fi.fq}: loop over `{norm(it)}` leaves out branches only where the code knows what they are'
                fx = facts_ex(ctx, fi, it)
                guard = [f for f, pol in fx if X in f and ('[0][0]' in f.replace(' ', '') or "'/'" in f or '"/"' in f)]
                elsewhere = [x for x in walk_local(fi.node) if isinstance(x, ast.Subscript) and isinstance(x.value, ast.Name) and x.value.id == X
                             and x is not it and not (isinstance(x.slice, ast.Slice) and norm(x) == norm(it))]
                if guard:
                    rep.ok(key, fi.loc(it), f'under {guard[:2]}')
                elif elsewhere:
                    rep.undecided(key, fi.loc(it), f'`{norm(elsewhere[0])}` is read elsewhere: the branches outside the slice may be handled there')
                else:
                    rep.violation(key, fi.loc(it), f'the loop runs over `{norm(it)}` with no test of what the slice leaves out, and no other code of {fi.qualname} looks at '
                                  f'those branches: for a node whose skipped branch is an ordinary edge (a node without concept, or with the concept '
                                  f'not written first) everything nested under it is never visited')
    return rep


# ---------------------------------------------------------------------------------------------
@rule('R116', 'a position found in a filtered copy of a sequence is not used as a position in the sequence itself')
def r116(ctx: Ctx) -> RuleReport:
    rep = RuleReport('R116', r116.title, floor=3)
    for fi in ctx.repo.all_functions():
        las = ctx.cg.local_assigns(fi)
        # A = [x for x in B if cond]  /  A = list(filter(f, B))  -> A is a filtered copy of B
        filtered = {}
        for nm, vals in las.items():
            vs = [v for v in vals if isinstance(v, ast.AST)]
            if len(vals) != 1 or len(vs) != 1:
                continue
            v = vs[0]
            if isinstance(v, ast.ListComp) and len(v.generators) == 1 and v.generators[0].ifs and isinstance(v.generators[0].iter, ast.Name):
                filtered[nm] = (v.generators[0].iter.id, v)
            elif isinstance(v, ast.Call) and norm(v.func) in ('list', 'tuple') and v.args and isinstance(v.args[0], ast.Call) \
                    and norm(v.args[0].func) == 'filter' and len(v.args[0].args) == 2 and isinstance(v.args[0].args[1], ast.Name):
                filtered[nm] = (v.args[0].args[1].id, v)
        for lp in walk_local(fi.node):
            if not isinstance(lp, ast.For):
                continue
            it, idx, seq = lp.iter, None, None
            if isinstance(it, ast.Call) and norm(it.func) == 'range' and isinstance(lp.target, ast.Name):
                lens = [x for a in it.args for x in ast.walk(a) if isinstance(x, ast.Call) and norm(x.func) == 'len' and x.args and isinstance(x.args[0], ast.Name)]
                if len(lens) == 1:
                    idx, seq = lp.target.id, lens[0].args[0].id
            elif isinstance(it, ast.Call) and norm(it.func) == 'enumerate' and it.args and isinstance(it.args[0], ast.Name) \
                    and isinstance(lp.target, ast.Tuple) and lp.target.elts and isinstance(lp.target.elts[0], ast.Name):
                idx, seq = lp.target.elts[0].id, it.args[0].id
            elif isinstance(it, ast.Call) and norm(it.func) == 'reversed' and it.args and isinstance(it.args[0], ast.Call) \
                    and norm(it.args[0].func) in ('list', 'enumerate'):
                inner = it.args[0]
                while isinstance(inner, ast.Call) and norm(inner.func) == 'list' and inner.args:
                    inner = inner.args[0]
                if isinstance(inner, ast.Call) and norm(inner.func) == 'enumerate' and inner.args and isinstance(inner.args[0], ast.Name) \
                        and isinstance(lp.target, ast.Tuple) and isinstance(lp.target.elts[0], ast.Name):
                    idx, seq = lp.target.elts[0].id, inner.args[0].id
            if idx is None:
                continue
            key = f'{fi.module.name}:{fi.qualname}: index `{idx}` over `{seq}`'
            if seq not in filtered:
                rep.ok(key, fi.loc(lp), 'positions of the sequence itself')
                continue
            base, comp = filtered[seq]
            # uses of the index (inside or after the loop) as a position in the unfiltered sequence
            # names computed from the index by arithmetic (pivot = i + 1) stand for positions in the same sequence
            derived = {idx}
            grew = True
            while grew:
                grew = False
                for nm2, vals2 in las.items():
                    if nm2 in derived:
                        continue
                    for v2 in vals2:
                        if isinstance(v2, (ast.BinOp, ast.Name, ast.UnaryOp)) and any(isinstance(y, ast.Name) and y.id in derived for y in ast.walk(v2)) \
                                and not any(isinstance(y, (ast.Call, ast.Subscript)) for y in ast.walk(v2)):
                            derived.add(nm2)
                            grew = True
            uses = [x for x in walk_local(fi.node) if isinstance(x, ast.Subscript) and isinstance(x.value, ast.Name) and x.value.id == base
                    and any(isinstance(y, ast.Name) and y.id in derived for y in ast.walk(x.slice)) and x.lineno >= lp.lineno]
            if uses:
                rep.violation(key, fi.loc(uses[0]), f'`{idx}` counts positions in `{seq}` = `{norm(comp)[:60]}`, which leaves elements of `{base}` out, but `{norm(uses[0])}` uses it '
                              f'as a position in `{base}`: as soon as a filtered-out element lies before that position the two differ, and the cut lands in the wrong place')
            else:
                rep.ok(key, fi.loc(lp), f'`{idx}` is only used on `{seq}`')
    return rep


# ---------------------------------------------------------------------------------------------
@rule('R117', 'ordering by a key is done with key=: a decorated sort of (key, element) pairs compares the elements themselves when keys tie')
def r117(ctx: Ctx) -> RuleReport:
    rep = RuleReport('R117', r117.title, floor=2)
    for fi in ctx.repo.all_functions():
        for n in walk_local(fi.node):
            call = None
            if isinstance(n, ast.Call) and isinstance(n.func, ast.Name) and n.func.id == 'sorted' and n.args:
                call, seq = n, n.args[0]
            elif isinstance(n, ast.Call) and isinstance(n.func, ast.Attribute) and n.func.attr == 'sort' and isinstance(n.func.value, ast.Name):
                call, seq = n, n.func.value
            if call is None:
                continue
            key = f'{fi.module.name}:{fi.qualname}: `{norm(call)[:60]}`'
            haskey = any(k.arg == 'key' and not (isinstance(k.value, ast.Constant) and k.value.value is None) for k in call.keywords)
            src = seq
            if isinstance(src, ast.Name):
                vals = [v for v in ctx.cg.local_assigns(fi).get(src.id, []) if isinstance(v, ast.AST)]
                if len(vals) == 1:
                    src = vals[0]
            if isinstance(src, (ast.GeneratorExp, ast.ListComp)) and len(src.generators) == 1 and isinstance(src.elt, ast.Tuple) and len(src.elt.elts) >= 2 \
                    and not haskey:
                tv = {x.id for x in ast.walk(src.generators[0].target) if isinstance(x, ast.Name)}
                elts = src.elt.elts
                last = elts[-1]
                whole = isinstance(last, ast.Name) and last.id in tv or norm(last) == norm(src.generators[0].target)
                # an explicit position (enumerate index / counter) in front of the element breaks every tie before the element is looked at
                tiebreak = any(isinstance(e, ast.Name) and e.id in tv and e is not last for e in elts[1:-1])
                if whole and not tiebreak and any(isinstance(x, ast.Call) for x in ast.walk(elts[0])):
                    rep.violation(key, fi.loc(call), f'the pairs `{norm(src.elt)[:50]}` are sorted without key=: when two keys are equal the elements themselves are compared, '
                                  f'so equal-key elements are re-ordered by their own value instead of keeping their input order (the sort is no longer stable), '
                                  f'and elements that cannot be compared (a nested node against an atom) raise TypeError')
                    continue
            rep.ok(key, fi.loc(call), 'key= given' if haskey else 'plain sort of the elements')
    return rep


# ---------------------------------------------------------------------------------------------
@rule('R118', 'a cursor that walks the matches of a pattern moves to the end of each match (not a fixed number of characters past its start, unless every match has that length)')
def r118(ctx: Ctx) -> RuleReport:
    import re as _re
    from ..rx import Lang
    rep = RuleReport('R118', r118.title, floor=0)
    n_loops = 0
    for fi in ctx.repo.all_functions():
        for lp in walk_local(fi.node):
            if not (isinstance(lp, ast.For) and isinstance(lp.target, ast.Name) and isinstance(lp.iter, ast.Call)
                    and isinstance(lp.iter.func, ast.Attribute) and lp.iter.func.attr == 'finditer'):
                continue
            n_loops += 1
            m = lp.target.id
            rx = lp.iter.func.value
            if norm(rx) == 're' and lp.iter.args:
                okp, pat = fold_in_any(ctx, fi, lp.iter.args[0])
                pat, fl = (pat if okp else None), 0
            else:
                pat, fl = _regex_of(ctx, fi, rx)
            # names that hold m.start() (+ constant)
            starts = {}
            for st in ast.walk(lp):
                if isinstance(st, ast.Assign) and isinstance(st.targets[0], ast.Name):
                    v = st.value
                    k = 0
                    if isinstance(v, ast.BinOp) and isinstance(v.op, ast.Add) and isinstance(v.right, ast.Constant) and isinstance(v.right.value, int):
                        k, v = v.right.value, v.left
                    if isinstance(v, ast.Call) and isinstance(v.func, ast.Attribute) and v.func.attr == 'start' and norm(v.func.value) == m and not v.args:
                        starts.setdefault(st.targets[0].id, []).append((k, st))
                    elif isinstance(v, ast.Name) and v.id in starts and all(k0 == 0 for k0, _ in starts[v.id]):
                        starts.setdefault(st.targets[0].id, []).append((k, st))
            # the cursor: a name assigned in the loop from a start-derived value and read in the loop before being assigned (loop carried) or after it
            for nm, defs in starts.items():
                for k, st in defs:
                    if k <= 0:
                        continue
                    carried = any(isinstance(x, ast.Name) and x.id == nm and isinstance(x.ctx, ast.Load) and x.lineno <= st.lineno and x is not st.targets[0]
                                  for x in ast.walk(lp)) or any(isinstance(x, ast.Name) and x.id == nm and isinstance(x.ctx, ast.Load) and x.lineno > lp.end_lineno
                                                               for x in walk_local(fi.node))
                    if not carried:
                        continue
                    key = f'{fi.module.name}:{fi.qualname}: `{norm(st)[:50]}` moves the cursor past the match'
                    if pat is None:
                        rep.undecided(key, fi.loc(st), 'the pattern is not a constant')
                        continue
                    try:
                        L = Lang.from_pattern(pat, fl)
                        w = L.witness_not_subset(Lang.from_pattern('.{%d}' % k, _re.S))
                    except Exception as exc:
                        rep.undecided(key, fi.loc(st), f'pattern not modelled: {exc}')
                        continue
                    if w is not None:
                        rep.violation(key, fi.loc(st), f'the cursor is set {k} character(s) past the start of the match, but the pattern {pat!r} also matches {w!r} '
                                      f'({len(w)} characters): the rest of that match is taken for the beginning of the next piece (after "\\r\\n" the next line starts '
                                      f'with "\\n", so every column on it is off by one)')
                    else:
                        rep.ok(key, fi.loc(st), f'every match of {pat!r} is {k} character(s) long')
    rep.analysed['finditer_loops'] = n_loops
    return rep


# ---------------------------------------------------------------------------------------------
@rule('R120', 'the position returned by str.find / rfind is used only where it is known not to be -1')
def r120(ctx: Ctx) -> RuleReport:
    rep = RuleReport('R120', r120.title, floor=0)
    n = 0
    for fi in ctx.repo.all_functions():
        finds = {}
        for st in walk_local(fi.node):
            if isinstance(st, ast.Assign) and len(st.targets) == 1 and isinstance(st.targets[0], ast.Name) and isinstance(st.value, ast.Call) \
                    and isinstance(st.value.func, ast.Attribute) and st.value.func.attr in ('find', 'rfind') and st.value.args:
                finds.setdefault(st.targets[0].id, []).append(st)
        for nm, sts in finds.items():
            if len(ctx.cg.local_assigns(fi).get(nm, [])) != len(sts):
                continue                                    # also bound otherwise: not followed
            n += 1
            recv = norm(sts[0].value.func.value)
            sep = norm(sts[0].value.args[0])
            def direct(sl):
                # the name occurs in the slice expression itself, not inside a nested subscript
                stack = [sl]
                while stack:
                    y = stack.pop()
                    if isinstance(y, ast.Name) and y.id == nm:
                        return True
                    if isinstance(y, ast.Subscript):
                        continue
                    stack.extend(ast.iter_child_nodes(y))
                return False
            uses = [x for x in walk_local(fi.node) if isinstance(x, ast.Subscript) and direct(x.slice)]
            for u in uses:
                key = f'{fi.module.name}:{fi.qualname}: `{norm(u)[:40]}` uses the position `{nm}` = {norm(sts[0].value)[:40]}'
                fx = facts_ex(ctx, fi, u)
                guarded = any(nm in {y.id for y in ast.walk(ast.parse(f, mode='eval')) if isinstance(y, ast.Name)} for f, pol in fx) or \
                    any(pol and f.replace(' ', '') in (f'{sep}in{recv}'.replace(' ', ''),) for f, pol in fx) or \
                    any((not pol) and f.replace(' ', '') == f'{sep}notin{recv}'.replace(' ', '') for f, pol in fx)
                if guarded:
                    rep.ok(key, fi.loc(u), 'under a test of the position (or of the presence of what is searched)')
                else:
                    rep.violation(key, fi.loc(u), f'nothing on the way to this use tests `{nm}` against -1 or tests `{sep} in {recv}`: when {sep} does not occur, find returns -1 and '
                                  f'`{norm(u)[:40]}` silently means "up to the last character" / "from the start" - the last character is cut off or the whole text is '
                                  f'taken twice')
    rep.analysed['find_results'] = n
    return rep


# ---------------------------------------------------------------------------------------------
@rule('R125', 'a list that is split by two filters and put together again keeps every element exactly once (the filters are complementary)')
def r125(ctx: Ctx) -> RuleReport:
    import re as _re
    from .. import boolnorm as bn
    rep = RuleReport('R125', r125.title, floor=0)
    n_sites = 0
    for fi in ctx.repo.all_functions():
        las = ctx.cg.local_assigns(fi)
        parts = {}
        for nm, vals in las.items():
            vs = [v for v in vals if isinstance(v, ast.AST)]
            if len(vals) == 1 and len(vs) == 1 and isinstance(vs[0], ast.ListComp) and len(vs[0].generators) == 1:
                g = vs[0].generators[0]
                if len(g.ifs) >= 1 and isinstance(g.target, ast.Name) and norm(vs[0].elt) == g.target.id and isinstance(g.iter, ast.Name):
                    parts[nm] = (g.iter.id, g.target.id, g.ifs, vs[0])
        if len(parts) < 2:
            continue
        for n in walk_local(fi.node):
            if not (isinstance(n, ast.BinOp) and isinstance(n.op, ast.Add) and isinstance(n.left, ast.Name) and isinstance(n.right, ast.Name)
                    and n.left.id in parts and n.right.id in parts and n.left.id != n.right.id):
                continue
            (s1, v1, c1, _), (s2, v2, c2, _) = parts[n.left.id], parts[n.right.id]
            if s1 != s2:
                continue
            # only where the concatenation REPLACES the list that was split (S = A + B, S[:] = ... A + B ...): elsewhere two filtered views are just two views
            pmf = ctx.repo.parent_map(fi.node)
            st_ = n
            while not isinstance(st_, ast.stmt):
                st_ = pmf[id(st_)]
            replaces = isinstance(st_, ast.Assign) and any(
                (isinstance(t_, ast.Name) and t_.id == s1) or (isinstance(t_, ast.Subscript) and isinstance(t_.slice, ast.Slice)) for t_ in st_.targets)
            if not replaces:
                continue
            n_sites += 1
            key = f'{fi.module.name}:{fi.qualname}: `{norm(n)}` puts the two parts of `{s1}` together again'

            def form(var, conds):
                canon = lambda src, var=var: _re.sub(r'(?<![\w.])' + _re.escape(var) + r'(?![\w])', 'X', src)
                ab = bn.Abstractor(canon=canon)
                return bn.mk_and([ab.formula(c) for c in conds])
            f1, f2 = form(v1, c1), form(v2, c2)
            atoms = sorted(set(bn.atoms_of(f1)) | set(bn.atoms_of(f2)))

            def feasible(env):
                # what is known about the atoms: a str is atomic; a member of a set of variables is a str
                for a, val in env.items():
                    m = _re.fullmatch(r'isinstance\((.+), str\)', a)
                    if m and val and env.get(f'is_atomic({m.group(1)})') is False:
                        return False
                    m = _re.fullmatch(r'(.+) in (\w+)', a)
                    if m and val and (env.get(f'isinstance({m.group(1)}, str)') is False or env.get(f'is_atomic({m.group(1)})') is False):
                        return False
                return True
            known = all(_re.fullmatch(r'isinstance\(.+\)|is_atomic\(.+\)|.+ in \w+|.+ is None|.+ == .+', a) for a in atoms)
            bad = None
            for env in bn.assignments([f1, f2], limit=12):
                if not feasible(env):
                    continue
                vals = [bn.evaluate(f1, env), bn.evaluate(f2, env)]
                if sum(vals) != 1:
                    bad = (env, vals)
                    break
            if bad is None:
                rep.ok(key, fi.loc(n), f'{bn.show(f1)}  /  {bn.show(f2)}')
            elif known:
                env, vals = bad
                what = 'neither filter' if sum(vals) == 0 else 'both filters'
                cond = ', '.join(f'{a} is {v}' for a, v in sorted(env.items()))
                rep.violation(key, fi.loc(n), f'the filters `{bn.show(f1)}` and `{bn.show(f2)}` are not complementary: an element with [{cond}] passes {what} - '
                              + ('it is silently dropped from the list (a branch whose target is None or a number disappears from its node, and with it a triple of the graph)'
                                 if sum(vals) == 0 else 'it is listed twice'))
            else:
                rep.undecided(key, fi.loc(n), f'the filters `{bn.show(f1)}` and `{bn.show(f2)}` are not visibly complementary')
    rep.analysed['split_and_join_sites'] = n_sites
    return rep


# ---------------------------------------------------------------------------------------------
@rule('R126', 'a function created inside a loop does not read a variable the loop re-binds, unless it binds the value when it is created (late binding)')
def r126(ctx: Ctx) -> RuleReport:
    from ..cfg import assigned_names
    rep = RuleReport('R126', r126.title, floor=0)
    n_inner = 0
    for fi in ctx.repo.all_functions():
        for lp in walk_local(fi.node):
            if not isinstance(lp, (ast.For, ast.While)):
                continue
            rebound = set()
            if isinstance(lp, ast.For):
                rebound |= {x.id for x in ast.walk(lp.target) if isinstance(x, ast.Name)}
            for st in ast.walk(lp):
                if isinstance(st, ast.stmt) and st is not lp and not isinstance(st, (ast.FunctionDef, ast.AsyncFunctionDef, ast.ClassDef)):
                    try:
                        rebound |= assigned_names(st)
                    except Exception:
                        pass
            inners = [x for b in lp.body for x in ast.walk(b) if isinstance(x, (ast.FunctionDef, ast.Lambda))]
            for inner in inners:
                n_inner += 1
                a = inner.args
                params = {p.arg for p in a.posonlyargs + a.args + a.kwonlyargs} | ({a.vararg.arg} if a.vararg else set()) | ({a.kwarg.arg} if a.kwarg else set())
                body = inner.body if isinstance(inner.body, list) else [inner.body]
                local = set(params)
                for b in body:
                    for x in ast.walk(b):
                        if isinstance(x, ast.Name) and isinstance(x.ctx, ast.Store):
                            local.add(x.id)
                reads = {x.id for b in body for x in ast.walk(b) if isinstance(x, ast.Name) and isinstance(x.ctx, ast.Load)}
                captured = sorted((reads - local) & rebound)
                name = inner.name if isinstance(inner, ast.FunctionDef) else '<lambda>'
                key = f'{fi.module.name}:{fi.qualname}: `{name}` created in a loop over `{norm(lp.iter)[:30] if isinstance(lp, ast.For) else norm(lp.test)[:30]}`'
                if not captured:
                    rep.ok(key, fi.loc(inner), 'reads nothing the loop re-binds')
                    continue
                # does the function object outlive the iteration?
                escapes = None
                if isinstance(inner, ast.FunctionDef):
                    for x in ast.walk(lp):
                        if isinstance(x, ast.Name) and x.id == inner.name and isinstance(x.ctx, ast.Load):
                            par = ctx.repo.parent_map(fi.node).get(id(x))
                            if isinstance(par, ast.Call) and par.func is x:
                                continue                                # called on the spot
                            escapes = x
                else:
                    par = ctx.repo.parent_map(fi.node).get(id(inner))
                    if not (isinstance(par, ast.Call) and par.func is inner):
                        # key=lambda ...: used by sorted()/min()/max() at once does not outlive the call
                        if isinstance(par, ast.keyword) and par.arg == 'key':
                            escapes = None
                        else:
                            escapes = inner
                if escapes is None:
                    rep.ok(key, fi.loc(inner), f'reads {captured} but is only used within the iteration')
                else:
                    rep.violation(key, fi.loc(inner), f'`{name}` reads {captured}, which the loop binds anew in every iteration, and the function object is kept beyond the iteration '
                                  f'(line {getattr(escapes, "lineno", inner.lineno)}): when it is called later it sees the values of the LAST iteration - every function made in this loop '
                                  f'then uses the last key / the last list, not its own (bind the value with a default argument or functools.partial)')
    rep.analysed['functions_created_in_loops'] = n_inner
    return rep


# ---------------------------------------------------------------------------------------------
@rule('R127', 'the result of str.split / rsplit is unpacked into a fixed number of names only where the number of parts is known')
def r127(ctx: Ctx) -> RuleReport:
    rep = RuleReport('R127', r127.title, floor=0)
    n = 0
    for fi in ctx.repo.all_functions():
        for st in walk_local(fi.node):
            if not (isinstance(st, ast.Assign) and isinstance(st.targets[0], (ast.Tuple, ast.List)) and isinstance(st.value, ast.Call)
                    and isinstance(st.value.func, ast.Attribute) and st.value.func.attr in ('split', 'rsplit')):
                continue
            if any(isinstance(e, ast.Starred) for e in st.targets[0].elts):
                continue
            if norm(st.value.func.value) == 're':
                continue
            n += 1
            k = len(st.targets[0].elts)
            recv = norm(st.value.func.value)
            sep = st.value.args[0] if st.value.args else None
            sep_none = sep is None or (isinstance(sep, ast.Constant) and sep.value is None)
            key = f'{fi.module.name}:{fi.qualname}: `{norm(st)[:60]}`'
            fx = facts_ex(ctx, fi, st)
            guarded = any(recv in f and ((' in ' in f) or 'count(' in f or 'len(' in f) for f, pol in fx)
            if guarded:
                rep.ok(key, fi.loc(st), 'under a test of the text that is split')
            else:
                fewer = 'an empty or blank text gives no part at all, a text without blanks gives one' if sep_none else f'a text without {norm(sep)} gives a single part'
                rep.violation(key, fi.loc(st), f'split returns as many parts as the text happens to have - {fewer} - but exactly {k} names are bound and nothing on the way tests `{recv}`: '
                              f'the statement raises ValueError for such a text (str.partition always returns three parts; split does not)')
    rep.analysed['split_unpackings'] = n
    return rep


# ---------------------------------------------------------------------------------------------
@rule('R128', 'epigraph markers are told apart by their class (isinstance / mode), never by == or membership: two markers of different classes can be equal')
def r128(ctx: Ctx) -> RuleReport:
    rep = RuleReport('R128', r128.title, floor=3)
    # is marker equality class-blind?  (read from the class, not assumed)
    am = ctx.repo.cls('penman.surface', 'AlignmentMarker')
    eq = am.find_method('__eq__')
    class_blind = eq is not None and not any(isinstance(x, ast.Call) and norm(x.func) == 'type' or isinstance(x, ast.Attribute) and x.attr == '__class__'
                                             for x in walk_local(eq.node))
    why = ('AlignmentMarker.__eq__ compares prefix and indices only, so an Alignment and a RoleAlignment for the same token are equal' if class_blind
           else 'marker equality is not identity')
    for modname in ('penman.transform', 'penman.layout', 'penman.surface', 'penman.graph', 'penman.__main__'):
        m = ctx.repo.module(modname)
        for fi in m.all_funcs:
            if fi.cls is not None and fi.name == '__eq__':
                continue
            markers = set()
            for n in walk_local(fi.node):
                if isinstance(n, (ast.For, ast.comprehension)) and isinstance(n.target, ast.Name) and 'epi' in norm(n.iter).lower() and '.items()' not in norm(n.iter):
                    markers.add(n.target.id)
            for n in walk_local(fi.node):
                if isinstance(n, ast.Call) and isinstance(n.func, ast.Name) and n.func.id == 'isinstance' and len(n.args) == 2 \
                        and isinstance(n.args[0], ast.Name) and n.args[0].id in markers:
                    rep.ok(f'{fi.fq}: {norm(n)[:50]}', fi.loc(n), 'by class')
                bad = None
                if isinstance(n, ast.Compare) and len(n.ops) == 1 and isinstance(n.ops[0], (ast.In, ast.NotIn, ast.Eq, ast.NotEq)) \
                        and isinstance(n.left, ast.Name) and n.left.id in markers:
                    r_ = n.comparators[0]
                    if isinstance(r_, ast.Constant) or (isinstance(n.ops[0], (ast.In, ast.NotIn)) and isinstance(r_, (ast.Dict,))):
                        continue
                    bad = (n, 'compares' if isinstance(n.ops[0], (ast.Eq, ast.NotEq)) else 'looks up')
                if isinstance(n, ast.Call) and isinstance(n.func, ast.Attribute) and n.func.attr in ('remove', 'index', 'count') and len(n.args) == 1 \
                        and isinstance(n.args[0], ast.Name) and n.args[0].id in markers:
                    bad = (n, f'list.{n.func.attr} looks up')
                if bad and class_blind:
                    n_, verb = bad
                    rep.violation(f'{fi.fq}: {norm(n_)[:60]}', fi.loc(n_), f'`{norm(n_)[:50]}` {verb} a marker by ==: {why}. A target alignment that equals the role alignment of the same '
                                  f'triple (":mod~e.3 7~e.3") is taken for it - it is dropped, moved to the wrong triple or removed in place of the other one')
                elif bad:
                    rep.undecided(f'{fi.fq}: {norm(bad[0])[:60]}', fi.loc(bad[0]), why)
    return rep


# ---------------------------------------------------------------------------------------------
@rule('R131', 'the objects that travel between processes (models, graphs, trees, codecs, markers) hold only picklable state')
def r131(ctx: Ctx) -> RuleReport:
    rep = RuleReport('R131', r131.title, floor=10)
    UNPICKLABLE = {'MappingProxyType': 'a mappingproxy', 'types.MappingProxyType': 'a mappingproxy', 'iter': 'an iterator', 'open': 'an open file',
                   'threading.Lock': 'a lock', 'threading.RLock': 'a lock', 'Lock': 'a lock', 'RLock': 'a lock', 'weakref.ref': 'a weak reference',
                   'zip': 'an iterator', 'map': 'an iterator', 'filter': 'an iterator', 'enumerate': 'an iterator', 'reversed': 'an iterator',
                   'itertools.count': 'an iterator', 'count': 'an iterator', 'itertools.chain': 'an iterator', 'chain': 'an iterator'}
    for c in ctx.repo.all_classes():
        if c.module.name.startswith('penman.__main__') or c.module.name in ('penman._lexer', 'penman.exceptions'):
            continue                    # the token iterator wraps a generator by design and lives within one parse call
        for m in c.methods.values():
            nested = {f.name for f in ctx.repo.all_functions() if f.parent is m}
            for n in walk_local(m.node):
                if not (isinstance(n, ast.Assign) and len(n.targets) == 1 and isinstance(n.targets[0], ast.Attribute) and norm(n.targets[0].value) == 'self'):
                    continue
                v = n.value
                key = f'{m.fq}: self.{n.targets[0].attr} = {norm(v)[:40]}'
                what = None
                if isinstance(v, ast.Lambda):
                    what = 'a lambda'
                elif isinstance(v, ast.GeneratorExp):
                    what = 'a generator'
                elif isinstance(v, ast.Name) and v.id in nested:
                    what = f'the nested function {v.id}'
                elif isinstance(v, ast.Call) and norm(v.func) in UNPICKLABLE:
                    what = UNPICKLABLE[norm(v.func)]
                elif isinstance(v, ast.Call) and norm(v.func) in ('partial', 'functools.partial') and v.args and isinstance(v.args[0], ast.Lambda):
                    what = 'a partial over a lambda'
                if what:
                    rep.violation(key, m.fq and ctx.repo.func(c.module.name, m.qualname).loc(n), f'{c.name} objects are handed to worker processes (multiprocessing pickles the codec, its model, graphs and '
                                  f'markers) and copied with deepcopy; {what} cannot be pickled or deep-copied: the same call that works in-process raises TypeError in a worker')
                else:
                    rep.ok(key, ctx.repo.func(c.module.name, m.qualname).loc(n))
    return rep


# ---------------------------------------------------------------------------------------------
@rule('R139', 'a flag that a loop raises with `flag = True` is not overwritten by a computed value in another round of the same loop (it accumulates: |=, or, or only ever True)')
def r139(ctx: Ctx) -> RuleReport:
    """changed = False / for ...: if a: changed = True / else: changed = <computed for this item>  ... `changed` read after the loop:
    the computed assignment forgets what an earlier item established."""
    from ..cfg import assigned_names
    rep = RuleReport('R139', r139.title, floor=0)
    n_flags = 0
    for fi in ctx.repo.all_functions():
        loops = [n for n in walk_local(fi.node) if isinstance(n, (ast.For, ast.While))]
        if not loops:
            continue
        cfg = None
        for lp in loops:
            inside = [n for b in lp.body for n in ast.walk(b) if isinstance(n, ast.Assign) and len(n.targets) == 1 and isinstance(n.targets[0], ast.Name)]
            raised = {n.targets[0].id for n in inside if isinstance(n.value, ast.Constant) and n.value.value is True}
            for x in sorted(raised):
                computed = [n for n in inside if n.targets[0].id == x and not isinstance(n.value, ast.Constant)
                            and not any(isinstance(y, ast.Name) and y.id == x for y in ast.walk(n.value))]
                if not computed:
                    continue
                # initialised to False before the loop, and read after it
                pre = [n for n in walk_local(fi.node) if isinstance(n, ast.Assign) and len(n.targets) == 1 and norm(n.targets[0]) == x and isinstance(n.value, ast.Constant)
                       and n.value.value is False and not any(n is y for y in ast.walk(lp))]
                if not pre:
                    continue
                if cfg is None:
                    cfg = CFG(fi.node)
                head = cfg.node_of(lp)
                n_flags += 1
                key = f'{fi.fq}: flag `{x}` raised in the loop `{norm(lp).splitlines()[0][:40]}` stays raised'
                ups = [n for n in inside if n.targets[0].id == x and isinstance(n.value, ast.Constant) and n.value.value is True]
                bad = None
                for u in ups:
                    for c_ in computed:
                        un, cn = cfg.node_of(u), cfg.node_of(c_)
                        # raise -> loop head -> computed assignment, with no other assignment of the flag in between
                        others = {cfg.node_of(n) for n in inside if n.targets[0].id == x} - {un, cn}
                        p1 = cfg.path_avoiding([(un, None)], {head}, lambda nd: nd.id in others or nd.id == cn)
                        p2 = cfg.path_avoiding([(head, 'T')], {cn}, lambda nd: nd.id in others) or cfg.path_avoiding([(head, None)], {cn}, lambda nd: nd.id in others)
                        if p1 and p2:
                            bad = (u, c_)
                # read after the loop (or in the loop test)?
                after = cfg.reachable_from([head], avoid=lambda nd: False, via=lambda a, b, lab: not (a == head and lab == 'T'))
                read_after = any(nd.ast is not None and nd.id in after and nd.id != head and not any(nd.ast is y for b in lp.body for y in ast.walk(b))
                                 and any(isinstance(y, ast.Name) and y.id == x and isinstance(y.ctx, ast.Load) for y in ast.walk(nd.ast)) for nd in cfg.nodes)
                if bad and read_after:
                    u, c_ = bad
                    rep.violation(key, fi.loc(c_), f'`{norm(c_)[:50]}` assigns the flag from the current item alone; in an earlier round `{norm(u)}` may have raised it, and that is forgotten '
                                  f'when a later item computes False - what the code after the loop does with `{x}` then depends only on the items that came last')
                else:
                    rep.ok(key, fi.loc(lp))
    rep.analysed['flags_examined'] = n_flags
    return rep


# ---------------------------------------------------------------------------------------------
@rule('R140', 'a container is not resized inside a loop that iterates over it (or over its live keys()/items()/values() view) and then goes on iterating')
def r140(ctx: Ctx) -> RuleReport:
    rep = RuleReport('R140', r140.title, floor=0)
    n_loops = 0

    def iterated(it):
        """source text of the container a for-loop walks over directly (no copy), else None"""
        if isinstance(it, ast.Call) and isinstance(it.func, ast.Attribute) and it.func.attr in ('keys', 'items', 'values') and not it.args:
            return norm(it.func.value), 'dict view'
        if isinstance(it, ast.Call) and isinstance(it.func, ast.Name) and it.func.id in ('iter', 'enumerate', 'reversed') and it.args:
            r = iterated(it.args[0])
            return r if r else ((norm(it.args[0]), 'container') if isinstance(it.args[0], (ast.Name, ast.Attribute)) else None)
        if isinstance(it, (ast.Name, ast.Attribute)):
            return norm(it), 'container'
        return None
    for fi in ctx.repo.all_functions():
        loops = [n for n in walk_local(fi.node) if isinstance(n, ast.For)]
        cfg = None
        for lp in loops:
            src = iterated(lp.iter)
            if src is None:
                continue
            cont, kind = src
            muts = []
            for b in lp.body:
                for x in ast.walk(b):
                    if isinstance(x, ast.Delete) and any(isinstance(t, ast.Subscript) and norm(t.value) == cont for t in x.targets):
                        muts.append(x)
                    elif isinstance(x, ast.Call) and isinstance(x.func, ast.Attribute) and norm(x.func.value) == cont and \
                            x.func.attr in ('pop', 'popitem', 'clear', 'remove', 'discard', 'add', 'append', 'insert', 'extend', 'update', 'setdefault'):
                        muts.append(x)
            if not muts:
                continue
            n_loops += 1
            if cfg is None:
                cfg = CFG(fi.node)
            pm = ctx.repo.parent_map(fi.node)
            head = cfg.node_of(lp)
            key = f'{fi.fq}: the loop over `{norm(lp.iter)[:40]}` does not resize `{cont}` and go on'
            bad = None
            for m in muts:
                st = m
                while not isinstance(st, ast.stmt):
                    st = pm[id(st)]
                if cfg.path_avoiding([(cfg.node_of(st), None)], {head}, lambda nd: False):
                    bad = m
                    break
            if bad is not None:
                rep.violation(key, fi.loc(bad), f'`{norm(bad)[:50]}` changes the size of `{cont}` while `for {norm(lp.target)} in {norm(lp.iter)[:40]}` is walking over it ({kind}, not a copy) and the loop '
                              f'then takes its next item: for a dict or set that is "RuntimeError: ... changed size during iteration", for a list items are skipped or visited twice')
            else:
                rep.ok(key, fi.loc(lp), 'every resizing statement leaves the loop')
    rep.analysed['loops_with_a_resizing_statement'] = n_loops
    return rep


# ---------------------------------------------------------------------------------------------
@rule('R141', 'state that __setstate__ rebuilds is rebuilt the way __init__ builds it (same calls, same literals): an unpickled / deep-copied object behaves like the original')
def r141(ctx: Ctx) -> RuleReport:
    rep = RuleReport('R141', r141.title, floor=0)
    n = 0

    def skeleton(e: ast.AST):
        calls = [norm(x.func).split('.')[-1] for x in ast.walk(e) if isinstance(x, ast.Call)]
        consts = [x.value for x in ast.walk(e) if isinstance(x, ast.Constant) and isinstance(x.value, (str, int, float, bool)) and x.value is not None]
        return sorted(calls), sorted(map(repr, consts))
    for c in ctx.repo.all_classes():
        ss = c.methods.get('__setstate__')
        init = c.methods.get('__init__')
        if ss is None or init is None:
            continue
        built_init = {}
        for x in walk_local(init.node):
            if isinstance(x, ast.Assign) and len(x.targets) == 1 and isinstance(x.targets[0], ast.Attribute) and norm(x.targets[0].value) == 'self' and isinstance(x.value, ast.Call):
                built_init[x.targets[0].attr] = x
        for x in walk_local(ss.node):
            if not (isinstance(x, ast.Assign) and len(x.targets) == 1 and isinstance(x.targets[0], ast.Attribute) and norm(x.targets[0].value) == 'self' and isinstance(x.value, ast.Call)):
                continue
            a = x.targets[0].attr
            if a not in built_init:
                continue
            n += 1
            key = f'{ss.fq}: self.{a} is rebuilt as __init__ builds it'
            si, sr = skeleton(built_init[a].value), skeleton(x.value)
            if si == sr:
                rep.ok(key, ss.loc(x), f'calls {si[0]}, literals {si[1]}')
            else:
                rep.violation(key, ss.loc(x), f'__init__ builds it with calls {si[0]} and literals {si[1]} (`{norm(built_init[a].value)[:60]}`), __setstate__ with calls {sr[0]} and literals '
                              f'{sr[1]} (`{norm(x.value)[:60]}`): an object that went through pickle / copy.deepcopy (a model handed to a worker process) answers differently from '
                              f'the one it was copied from - for the role pattern without its ^(...)$ anchors, every role that merely STARTS with a defined role counts as defined')
    rep.analysed['rebuilt_attributes'] = n
    return rep


# ---------------------------------------------------------------------------------------------
@rule('R142', 'the stand-in that next(it, None) returns for an exhausted iterator is tested before the value is put back among the items')
def r142(ctx: Ctx) -> RuleReport:
    from ..resolve import facts_ex
    rep = RuleReport('R142', r142.title, floor=0)
    n_sites = 0
    for fi in ctx.repo.all_functions():
        for st in walk_local(fi.node):
            if not (isinstance(st, ast.Assign) and len(st.targets) == 1 and isinstance(st.targets[0], ast.Name) and isinstance(st.value, ast.Call)
                    and norm(st.value.func) == 'next' and len(st.value.args) == 2 and isinstance(st.value.args[1], ast.Constant) and st.value.args[1].value is None):
                continue
            x = st.targets[0].id
            pm = ctx.repo.parent_map(fi.node)
            for use in walk_local(fi.node):
                if not (isinstance(use, ast.Name) and use.id == x and isinstance(use.ctx, ast.Load)):
                    continue
                par = pm.get(id(use))
                as_item = isinstance(par, (ast.List, ast.Tuple, ast.Set)) and isinstance(pm.get(id(par)), ast.Call) \
                    and norm(pm[id(par)].func).split('.')[-1] in ('chain', 'extend', 'list', 'iter', 'deque', 'from_iterable')
                as_item = as_item or (isinstance(par, ast.Call) and isinstance(par.func, ast.Attribute) and par.func.attr in ('append', 'appendleft', 'insert') and use in par.args)
                as_item = as_item or isinstance(par, ast.Yield)
                if not as_item:
                    continue
                n_sites += 1
                fx = {(f.replace(' ', ''), pol) for f, pol in facts_ex(ctx, fi, use)}
                tested = (f'{x}isNone', False) in fx or (f'{x}isnotNone', True) in fx or (x, True) in fx
                key = f'{fi.fq}: `{x}` from {norm(st.value)[:40]} is known not to be the stand-in where it is put back'
                if tested:
                    rep.ok(key, fi.loc(use))
                else:
                    rep.violation(key, fi.loc(use), f'`{norm(st)[:50]}` gives None when the iterator is exhausted, and `{norm(pm.get(id(par)) if isinstance(par, (ast.List, ast.Tuple)) else par)[:50]}` '
                                  f'puts the value back among the items without a test: for an input without any item (an empty file, an empty list of lines) a None travels on as if it '
                                  f'were a line - the lexer is handed None instead of a string, so the empty stream raises where the empty string gives no graphs')
    rep.analysed['sites'] = n_sites
    return rep


# ---------------------------------------------------------------------------------------------
@rule('R143', 'itertools.groupby is only applied to data that is sorted (or otherwise known to be contiguous) by the grouping key')
def r143(ctx: Ctx) -> RuleReport:
    rep = RuleReport('R143', r143.title, floor=0)
    n_sites = 0
    for fi in ctx.repo.all_functions():
        pm = None
        for c in walk_local(fi.node):
            if not (isinstance(c, ast.Call) and norm(c.func) in ('groupby', 'itertools.groupby') and c.args):
                continue
            n_sites += 1
            pm = pm or ctx.repo.parent_map(fi.node)
            keyf = c.args[1] if len(c.args) > 1 else next((k.value for k in c.keywords if k.arg == 'key'), None)
            data = c.args[0]
            d = single_def(ctx, fi, data) if isinstance(data, ast.Name) else data
            key = f'{fi.fq}: `{norm(c)[:50]}` groups data that is ordered by the same key'
            is_sorted = isinstance(d, ast.Call) and norm(d.func) == 'sorted' and (
                (keyf is None and not any(k.arg == 'key' for k in d.keywords)) or
                (keyf is not None and any(k.arg == 'key' and norm(k.value) == norm(keyf) for k in d.keywords)))
            if not is_sorted and isinstance(data, ast.Name):
                is_sorted = any(isinstance(x, ast.Call) and isinstance(x.func, ast.Attribute) and x.func.attr == 'sort' and norm(x.func.value) == data.id
                                and ((keyf is None and not x.keywords) or (keyf is not None and any(k.arg == 'key' and norm(k.value) == norm(keyf) for k in x.keywords)))
                                for x in walk_local(fi.node))
            if is_sorted:
                rep.ok(key, fi.loc(c))
                continue
            # what becomes of the groups: a dict keeps only the LAST group of each key
            x = c
            into_dict = False
            while id(x) in pm and not isinstance(x, ast.stmt):
                x = pm[id(x)]
                if isinstance(x, ast.DictComp) or (isinstance(x, ast.Call) and norm(x.func) in ('dict', 'OrderedDict')):
                    into_dict = True
            if into_dict:
                rep.violation(key, fi.loc(c), f'groupby only joins NEIGHBOURING items with equal keys, and `{norm(data)[:30]}` is not sorted by that key; the groups are then stored in a dict, '
                              f'where a later group replaces an earlier one with the same key: the items of a key that are not adjacent are lost - a node whose relations are separated '
                              f'by another node\'s relation seems to have fewer relations than it has')
            else:
                rep.undecided(key, fi.loc(c), 'the data is not visibly sorted by the grouping key')
    rep.analysed['sites'] = n_sites
    return rep


# ---------------------------------------------------------------------------------------------
@rule('R145', 'text on its way between the notation and the graph is never case-folded (lower / upper / casefold / title / capitalize / swapcase)')
def r145(ctx: Ctx) -> RuleReport:
    rep = RuleReport('R145', r145.title, floor=0)
    n = 0
    MODS = ('penman.surface', 'penman._parse', 'penman._lexer', 'penman.layout', 'penman.codec', 'penman._format', 'penman.constant', 'penman.graph',
            'penman.transform', 'penman.model', 'penman.epigraph')
    for fi in ctx.repo.all_functions():
        if fi.module.name not in MODS and not getattr(ctx, '_is_probe', False):
            continue
        for c in walk_local(fi.node):
            if isinstance(c, ast.Call) and isinstance(c.func, ast.Attribute) and c.func.attr in ('lower', 'upper', 'casefold', 'title', 'capitalize', 'swapcase') and not c.args \
                    and not isinstance(c.func.value, ast.Constant):
                n += 1
                rep.violation(f'{fi.fq}: `{norm(c)[:50]}`', fi.loc(c), f'`{norm(c)[:50]}` changes the case of text that is read from, or written to, the notation: an alignment prefix, a role, '
                              f'a symbol or a variable that differs only in case comes back changed - "(a / alpha~E.1)" is written again as "(a / alpha~e.1)", so encode(decode(s)) is '
                              f'not the text that was read')
    rep.analysed['case_changing_calls'] = n
    return rep


# ---------------------------------------------------------------------------------------------
@rule('R147', 'values are never compared by identity (`is` / `is not`) unless one side is a singleton (None, True, False, a module-level sentinel object)')
def r147(ctx: Ctx) -> RuleReport:
    rep = RuleReport('R147', r147.title, floor=0)
    n_cmp = 0
    for fi in ctx.repo.all_functions():
        for n in walk_local(fi.node):
            if not (isinstance(n, ast.Compare) and any(isinstance(o, (ast.Is, ast.IsNot)) for o in n.ops)):
                continue
            sides = [n.left] + list(n.comparators)
            if any(isinstance(s_, ast.Constant) and (s_.value is None or isinstance(s_.value, bool) or s_.value is Ellipsis) for s_ in sides):
                continue
            # a module-level sentinel: a NAME bound once at module level to a call without arguments (POP = Pop()), or a class
            def sentinel(e):
                if isinstance(e, ast.Name) and e.id.isupper():
                    return True
                if isinstance(e, ast.Name) and (e.id in fi.module.classes or e.id in ('NotImplemented',)):
                    return True
                if isinstance(e, ast.Call) and norm(e.func) == 'type':
                    return True
                return False
            if any(sentinel(s_) for s_ in sides):
                continue
            # only immutable atoms: for lists, dicts and node tuples "the same object" is a well-defined question (a fresh list, a shared sub-tree)
            def atomic_typed(e):
                try:
                    ts_ = ctx.types.type_of(fi, e)
                except Exception:
                    return False
                return bool(ts_) and any(t_[0] in ('str', 'int', 'float', 'Const', 'Var', 'Role') for t_ in ts_)
            if not getattr(ctx, '_is_probe', False) and not all(atomic_typed(s_) for s_ in sides):
                continue
            n_cmp += 1
            rep.violation(f'{fi.fq}: `{norm(n)[:50]}`', fi.loc(n), f'`{norm(n)[:50]}` asks whether two values are the SAME OBJECT. For strings and numbers that depends on interning and caching, '
                          f'not on the value: a symbol that evaluate() hands back through the decoder hook ("NaN", "Infinity") is an equal but different str for text that comes from '
                          f'the lexer, and the same object for a literal - the answer differs between inputs that are equal, and between processes')
    rep.analysed['identity_comparisons_without_a_singleton'] = n_cmp
    return rep


# ---------------------------------------------------------------------------------------------
_DESTRUCTIVE = {'clear', 'remove', 'pop', 'popitem', 'sort', 'reverse', 'insert'}


@rule('R149', 'an in-place operator (`g -= h`, `g |= h`) does not read an attribute of its right operand after destructively changing the same attribute of self (the operands may be one object)')
def r149(ctx: Ctx) -> RuleReport:
    rep = RuleReport('R149', r149.title, floor=0)
    n_ops = 0
    for fi in ctx.repo.all_functions():
        name = fi.name.rsplit('.', 1)[-1]
        if not (name.startswith('__i') and name.endswith('__') and name not in ('__init__', '__iter__', '__int__', '__index__', '__invert__', '__init_subclass__', '__instancecheck__')):
            continue
        if len(fi.positional) != 2:
            continue
        me, other = fi.positional
        n_ops += 1
        writes = {}   # attribute -> first destructive statement
        for st in walk_local(fi.node):
            attr, why = None, None
            if isinstance(st, (ast.Assign, ast.AugAssign)):
                for tg in (st.targets if isinstance(st, ast.Assign) else [st.target]):
                    if isinstance(tg, ast.Subscript) and isinstance(tg.value, ast.Attribute) and norm(tg.value.value) == me and isinstance(tg.slice, ast.Slice):
                        attr, why = tg.value.attr, f'`{norm(tg)} = ...` replaces the contents in place'
                    elif isinstance(tg, ast.Attribute) and norm(tg.value) == me and isinstance(st, ast.Assign):
                        attr, why = tg.attr, f'`{norm(tg)} = ...` re-binds it'
            elif isinstance(st, ast.Delete):
                for tg in st.targets:
                    if isinstance(tg, ast.Subscript) and isinstance(tg.value, ast.Attribute) and norm(tg.value.value) == me:
                        attr, why = tg.value.attr, f'`del {norm(tg)}`'
            elif isinstance(st, ast.Expr) and isinstance(st.value, ast.Call) and isinstance(st.value.func, ast.Attribute) and st.value.func.attr in _DESTRUCTIVE \
                    and isinstance(st.value.func.value, ast.Attribute) and norm(st.value.func.value.value) == me:
                attr, why = st.value.func.value.attr, f'`{norm(st.value)[:40]}`'
            if attr and (attr not in writes or st.lineno < writes[attr][0].lineno):
                writes[attr] = (st, why)
        for attr, (st, why) in sorted(writes.items()):
            end = getattr(st, 'end_lineno', st.lineno)
            # a write inside a loop is followed by every read in that loop
            loops = [lp for lp in walk_local(fi.node) if isinstance(lp, (ast.For, ast.While)) and any(x is st for x in ast.walk(lp))]
            reads = [n for n in walk_local(fi.node) if isinstance(n, ast.Attribute) and n.attr == attr and norm(n.value) == other and isinstance(n.ctx, ast.Load)
                     and not any(x is n for x in ast.walk(st)) and (n.lineno > end or any(any(x is n for x in ast.walk(lp)) for lp in loops))]
            key = f'{fi.fq}: `{other}.{attr}` is not read after `{me}.{attr}` was changed'
            if reads:
                r0 = min(reads, key=lambda n: (n.lineno, n.col_offset))
                rep.violation(key, fi.loc(r0), f'{why} (line {st.lineno}) and afterwards `{other}.{attr}` is read: in `g.{name}(g)` (the augmented assignment with g on both sides) both names are one object, so the read sees the '
                              f'changed contents, not the operand the caller passed - e.g. `g -= g` walks an already emptied list and leaves every marker of the removed triples behind')
            else:
                rep.ok(key, fi.loc(st))
    rep.analysed['in_place_operators'] = n_ops
    return rep
