"""Importing this package registers every rule with pv.core.RULES."""
from . import lexical  # noqa: F401
