"""Importing this package registers every rule with pv.core.RULES."""
from . import lexical  # noqa: F401
from . import parser   # noqa: F401
from . import cli      # noqa: F401
from . import graphq   # noqa: F401
from . import modelr   # noqa: F401
from . import transformr  # noqa: F401
from . import layoutr  # noqa: F401
from . import purity   # noqa: F401
from . import misc     # noqa: F401
from . import fmt      # noqa: F401
from . import small    # noqa: F401
